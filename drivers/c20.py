"""C20 - programs end when work is done; steady-state resources stay bounded.

(a) termination: programs mixing tasks, sleeps, channel traffic, thread calls, process waits
on child actors, stream operations and cancellations with a known set of expected
completions; the simulator chooses the completion order (timer instants, thread finishing
order, child exit instants, readiness).  Blocking is a simulator state, so "the loop
returned", "the loop hangs" (deadlock verdict) and "the loop left while a fiber was still
waiting" are observed exactly.
(b) steady state: one cycle of operations repeated N1 and N2 times in one VM; resource
counters taken at the simulator's OS seam and from the VM after a full collection."""
import json
import random

from common import Driver, Violation, make_request

CYCLES = {
    "pipe-open-close": "(let [[r w] (os/pipe)] (:close r) (:close w))",
    "pipe-xfer": "(let [[r w] (os/pipe)] (ev/write w \"hello\") (ev/read r 5) (:close w) (ev/read r 5) (:close r))",
    "pipe-drop-unclosed": "(do (os/pipe) (gccollect) nil)",
    "unix-connect-accept": "(let [name (string \"@jsim-c20-\" (os/getpid)) srv (net/listen :unix name) c (net/connect :unix name) a (net/accept srv)] "
                           "(ev/write c \"ping\") (ev/read a 4) (:close c) (:close a) (:close srv))",
    "spawn-wait": "(let [p (os/spawn [\"sim-child\" \"w10\" \"x0\"] :p {:out :pipe})] (ev/read (p :out) 10) (os/proc-wait p) (os/proc-close p))",
    "spawn-wait-only": "(let [p (os/spawn [\"sim-child\" \"s1\" \"x3\"] :p)] (os/proc-wait p))",
    "proc-wait-abandoned": "(let [p (os/spawn [\"sim-child\" \"s4\" \"x0\"] :p)] (protect (ev/with-deadline 0.002 (os/proc-wait p))) (ev/sleep 0.004))",
    "spawn-drop": "(do (os/spawn [\"sim-child\" \"x0\"] :p {:out :pipe}) (gccollect) nil)",
    "chan-pingpong": "(let [c (ev/chan)] (ev/spawn (ev/give c 1)) (ev/take c))",
    "chan-buffered-drop": "(let [c (ev/chan 4)] (ev/give c @[1 2 3]) nil)",
    "thread-chan-pingpong": "(let [c (ev/thread-chan 1)] (ev/spawn-thread (ev/give c :x)) (ev/take c))",
    "thread-chan-survives-gc": "(let [c (ev/thread-chan 2) l (ev/lock)] (ev/give c @[1 2 3]) (gccollect) (ev/take c) (ev/acquire-lock l) (ev/release-lock l))",
    "thread-chan-to-thread-and-drop": "(let [c (ev/thread-chan 1)] (ev/thread (fn [&] (ev/give c (string/repeat \"m\" 100)))) (gccollect) (ev/take c))",
    "thread-call": "(ev/thread (fn [&] (+ 1 2)))",
    "thread-call-n": "(do (ev/thread (fn [&] (ev/sleep 0.001)) nil :n) nil)",
    "thread-weak-table": "(ev/thread (fn [&] (def t (table/weak 4)) (put t :a @[1]) (def a (array/weak 2)) nil))",
    "deadline-cancels-take": "(protect (ev/with-deadline 0.002 (ev/take (ev/chan))))",
    "deadline-not-needed": "(ev/with-deadline 0.004 (+ 1 1))",
    "cancel-sleeper": "(let [f (ev/spawn (protect (ev/sleep 0.03)))] (ev/sleep 0) (ev/cancel f :stop))",
    "read-timeout": "(let [[r w] (os/pipe)] (protect (ev/read r 1 @\"\" 0.002)) (:close r) (:close w))",
    "gather-with-failure": "(protect (ev/gather (ev/sleep 0.001) (error :boom) (ev/sleep 0.003)))",
    "select-abandon": "(let [a (ev/chan) b (ev/chan)] (ev/spawn (ev/give b 1)) (ev/select a b))",
    "lock-cycle": "(let [l (ev/lock)] (ev/acquire-lock l) (ev/release-lock l))",
    "marshal-fiber": "(let [f (fiber/new (fn [] (yield 1) 2))] (resume f) (unmarshal (marshal f)))",
    # a child that is still running when its handle is finalised: the finaliser kills and reaps it
    "spawn-drop-running": "(do (os/spawn [\"sim-child\" \"s100000\"] :p) (gccollect) nil)",
    # an ev/thread wait cut by a deadline in a task that ends before the thread does: the task fiber stays pinned only
    # until the thread reports back
    "thread-wait-cut-task-ends": "(do (ev/spawn (protect (ev/with-deadline 0.001 (ev/thread (fn [&] (ev/sleep 0.004)))))) (ev/sleep 0.009))",
    "thread-wait-cancelled": "(let [f (ev/spawn (protect (ev/thread (fn [&] (ev/sleep 0.003)))))] (ev/sleep 0.001) (ev/cancel f :stop) (ev/sleep 0.006))",
    "spawn-fails-with-pipes": "(protect (os/spawn [\"/nonexistent-sim-marker/prog\"] :p {:in :pipe :out :pipe :err :pipe}))",
    "spawn-fails-no-path-lookup": "(protect (os/spawn [\"nonexistent-prog\"] : {:out :pipe}))",
    "connect-fails": "(protect (net/connect :unix (string \"@jsim-c20-nobody-\" (os/getpid))))",
    "listen-twice-fails": "(let [name (string \"@jsim-c20-l-\" (os/getpid)) s (net/listen :unix name)] (protect (net/listen :unix name)) (:close s))",
    "accept-timeout": "(let [name (string \"@jsim-c20-a-\" (os/getpid)) s (net/listen :unix name)] (protect (net/accept s 0.002)) (:close s))",
    "accept-loop-closed": "(let [name (string \"@jsim-c20-al-\" (os/getpid)) s (net/listen :unix name) f (ev/go (fn [] (protect (net/accept-loop s (fn [c] (:close c))))))] "
                          "(let [c (net/connect :unix name)] (ev/sleep 0.001) (:close c)) (:close s) (ev/sleep 0.001) (ev/cancel f :stop))",
    "server-handler-error": "(let [name (string \"@jsim-c20-se-\" (os/getpid)) s (net/server :unix name (fn [c] (error :handler-boom)))] "
                            "(let [c (net/connect :unix name)] (protect (ev/read c 1 @\"\" 0.002)) (:close c)) (:close s) (ev/sleep 0.001))",
    "dgram-pair": "(let [name (string \"@jsim-c20-dg-\" (os/getpid)) s (net/listen :unix name :datagram) c (net/connect :unix name :datagram)] "
                  "(ev/write c \"dgram\") (net/recv-from s 16 @\"\") (:close c) (:close s))",
    "to-file-dup": "(let [[r w] (os/pipe)] (def f (ev/to-file w)) (file/write f \"x\") (file/close f) (:close w) (ev/read r 1) (:close r))",
    "to-file-dropped": "(let [[r w] (os/pipe)] (ev/to-file w) (:close w) (:close r) (gccollect) nil)",
    "pipe-flags": "(let [[r w] (os/pipe :W)] (:close r) (:close w))",
    "proc-kill-wait": "(let [p (os/spawn [\"sim-child\" \"s100000\"] :p)] (os/proc-kill p true :term))",
    "proc-kill-nowait-close": "(let [p (os/spawn [\"sim-child\" \"s100000\"] :p {:in :pipe :out :pipe})] (os/proc-kill p) (os/proc-close p))",
    "proc-close-running": "(let [p (os/spawn [\"sim-child\" \"R\" \"x0\"] :p {:in :pipe})] (os/proc-close p))",
    "execute-fails": "(protect (os/execute [\"/nonexistent-sim-marker/prog\"] :x))",
    "execute-x-nonzero": "(protect (os/execute [\"sim-child\" \"x3\"] :px))",
    "thread-error": "(protect (ev/thread (fn [&] (error :thread-boom))))",
    "do-thread": "(ev/do-thread (+ 1 2))",
    "thread-supervised": "(let [sup (ev/thread-chan 4)] (ev/thread (fn [&] (error :boom)) nil :nt sup) (ev/take sup))",
    "task-supervised-error": "(let [sup (ev/chan 4)] (ev/go (fn [] (error :boom)) nil sup) (ev/take sup))",
    "rselect-abandon": "(let [a (ev/chan) b (ev/chan 1)] (ev/give b 1) (ev/rselect a b [a 5]))",
    "chan-close-with-waiters": "(let [c (ev/chan)] (ev/spawn (protect (ev/take c))) (ev/spawn (protect (ev/give c 1) (ev/give c 2))) (ev/sleep 0) (ev/chan-close c) (ev/sleep 0))",
    "thread-chan-close-with-waiter": "(let [c (ev/thread-chan 0)] (ev/spawn-thread (protect (ev/take c))) (ev/sleep 0.002) (ev/chan-close c) (ev/sleep 0.002))",
    "rwlock-cycle": "(let [l (ev/rwlock)] (ev/acquire-rlock l) (ev/release-rlock l) (ev/acquire-wlock l) (ev/release-wlock l))",
    "deadline-nested": "(protect (ev/with-deadline 0.004 (protect (ev/with-deadline 0.001 (ev/sleep 0.01))) (ev/sleep 0.001)))",
    "gather-all-ok": "(ev/gather (ev/sleep 0.001) (ev/sleep 0.002) (+ 1 2))",
    "chunk-eof": "(let [[r w] (os/pipe)] (ev/write w \"abc\") (:close w) (ev/chunk r 10) (:close r))",
    "write-to-closed-reader": "(let [[r w] (os/pipe)] (:close r) (protect (ev/write w \"abc\")) (:close w))",
    "marshal-chan": "(let [c (ev/chan 2)] (ev/give c 1) (unmarshal (marshal c)))",
    "stream-to-thread-read": "(let [[r w] (os/pipe) c (ev/thread-chan 1)] (ev/thread (fn [&] (ev/give c (string (ev/read r 5))) (:close r)) nil :n) "
                             "(ev/sleep 0.002) (ev/write w \"hello\") (ev/take c) (:close r) (:close w))",
    "stream-over-thread-chan": "(let [[r w] (os/pipe) c (ev/thread-chan 1) d (ev/thread-chan 1)] (ev/thread (fn [&] (let [s (ev/take c)] (ev/write s \"yo\") (:close s)) (ev/give d 1)) nil :n) "
                               "(ev/give c w) (ev/take d) (ev/read r 2) (:close r) (:close w))",
    "spawn-bad-arg-after-pipe": "(do (protect (os/spawn [\"sim-child\" \"x0\"] :p {:in :pipe :out 42})) (protect (os/spawn [\"sim-child\" \"x0\"] :p {:out :pipe :cd 5})))",
    "give-unmarshallable-to-thread-chan": "(let [c (ev/thread-chan 2)] (protect (ev/give c (parser/new))) (ev/give c 1) (ev/take c))",
    "connect-fails-then-pipe": "(do (protect (net/connect :unix (string \"@jsim-c20-nobody2-\" (os/getpid)))) (let [[r w] (os/pipe)] (gccollect) (ev/write w \"x\") (ev/read r 1) (:close r) (:close w)))",
    "close-with-reader-and-writer-parked": "(let [name (string \"@jsim-c20-rw-\" (os/getpid)) s (net/listen :unix name) c (net/connect :unix name) a (net/accept s)] "
                                           "(ev/spawn (protect (ev/read a 10))) (ev/spawn (protect (ev/write a (string/repeat \"x\" 400000)))) "
                                           "(ev/sleep 0.001) (:close a) (ev/sleep 0.001) (:close c) (:close s))",
    "thread-chan-cancelled-waiter-then-close": "(let [c (ev/thread-chan 0) f (ev/spawn (protect (ev/take c)))] (ev/sleep 0) (ev/cancel f :stop) (ev/sleep 0) (ev/chan-close c))",
    # an abandoned wait on a thread channel leaves its entry (and the root taken for it) behind until traffic on
    # the channel consumes the entry: the waiter's thread then finds it stale, routes the item on and drops the root
    "thread-chan-abandoned-take-then-traffic": "(let [c (ev/thread-chan 0)] (protect (ev/with-deadline 0.001 (ev/take c))) (ev/spawn (ev/give c 1)) (ev/sleep 0) (ev/take c))",
    "thread-chan-cancelled-taker-then-traffic": "(let [c (ev/thread-chan 0) f (ev/spawn (protect (ev/take c)))] (ev/sleep 0) (ev/cancel f :stop) (ev/sleep 0) (ev/spawn (ev/give c 1)) (ev/sleep 0) (ev/take c))",
    "thread-chan-lost-select-clause-then-traffic": "(let [c (ev/thread-chan 0) d (ev/chan 0)] (ev/spawn (ev/select c d)) (ev/sleep 0) (ev/give d 1) (ev/spawn (ev/give c 2)) (ev/sleep 0) (ev/take c))",
    "thread-chan-cancelled-giver-then-traffic": "(let [c (ev/thread-chan 0) f (ev/spawn (protect (ev/give c 1)))] (ev/sleep 0) (ev/cancel f :stop) (ev/sleep 0) (ev/take c) (ev/spawn (ev/give c 2)) (ev/sleep 0) (ev/take c))",
    # a deadline whose body has finished is dropped as soon as the loop meets it on top of the timer heap - here
    # while the task waits for a child, with no other timer pending - not when it expires half a minute later
    "deadline-long-then-proc-wait": "(do (ev/with-deadline 30 (+ 1 1)) (os/execute [\"sim-child\" \"s1\" \"x0\"] :p))",
    "deadline-long-explicit-tocheck-then-proc-wait": "(let [f (coro (+ 1 1))] (ev/deadline 30 nil f) (resume f) (os/execute [\"sim-child\" \"s1\" \"x0\"] :p))",
    # a select whose other clause is a channel that never sees traffic: the entry it leaves there is dropped by the
    # next waiter that queues on that channel, not kept (with the finished task it pins) for ever (finding 78)
    "select-loser-on-a-quiet-channel": "(let [a (ev/chan) t (ev/spawn (ev/select a QUIET))] (ev/sleep 0) (ev/give a 1) (ev/sleep 0))",
    # a pipe made while nothing else runs, then an unrelated child that outlives the transfer: the reader sees the end
    # when the writer closes (the child holds no copy of the write end), well before the child exits
    "pipe-eof-not-held-up-by-a-sibling-child": "(let [[r w] (os/pipe) p (os/spawn [\"sim-child\" \"s40\" \"x0\"] :p)] (ev/spawn (ev/write w \"hello\") (:close w)) (ev/with-deadline 0.02 (ev/read r :all)) (:close r) (os/proc-wait p))",
    # a signal handler that replaces another one releases it
    "sigaction-replaced-then-removed": "(do (os/sigaction :usr2 (fn [&] (string/repeat \"a\" 10)) true) (os/sigaction :usr2 (fn [&] (string/repeat \"b\" 10)) true) (os/sigaction :usr2 nil))",
    "sigaction-replaced-thrice": "(do (os/sigaction :usr1 (fn [&] 1)) (os/sigaction :usr1 (fn [&] 2)) (os/sigaction :usr1 (fn [&] 3)) (os/sigaction :usr1))",
    "thread-chan-cancelled-giver-then-close": "(let [c (ev/thread-chan 0) f (ev/spawn (protect (ev/give c 1)))] (ev/sleep 0) (ev/cancel f :stop) (ev/sleep 0) (ev/chan-close c))",
    "chan-cancelled-waiter-then-close": "(let [c (ev/chan 0) f (ev/spawn (protect (ev/take c)))] (ev/sleep 0) (ev/cancel f :stop) (ev/sleep 0) (ev/chan-close c))",
    "spawn-file-redirect": "(let [f (file/open \"/dev/null\" :w) p (os/spawn [\"sim-child\" \"w10\" \"x0\"] :p {:out f})] (os/proc-wait p) (os/proc-close p) (file/close f))",
    "to-file-less": "(let [[r w] (os/pipe)] (ev/write w (string/repeat \"x\" 5000)) (:close w) (ev/read r :all) (:close r))",
}
# counters that must not grow at all between N1 and N2 cycles, and those with a constant allowance
STRICT = ["fds", "children", "zombies", "threads", "roots", "listeners", "timers", "threaded-abstracts", "active-tasks"]
LOOSE = {"blocks": 64, "allocs": 96}


class C20(Driver):
    prop = "C20"
    level = "exploration"
    flavours = ["plain"]
    budgets = {"quick": 60, "thorough": 1200}
    rule = ("two plan kinds drawn per seed: (a) termination plans = tasks x steps (sleep, thread call, process wait, pipe and "
            "channel transfers between paired tasks, deadline-cut waits, cancelled sleepers, read timeouts) with seeded "
            "durations, scheduler and fault probabilities; (b) cycle plans = one of %d cycle kinds (or a mix of two) repeated "
            "N1 and N2 times; non-trivial = every run (each has its own durations/schedule); distinct = sha256(plan, fired faults)"
            % len(CYCLES))
    assumptions = ["child processes are in-process actors (stub): zombie/un-reaped accounting is the simulator's",
                   "memory counters are Janet's own malloc/free calls (link-time wrap) plus VM block counts after gccollect",
                   "block/byte counters get a constant allowance (caches, table growth); the strict counters get none"]
    required_probes = ["term_plans", "cycle_plans", "thread_completed_before_exit", "child_reaped"]
    timeout_ms = 60000

    # ---------------- generation ----------------
    def gen(self, seed, tier):
        r = random.Random(seed)
        if r.random() < 0.5:
            return self.gen_term(seed, r)
        return self.gen_cycle(seed, r, tier)

    def gen_term(self, seed, r):
        ntasks = r.randint(1, 5)
        tasks = []
        pairs = 0
        for t in range(ntasks):
            steps = []
            for _ in range(r.randint(1, 4)):
                k = r.choice(["sleep", "thread", "thread-n", "proc", "deadline-cut", "read-timeout", "chan-pair", "pipe-pair",
                              "cancel-me", "gather"])
                st = {"k": k, "ms": r.choice([0, 1, 2, 3, 5, 8, 13])}
                if r.random() < 0.04:
                    # many threads finish while this thread is not in its loop: their completions arrive in one burst
                    st = {"k": "thread-burst", "ms": r.choice([1, 3]), "n": r.choice([17, 33, 65, 70, 129, 200])}
                if k == "proc":
                    st["code"] = r.choice([0, 1, 9])
                if k in ("chan-pair", "pipe-pair"):
                    st["pair"] = pairs
                    pairs += 1
                steps.append(st)
            tasks.append({"id": t, "steps": steps})
        p = {"switch": r.choice([0.02, 0.2, 0.5])}
        if r.random() < 0.4:
            for k in ("eintr_r", "eagain_r", "epoll_eintr", "epoll_delay", "epoll_reorder"):
                if r.random() < 0.4:
                    p[k] = r.choice([0.05, 0.2])
        knobs = {"seed": seed, "p": p, "sched": r.choice(["random", "pct1", "pct2"]), "max_yields": 500000}
        return {"property": "C20", "kind": "term", "knobs": knobs, "tasks": tasks, "npairs": pairs}

    def gen_cycle(self, seed, r, tier):
        names = sorted(CYCLES)
        ks = [r.choice(names)]     # one cycle kind per plan: the signature names the culprit
        n1, n2 = (50, 200) if tier == "quick" else r.choice([(50, 200), (200, 1000), (500, 5000)])
        p = {"switch": r.choice([0.02, 0.2])}
        if r.random() < 0.3:
            for k in ("eintr_r", "eagain_r", "eagain_w", "epoll_eintr", "epoll_delay"):
                if r.random() < 0.4:
                    p[k] = r.choice([0.05, 0.2])
        knobs = {"seed": seed, "p": p, "max_yields": 4000000, "max_sim_s": 100000}
        return {"property": "C20", "kind": "cycle", "knobs": knobs, "cycles": ks, "n1": n1, "n2": n2}

    # ---------------- rendering ----------------
    def render(self, plan):
        L = []
        A = L.append
        if plan["kind"] == "cycle":
            body = " ".join("(do %s)" % CYCLES[k] for k in plan["cycles"])
            A("(def QUIET (ev/chan))")
            A("(defn cycle [] %s (ev/sleep 0.001))" % body)
            A("(defn snap [n] (sim/ev :presnap n (sim/stats)) (gccollect) (ev/sleep 0.02) (gccollect) (gccollect) (sim/ev :snap n (sim/stats)))")
            A("(defn main []")
            A("  (try (do")
            A("    (repeat %d (cycle))" % plan["n1"])
            A("    (snap %d)" % plan["n1"])
            A("    (repeat %d (cycle))" % (plan["n2"] - plan["n1"]))
            A("    (snap %d))" % plan["n2"])
            A("   ([e] (sim/ev :cycle-error e)))")
            A("  (sim/ev :done 0))")
            A("(ev/go main)")
            return make_request(plan["knobs"], "\n".join(L))
        A("(def PC @{}) (def PP @{})")
        for i in range(plan["npairs"]):
            A("(put PC %d (ev/chan)) (put PP %d (os/pipe))" % (i, i))
        helpers = []
        for t in plan["tasks"]:
            T = t["id"]
            A("(defn task%d []" % T)
            for k, st in enumerate(t["steps"]):
                kind, ms = st["k"], st["ms"]
                sec = ms / 1000.0
                A("  (sim/ev :inv %d %d)" % (T, k))
                if kind == "sleep":
                    body = "(ev/sleep %s)" % sec
                elif kind == "thread":
                    body = "(ev/thread (fn [&] (ev/sleep %s) (sim/ev :tdone %d %d)))" % (sec, T, k)
                elif kind == "thread-n":
                    body = "(ev/thread (fn [&] (ev/sleep %s) (sim/ev :tdone %d %d)) nil :n)" % (sec, T, k)
                elif kind == "thread-burst":
                    body = ("(do (repeat %d (ev/thread (fn [&] (ev/sleep %s)) nil :n)) (os/sleep %s) (ev/sleep 0.001))"
                            % (st["n"], sec, (ms + 5) / 1000.0))
                elif kind == "proc":
                    body = "(sim/ev :exit %d %d (os/proc-wait (os/spawn [\"sim-child\" \"s%d\" \"x%d\"] :p)))" % (T, k, ms, st["code"])
                elif kind == "deadline-cut":
                    body = "(protect (ev/with-deadline %s (ev/sleep 50)))" % sec
                elif kind == "read-timeout":
                    body = "(let [[r w] (os/pipe)] (protect (ev/read r 1 @\"\" %s)) (:close r) (:close w))" % max(sec, 0.001)
                elif kind == "chan-pair":
                    helpers.append("(ev/go (fn [] (ev/sleep %s) (ev/give (PC %d) :v)))" % (sec, st["pair"]))
                    body = "(ev/take (PC %d))" % st["pair"]
                elif kind == "pipe-pair":
                    helpers.append("(ev/go (fn [] (ev/sleep %s) (ev/write ((PP %d) 1) \"data\") (:close ((PP %d) 1))))" % (sec, st["pair"], st["pair"]))
                    body = "(do (ev/read ((PP %d) 0) 4) (:close ((PP %d) 0)))" % (st["pair"], st["pair"])
                elif kind == "cancel-me":
                    body = "(let [me (fiber/root)] (ev/go (fn [] (ev/sleep %s) (ev/cancel me :stop))) (protect (ev/sleep 50)))" % sec
                elif kind == "gather":
                    body = "(protect (ev/gather (ev/sleep %s) (do (ev/sleep 0.001) (error :boom)) (ev/sleep 50)))" % sec
                A("  (try %s ([e] (sim/ev :step-error %d %d e)))" % (body, T, k))
                A("  (sim/ev :ret %d %d)" % (T, k))
            A("  (sim/ev :done %d))" % T)
        for h in helpers:
            A(h)
        for t in plan["tasks"]:
            A("(ev/go task%d)" % t["id"])
        return make_request(plan["knobs"], "\n".join(L))

    # ---------------- oracle ----------------
    def check(self, plan, res):
        vs = []
        V = lambda sig, d="": vs.append(Violation(sig, d))
        oc = res.outcome
        if oc not in ("ok", "deadlock", "livelock"):
            return [Violation("C20/run/%s" % oc.split(":")[0], (res.log or "")[-600:])]
        evs = res.events
        for e in evs:
            if e.kind == "!badclose":
                what = "+".join(plan["cycles"]) if plan["kind"] == "cycle" else "term"
                V("C20/descriptor/closed-a-descriptor-that-is-not-open/in=%s" % what, "close(%s) failed with EBADF: a double close" % e.payload)
                break
        if plan["kind"] == "cycle":
            tag = "+".join(plan["cycles"])
            if oc != "ok":
                return [Violation("C20/cycle/loop-does-not-return/cycle=%s" % tag, evs[-1].payload if evs else "")]
            snaps = {}
            presnaps = {}
            for e in evs:
                if e.kind == "snap":
                    n, rest = e.payload.split(" ", 1)
                    d = {}
                    toks = rest.strip("{}").split(" ")
                    for a, b in zip(toks[0::2], toks[1::2]):
                        try:
                            d[a.lstrip(":")] = int(float(b))
                        except ValueError:
                            pass
                    snaps[int(n)] = d
                elif e.kind == "presnap":
                    n, rest = e.payload.split(" ", 1)
                    toks = rest.strip("{}").split(" ")
                    presnaps[int(n)] = {a.lstrip(":"): int(float(b)) for a, b in zip(toks[0::2], toks[1::2]) if b.lstrip("-").replace(".", "").isdigit()}
                elif e.kind == "cycle-error":
                    V("C20/cycle/raised/cycle=%s" % tag, e.payload[:200])
            if plan["n1"] in snaps and plan["n2"] in snaps:
                a, b = snaps[plan["n1"]], snaps[plan["n2"]]
                for k in STRICT:
                    if b.get(k, 0) > a.get(k, 0):
                        V("C20/steady-state/%s-grow-with-repetitions/cycle=%s" % (k, tag),
                          "%s: %d after %d cycles, %d after %d cycles" % (k, a.get(k, 0), plan["n1"], b.get(k, 0), plan["n2"]))
                for k, slack in LOOSE.items():
                    grow = b.get(k, 0) - a.get(k, 0)
                    per = grow / float(plan["n2"] - plan["n1"])
                    if grow > slack and per >= 0.5:
                        V("C20/steady-state/%s-grow-with-repetitions/cycle=%s" % (k, tag),
                          "%s: %d after %d cycles, %d after %d cycles (%.2f per cycle)" % (k, a.get(k, 0), plan["n1"], b.get(k, 0), plan["n2"], per))
            elif not vs:
                V("C20/cycle/snapshots-missing/cycle=%s" % tag, "")
            # descriptors must not wait for the collector: a cycle that closes everything it can close keeps the count
            # of open descriptors flat *before* any collection, too (the default collection interval is 4 MB of
            # allocation - thousands of such cycles)
            # (server-handler-error: the handler raises without closing its connection - the program's omission)
            relies_on_gc = any("gccollect" in CYCLES[k] or "drop" in k or k == "server-handler-error" for k in plan["cycles"])
            if not relies_on_gc and plan["n1"] in presnaps and plan["n2"] in presnaps and res.stats.get("end", {}).get("gcs", "0") in ("0", 0):
                a, b = presnaps[plan["n1"]], presnaps[plan["n2"]]
                if b.get("fds", 0) - a.get("fds", 0) > 8:
                    V("C20/steady-state/fds-grow-until-a-collection/cycle=%s" % tag,
                      "open descriptors before any collection: %d after %d cycles, %d after %d cycles" % (a.get("fds", 0), plan["n1"], b.get("fds", 0), plan["n2"]))
            # at exit nothing may be left registered
            end = res.stats.get("end", {})
            if end and (int(end.get("listeners", 0)) or int(end.get("timers", 0))):
                V("C20/exit/loop-returned-with-registered-listeners-or-timers/cycle=%s" % tag, str(end))
            return self.dedup(vs)
        # ---- termination plans ----
        inv, ret, done = {}, {}, set()
        tdone, exits = {}, {}
        last_user_t = 0
        loop_exit = None
        for e in evs:
            if not e.kind.startswith("!"):
                last_user_t = max(last_user_t, e.t)
            if e.kind == "inv":
                T, k = (int(x) for x in e.payload.split(" "))
                inv[(T, k)] = e
            elif e.kind == "ret":
                T, k = (int(x) for x in e.payload.split(" "))
                ret[(T, k)] = e
            elif e.kind == "done":
                done.add(int(e.payload))
            elif e.kind == "tdone":
                T, k = (int(x) for x in e.payload.split(" "))
                tdone[(T, k)] = e
            elif e.kind == "exit":
                T, k, code = e.payload.split(" ")
                exits[(int(T), int(k))] = code
            elif e.kind == "!loop-exit":
                loop_exit = e
            elif e.kind == "step-error":
                V("C20/term/step-raised", e.payload[:160])
        steps = {(t["id"], k): st for t in plan["tasks"] for k, st in enumerate(t["steps"])}
        pending = [key for key in inv if key not in ret]
        kinds = sorted({steps[k]["k"] for k in pending})
        if oc == "deadlock":
            V("C20/term/loop-hangs-after-work-is-done/pending=%s" % (",".join(kinds) or "none"),
              "the run ended in the simulator's deadlock verdict; pending steps %r" % pending)
        elif oc == "livelock":
            V("C20/term/loop-spins", "")
        else:
            missing = [t["id"] for t in plan["tasks"] if t["id"] not in done]
            if missing:
                V("C20/term/loop-returned-while-a-fiber-was-still-waiting/pending=%s" % ",".join(kinds),
                  "tasks %r never finished, pending steps %r" % (missing, pending))
            for key, st in steps.items():
                if st["k"] == "thread" and key in ret and (key not in tdone or tdone[key].seq > ret[key].seq):
                    V("C20/term/thread-call-returned-before-the-thread-finished", "%r" % (key,))
                if st["k"] == "thread-n" and key in inv and key not in tdone:
                    V("C20/term/loop-returned-while-a-thread-was-still-running", "%r" % (key,))
                if st["k"] == "proc" and key in ret and exits.get(key) != str(st["code"]):
                    V("C20/term/proc-wait-result-wrong", "%r expected %d got %r" % (key, st["code"], exits.get(key)))
            end = res.stats.get("end", {})
            if end and (int(end.get("listeners", 0)) or int(end.get("timers", 0))):
                V("C20/exit/loop-returned-with-registered-listeners-or-timers", str(end))
            if end and int(end.get("zombies", 0)) + int(end.get("children", 0)) > 0:
                V("C20/exit/child-processes-left-behind", str(end))
            # not after: the loop must not linger until a stale timer (deadline whose body finished, cancelled sleep)
            if loop_exit is not None and not missing:
                slack = 1000000 + (6000000 if res.fault_counts.get("clock_jump") else 0)
                if loop_exit.t > last_user_t + slack:
                    V("C20/term/loop-lingers-after-last-completion", "last completion at %d ns, loop returned at %d ns" % (last_user_t, loop_exit.t))
        return self.dedup(vs)

    @staticmethod
    def dedup(vs):
        seen, out = set(), []
        for v in vs:
            if v.sig not in seen:
                seen.add(v.sig)
                out.append(v)
        return out

    # ---------------- evidence ----------------
    def extra(self, plan, res):
        x = {"kind": plan["kind"]}
        if plan["kind"] == "cycle":
            x["cycles"] = plan["cycles"]
            x["n2"] = plan["n2"]
        else:
            x["tdone"] = sum(1 for e in res.events if e.kind == "tdone")
            x["steps"] = sorted({st["k"] for t in plan["tasks"] for st in t["steps"]})
        x["reaped"] = sum(1 for e in res.events if e.kind == "!child" and e.payload.startswith("reaped"))
        return x

    def aggregate(self, extras):
        ex = [x for x in extras if x]
        cyc, steps = {}, {}
        for x in ex:
            for c in x.get("cycles", []):
                cyc[c] = cyc.get(c, 0) + 1
            for s in x.get("steps", []):
                steps[s] = steps.get(s, 0) + 1
        return {"probes": {"term_plans": sum(1 for x in ex if x["kind"] == "term"), "cycle_plans": sum(1 for x in ex if x["kind"] == "cycle"),
                           "thread_completed_before_exit": sum(x.get("tdone", 0) for x in ex), "child_reaped": sum(x["reaped"] for x in ex)},
                "cycle_kinds_run": cyc, "term_step_kinds_run": steps, "max_repetitions": max([x.get("n2", 0) for x in ex] or [0])}

    # ---------------- shrinking ----------------
    def shrink(self, plan):
        cp = lambda: json.loads(json.dumps(plan))
        if plan["kind"] == "cycle":
            if len(plan["cycles"]) > 1:
                for i in range(len(plan["cycles"])):
                    q = cp()
                    del q["cycles"][i]
                    yield q
            if plan["n2"] > 200:
                q = cp()
                q["n1"], q["n2"] = 50, 200
                yield q
        else:
            for ti in range(len(plan["tasks"])):
                if len(plan["tasks"]) > 1:
                    q = cp()
                    del q["tasks"][ti]
                    yield q
            for ti, t in enumerate(plan["tasks"]):
                for k in range(len(t["steps"])):
                    if len(t["steps"]) > 1:
                        q = cp()
                        del q["tasks"][ti]["steps"][k]
                        yield q
            for ti, t in enumerate(plan["tasks"]):
                for k, st in enumerate(t["steps"]):
                    if st["ms"] > 1:
                        q = cp()
                        q["tasks"][ti]["steps"][k]["ms"] = 1
                        yield q
        if len(plan["knobs"].get("p", {})) > 1 and not plan["knobs"].get("explicit"):
            q = cp()
            q["knobs"]["p"] = {"switch": plan["knobs"]["p"].get("switch", 0.02)}
            yield q


DRIVER = C20
