"""C07 - a suspended fiber is resumed only by what it is currently waiting for.

Three-party timing on the simulated clock: a *victim* fiber performs waits W1, W2, ...
(sleep, take, give on a full channel, select, stream read/chunk/write with or without the
timeout argument, process wait on a simulated child, thread wait; optionally inside
ev/with-deadline); *adversary* fibers abandon W_i (ev/cancel, timeout, deadline, another
select clause) and then, while the victim is inside W_{i+1}, fire whatever W_i was waiting
for.  Every step has its own resources, so every value that resumes a wait is attributable.
Oracle: attribution of every resume value to the current wait + ev/sleep lower bound +
conservation on abandoned channels."""
import json
import random

from common import Driver, Violation, make_request

KINDS = ["sleep", "take", "give", "select", "selectg", "read", "chunk", "write", "proc", "thread", "gather", "accept"]
TIMEOUT_OK = {"read", "chunk", "write", "accept"}


def r_bad(i):
    return ["-2", "-1", ":nope", "1.5", "0x7fffffff"][i % 5] if i % 5 != 4 else "-3"


class C07(Driver):
    prop = "C07"
    level = "exploration"
    flavours = ["plain"]
    budgets = {"quick": 50, "thorough": 900}
    rule = ("plan = victim with 2-5 waits (sleep/take/give/select on ordinary and thread channels/read/chunk/write/accept/"
            "proc-wait with and without :x/thread/gather, optional with-deadline, hand-spelt ev/deadline or timeout, wrappers, "
            "waits under a C frame) x adversary actions at seeded simulated instants (abandon W_i, then fire its "
            "trigger while the victim is in W_i+1) x clock phase/jitter and byte-transfer faults; non-trivial = some "
            "wait was abandoned and its stale trigger fired later; distinct = sha256(plan, fired faults)")
    assumptions = ["each victim step uses its own channel/pipe/child, so a resume value names the wait it belongs to",
                   "timeouts/deadlines may fire up to 1 ms early (the loop clock is in ms); only ev/sleep has a strict lower bound",
                   "ev/deadline with the interrupt flag and os/sigaction are out of scope"]
    required_probes = ["abandoned_then_stale_trigger", "cancel_landed_in_wait", "deadline_fired", "timeout_fired"]
    timeout_ms = 20000

    # ---------------- generation ----------------
    def gen(self, seed, tier):
        return self._gen2(seed, tier)

    def _gen2(self, seed, tier):
        r = random.Random(seed)
        nsteps = r.randint(2, 5)
        steps, adv = [], []
        t = r.choice([0, 0, 1, 2])
        ncancel = 0
        for i in range(nsteps + 1):
            last = i == nsteps
            kind = "sleep" if last else r.choice(KINDS)
            dur = 20 if last else r.randint(4, 14)
            ends = ["complete", "complete", "cancel", "deadline"]
            if kind in TIMEOUT_OK:
                ends += ["timeout", "timeout"]
            if kind in ("select", "selectg", "gather"):
                ends += ["other", "other"]
            if kind in ("take", "select", "read"):
                # the deadline and the completion of the wait fall into the same instant: whichever wins, a value
                # that the giver saw delivered reaches the victim
                ends += ["tie"]
            if kind in ("read", "chunk"):
                # another fiber already waits to read this stream: the operation is refused at once, and whatever
                # it armed before (its timeout) must go with it
                ends += ["refused", "badarg"]
            if kind not in ("gather", "accept"):
                # the wait is issued under a C -> Janet callback: its suspension is coerced to an error at once,
                # whatever it registered (timer, channel entry, listener, process/thread wait) is abandoned
                ends += ["cframe"]
            end = "complete" if last else r.choice(ends)
            delta = r.choice([1, 1, 2, 3, 5])
            st = {"i": i, "kind": kind, "end": end, "dur": dur}
            if end == "cframe":
                st["nested"] = r.choice([0, 1, 1])     # directly in the callback / inside a try in the callback
            if kind == "sleep":
                st["ms"] = dur if end == "complete" else dur + delta
            if end in ("deadline", "tie"):
                st["deadline"] = dur
            elif end == "complete" and not last and r.random() < 0.3:
                # a deadline that outlives its body: it expires while the victim is in a later wait
                st["deadline"] = dur + r.choice([1, 2, 3, 6, 12, 25])
                st["late"] = 1
                if r.random() < 0.4:
                    st["via_label"] = 1     # the body leaves through a user signal (return to a label), not by returning
            if end in ("timeout", "refused", "badarg"):
                st["timeout"] = dur
            if kind in ("read", "chunk"):
                st["n"] = r.choice([1, 5, 64]) if kind == "read" else r.choice([4, 16])
            if kind == "proc":
                st["child_ms"] = dur if end == "complete" else dur + delta
                st["code"] = r.choice([0, 1, 7])
                if r.random() < 0.4:
                    st["px"] = 1      # :x - a non-zero exit status is raised as an error in the waiting fiber
            if kind in ("take", "select") and r.random() < 0.3:
                # a thread channel: its waiters are resumed by a message posted to their thread's loop, and an
                # entry found stale there is routed on (next waiter, else the item goes back to the queue)
                st["tchan"] = 1
            if "deadline" in st and not st.get("via_label") and r.random() < 0.3:
                # the same deadline spelt by hand: (ev/deadline sec) called inside the coroutine that runs the wait
                st["bare_dl"] = 1
            if kind == "thread":
                st["thread_ms"] = dur if end == "complete" else dur + delta
            fire = t + dur if end in ("complete", "tie") else t + dur + delta
            if end == "tie" and r.random() < 0.6:
                fire -= 1       # (with a ticking clock the deadline then expires while the completion is being handled)
            if end == "cancel":
                adv.append({"t": t + dur, "a": "cancel", "k": ncancel})
                ncancel += 1
            if kind == "take":
                adv.append({"t": fire, "a": "give", "ch": [i, 0], "v": i * 1000 + 1})
                if r.random() < 0.3:
                    adv.append({"t": fire + r.choice([0, 1, 4]), "a": "close", "ch": [i, 0]})
                    if st.get("tchan") and r.random() < 0.6:
                        adv[-1]["xthread"] = 1      # the channel is closed by another thread
            elif kind == "give":
                adv.append({"t": fire, "a": "take", "ch": [i, 0]})
            elif kind == "select":
                if end == "other":
                    adv.append({"t": t + dur, "a": "give", "ch": [i, 1], "v": i * 1000 + 501})
                    adv.append({"t": fire, "a": "give", "ch": [i, 0], "v": i * 1000 + 1})
                    if st.get("tchan") and r.random() < 0.4:
                        # the channel of the clause that lost is closed from another thread while the victim is elsewhere
                        adv[-1] = {"t": fire, "a": "close", "ch": [i, 0], "xthread": 1}
                else:
                    adv.append({"t": fire, "a": "give", "ch": [i, r.choice([0, 1])], "v": i * 1000 + 1})
            elif kind == "selectg":
                # clause 0 gives on channel 0, clause 1 takes from channel 1
                if end == "other":
                    adv.append({"t": t + dur, "a": "give", "ch": [i, 1], "v": i * 1000 + 501})
                    adv.append({"t": fire, "a": "take", "ch": [i, 0]})   # stale: meets the abandoned give clause
                elif r.random() < 0.5:
                    adv.append({"t": fire, "a": "take", "ch": [i, 0]})
                else:
                    adv.append({"t": fire, "a": "give", "ch": [i, 1], "v": i * 1000 + 501})
            elif kind in ("read", "chunk"):
                n = st["n"]
                if r.random() < 0.25:
                    adv.append({"t": fire, "a": "closew", "p": i})
                else:
                    adv.append({"t": fire, "a": "write", "p": i, "n": n if kind == "chunk" else r.choice([1, n, n + 3])})
            elif kind == "write":
                adv.append({"t": fire, "a": "drain", "p": i})
            elif kind == "gather":
                # branch 0 takes from channel 0; branch 1 sleeps and then returns or (end = other) fails
                st["sib_ms"] = dur if end == "other" else r.randint(1, dur)
                adv.append({"t": fire, "a": "give", "ch": [i, 0], "v": i * 1000 + 1})
            elif kind == "accept":
                adv.append({"t": fire, "a": "connect", "p": i})
            if not last and r.random() < 0.35:
                # semantically transparent wrappers around the wait (each is built from a hidden fiber or a dynamic
                # scope): the wait is then suspended, abandoned and resumed *through* them
                st["wrap"] = [r.choice(["try", "defer", "dyns", "coro", "label", "prompt"]) for _ in range(r.randint(1, 2))]
            if kind in ("take", "give", "select", "selectg") and r.random() < 0.3:
                # abandoned takers queued on this step's channel before the victim gets there
                st["prestale"] = [r.choice(["cancel", "select"]) for _ in range(r.randint(1, 3))]
            steps.append(st)
            t += 0 if end in ("cframe", "refused", "badarg") else dur
        p = {}
        if r.random() < 0.5:
            for k in ("eintr_r", "eagain_r", "eagain_w", "short_r", "epoll_eintr", "epoll_delay", "epoll_reorder", "clock_jump"):
                if r.random() < 0.4:
                    p[k] = r.choice([0.05, 0.2])
        knobs = {"seed": seed, "p": p, "pipe_size": 4096, "clock_phase_ns": r.choice([0, 0, 250000, 999999]),
                 "max_yields": 400000}
        if any(st["end"] == "tie" for st in steps):
            # simulated time advances a little with every scheduling point: the event loop's passes then see
            # different millisecond clocks, as on a real machine
            knobs["tick_ns"] = r.choice([0, 50000, 200000, 400000])
        plan = {"property": "C07", "knobs": knobs, "steps": steps, "adv": adv, "nest": 1 if r.random() < 0.35 else 0}
        if r.random() < 0.6:
            # bystander tasks: a sleeper spanning the whole plan, a taker served at the end, and a task whose own
            # deadline does expire - none of them may be touched by what happens to the victim, and vice versa
            plan["by"] = {"sleep": t + r.choice([0, 3, 7]), "take_at": t + r.choice([1, 4]), "dl": r.randint(3, max(4, t))}
        return plan

    # ---------------- rendering ----------------
    def render(self, plan):
        L = []
        A = L.append
        steps = plan["steps"]
        A("(def CH @{}) (def P @{}) (def PROC @{})")
        A("(var victim nil)")
        A("(defn cid [c] (or (first (seq [[k v] :pairs CH :when (= v c)] k)) :unknown))")
        A("(defn setup []")
        for st in steps:
            i = st["i"]
            if st["kind"] in ("take", "give", "select", "selectg", "gather"):
                mk = "ev/thread-chan" if st.get("tchan") else "ev/chan"
                A("  (put CH [%d 0] (%s 0)) (put CH [%d 1] (%s 0))" % (i, mk, i, mk))
            if st["kind"] == "accept":
                A("  (put P [%d :name] (string \"@jsim-c07-\" (os/getpid) \"-%d\")) (put P [%d :srv] (net/listen :unix (P [%d :name])))" % (i, i, i, i))
            if st["kind"] in ("read", "chunk", "write"):
                A("  (let [[r w] (os/pipe)] (put P [%d :r] r) (put P [%d :w] w))" % (i, i))
            if st["kind"] == "write":
                # fill the pipe exactly to its capacity so that the victim's write has to wait
                A("  (ev/write (P [%d :w]) (sim/fill %d 0 4096))" % (i, 50 + i))
        for st in steps:
            if st["end"] == "refused":
                A("  (ev/go (fn [] (protect (ev/read (P [%d :r]) 1)))) (ev/sleep 0)" % st["i"])
        for st in steps:
            for j, how in enumerate(st.get("prestale", [])):
                i = st["i"]
                if how == "cancel":
                    A("  (let [h (ev/go (fn [] (protect (ev/take (CH [%d 0])))))] (ev/sleep 0) (ev/cancel h \"helper\") (ev/sleep 0))" % i)
                else:
                    A("  (let [hc (ev/chan 0) h (ev/go (fn [] (protect (ev/select (CH [%d 0]) hc))))] (ev/sleep 0) (ev/give hc %d) (ev/sleep 0))" % (i, 900000 + j))
        A("  nil)")

        def op(st):
            i, k = st["i"], st["kind"]
            if k == "sleep":
                return "(ev/sleep %s)" % (st["ms"] / 1000.0)
            if k == "take":
                return "(ev/take (CH [%d 0]))" % i
            if k == "give":
                return "(if (ev/give (CH [%d 0]) %d) :gave :closed)" % (i, i * 1000 + 7)
            if k == "select":
                return "(let [r (ev/select (CH [%d 0]) (CH [%d 1]))] [(r 0) (cid (r 1)) (get r 2)])" % (i, i)
            if k == "selectg":
                return "(let [r (ev/select [(CH [%d 0]) %d] (CH [%d 1]))] [(r 0) (cid (r 1)) (get r 2)])" % (i, i * 1000 + 7, i)
            to = " @\"\" %s" % (st["timeout"] / 1000.0) if "timeout" in st else ""
            if st["end"] == "badarg":
                # invalid size, valid timeout: the call raises before it waits, and must not leave its timeout armed
                return "(ev/%s (P [%d :r]) %s%s)" % (k, i, r_bad(i), to)
            # (in a "refused" plan the fiber that occupies the stream may have consumed the first byte before a late
            # victim gets there: the victim's bytes then start at offset 1)
            mt = "(sim/match %d 0 b)" % (50 + i) if st["end"] != "refused" else "(max (sim/match %d 0 b) (sim/match %d 1 b))" % (50 + i, 50 + i)
            if k == "read":
                return "(let [b (ev/read (P [%d :r]) %d%s)] (if b [:bytes (length b) %s] :eof))" % (i, st["n"], to, mt)
            if k == "chunk":
                return "(let [b (ev/chunk (P [%d :r]) %d%s)] (if b [:bytes (length b) %s] :eof))" % (i, st["n"], to, mt)
            if k == "write":
                to2 = " %s" % (st["timeout"] / 1000.0) if "timeout" in st else ""
                return "(do (ev/write (P [%d :w]) (sim/fill %d 4096 100)%s) :wrote)" % (i, 50 + i, to2)
            if k == "proc":
                return "(let [p (os/spawn [\"sim-child\" \"s%d\" \"x%d\"] %s)] (put PROC %d p) [:exit (os/proc-wait p)])" % (
                    st["child_ms"], st["code"], ":px" if st.get("px") else ":p", i)
            if k == "gather":
                b1 = "(error \"sib-%d\")" % i if st["end"] == "other" else ":b"
                return "(ev/gather (ev/take (CH [%d 0])) (do (ev/sleep %s) %s))" % (i, st["sib_ms"] / 1000.0, b1)
            if k == "accept":
                to3 = " %s" % (st["timeout"] / 1000.0) if "timeout" in st else ""
                return "(let [c (net/accept (P [%d :srv])%s)] (:close c) :accepted)" % (i, to3)
            if k == "thread":
                return "(do (ev/thread (fn [&] (ev/sleep %s) (sim/ev :tdone %d))) :thread-returned)" % (st["thread_ms"] / 1000.0, i)
            raise ValueError(k)

        A("(defn vmain []")
        if plan.get("nest"):
            # the whole sequence of waits runs inside one coroutine that the task resumes (as under a long
            # ev/with-deadline): errors of abandoned waits are caught *inside* the coroutine, the task fiber
            # itself is not resumed between two waits
            A("  (ev/with-deadline 1000 (do")
        for st in steps:
            i = st["i"]
            body = op(st)
            if st["end"] == "cframe":
                inner = "(try %s ([e] (error e)))" % body if st.get("nested") else body
                body = "(do (var cv nil) (string/replace \"a\" (fn [x] (set cv %s) \"b\") \"xax\") cv)" % inner
            for wi, w in enumerate(st.get("wrap", [])):
                if w == "try":
                    body = "(try %s ([e] (error e)))" % body
                elif w == "defer":
                    body = "(defer (sim/ev :cleanup %d %d) %s)" % (i, wi, body)
                elif w == "dyns":
                    body = "(with-dyns [:c07-step %d] %s)" % (i, body)
                elif w == "coro":
                    body = "(let [cf (fiber/new (fn [] %s) :e) cr (resume cf)] (if (= (fiber/status cf) :error) (propagate cr cf) cr))" % body
                elif w == "label":
                    body = "(label wl%d-%d %s)" % (i, wi, body)
                elif w == "prompt":
                    body = "(prompt :wp%d-%d %s)" % (i, wi, body)
            if "deadline" in st and st.get("via_label"):
                body = "(label lbl%d (ev/with-deadline %s (return lbl%d %s)))" % (i, st["deadline"] / 1000.0, i, body)
            elif "deadline" in st and st.get("bare_dl"):
                body = "(resume (coro (ev/deadline %s) %s))" % (st["deadline"] / 1000.0, body)
            elif "deadline" in st:
                body = "(ev/with-deadline %s %s)" % (st["deadline"] / 1000.0, body)
            A("  (sim/ev :inv %d)" % i)
            A("  (let [[ok v] (protect %s)] (sim/ev :ret %d ok v))" % (body, i))
            if st["end"] == "tie" and st["kind"] == "read":
                # whatever the tie's outcome, the bytes the writer got rid of are either in the result or still there
                A("  (sim/ev :left %d (do (var tot 0) (forever (def [ok b] (protect (ev/read (P [%d :r]) 4096 @\"\" 0.05))) (if (and ok b (> (length b) 0)) (+= tot (length b)) (break))) tot))" % (i, i))
        if any(st.get("tchan") for st in steps):
            # (every adversary has acted by then)
            A("  (ev/sleep %s)" % ((max([a["t"] for a in plan["adv"]] + [0]) + 3) / 1000.0))
        for st in steps:
            if st.get("tchan"):
                # what is still queued on the thread channels at the end (items of gives that met a stale entry)
                for c in (0, 1):
                    A("  (forever (def [ok v] (protect (ev/with-deadline 0.02 (ev/take (CH [%d %d]))))) (if (and ok (not (nil? v))) (sim/ev :tleft %d %d v) (do (sim/ev :tdrained %d %d ok v) (break))))"
                      % (st["i"], c, st["i"], c, st["i"], c))
        if plan.get("nest"):
            A("  ))")
        A("  (sim/ev :vdone))")
        for j, a in enumerate(plan["adv"]):
            A("(defn adv%d []" % j)
            A("  (ev/sleep %s)" % (a["t"] / 1000.0))
            k = a["a"]
            if k == "cancel":
                A("  (sim/ev :cancel %d) (ev/cancel victim \"cancel-%d\")" % (a["k"], a["k"]))
            elif k == "give":
                A("  (sim/ev :ainv %d) (let [[ok v] (protect (ev/give (CH [%d %d]) %d))] (sim/ev :aret %d :give ok (if v :ok :nil)))"
                  % (j, a["ch"][0], a["ch"][1], a["v"], j))
            elif k == "take":
                A("  (sim/ev :ainv %d) (let [[ok v] (protect (ev/take (CH [%d %d])))] (sim/ev :aret %d :take ok v))"
                  % (j, a["ch"][0], a["ch"][1], j))
            elif k == "close" and a.get("xthread"):
                A("  (sim/ev :ainv %d) (let [c (CH [%d %d])] (ev/thread (fn [&] (ev/chan-close c)))) (sim/ev :aret %d :close true nil)" % (j, a["ch"][0], a["ch"][1], j))
            elif k == "close":
                A("  (sim/ev :ainv %d) (ev/chan-close (CH [%d %d])) (sim/ev :aret %d :close true nil)" % (j, a["ch"][0], a["ch"][1], j))
            elif k == "write":
                A("  (sim/ev :ainv %d) (let [[ok v] (protect (ev/write (P [%d :w]) (sim/fill %d 0 %d)))] (sim/ev :aret %d :write ok v))"
                  % (j, a["p"], 50 + a["p"], a["n"], j))
            elif k == "closew":
                A("  (sim/ev :ainv %d) (:close (P [%d :w])) (sim/ev :aret %d :closew true nil)" % (j, a["p"], j))
            elif k == "drain":
                A("  (sim/ev :ainv %d) (let [[ok v] (protect (ev/read (P [%d :r]) 4096))] (sim/ev :aret %d :drain ok (if (bytes? v) (length v) v)))"
                  % (j, a["p"], j))
            elif k == "connect":
                A("  (sim/ev :ainv %d) (let [[ok v] (protect (:close (net/connect :unix (P [%d :name]))))] (sim/ev :aret %d :connect ok nil))"
                  % (j, a["p"], j))
            A("  nil)")
        by = plan.get("by")
        extra = ""
        if by:
            A("(def BCH (ev/chan 0)) (def BCH2 (ev/chan 0))")
            A("(defn by0 [] (sim/ev :binv 0) (let [[ok v] (protect (ev/sleep %s))] (sim/ev :bret 0 ok v)))" % (by["sleep"] / 1000.0))
            A("(defn by1 [] (sim/ev :binv 1) (let [[ok v] (protect (ev/take BCH))] (sim/ev :bret 1 ok v)))")
            A("(defn by2 [] (sim/ev :binv 2) (let [[ok v] (protect (ev/with-deadline %s (ev/take BCH2)))] (sim/ev :bret 2 ok v)))" % (by["dl"] / 1000.0))
            A("(defn by3 [] (ev/sleep %s) (sim/ev :binv 3) (let [[ok v] (protect (ev/give BCH 424242))] (sim/ev :bret 3 ok (if v :ok :nil))))" % (by["take_at"] / 1000.0))
            extra = " (ev/go by0) (ev/go by1) (ev/go by2) (ev/go by3)"
        A("(ev/go (fn [] (setup)%s (set victim (ev/go vmain)) %s))" % (extra, " ".join("(ev/go adv%d)" % j for j in range(len(plan["adv"])))))
        return make_request(plan["knobs"], "\n".join(L))

    # ---------------- oracle ----------------
    @staticmethod
    def classify(payload):
        """id-free class of a resume value for signatures"""
        if payload.startswith('false "deadline expired"'):
            return "deadline-expired"
        if payload.startswith('false "timeout"'):
            return "timeout"
        if payload.startswith('false "cancel-'):
            return "cancel-payload"
        if payload.startswith("false"):
            return "error"
        v = payload[5:] if payload.startswith("true ") else payload
        if v == "nil":
            return "nil"
        if v.startswith("(:give") or v.startswith("(:take") or v.startswith("(:close"):
            return "select-result-tuple"
        if v.startswith("<core/channel"):
            return "channel"
        if v.lstrip("-").isdigit():
            return "channel-value"
        return "other"

    def check(self, plan, res):
        vs = []
        V = lambda sig, d="": vs.append(Violation(sig, d))
        if res.outcome not in ("ok", "deadlock"):
            return [Violation("C07/run/%s" % res.outcome.split(":")[0], (res.log or "")[-500:])]
        steps = {st["i"]: st for st in plan["steps"]}
        adv = plan["adv"]
        inv, ret = {}, {}
        cancels = []          # (seq)
        ainv, aret = {}, {}
        tdone = {}
        child_exit = []       # (seq, t, idx, status)
        for e in res.events:
            if e.kind == "inv":
                inv[int(e.payload)] = e
            elif e.kind == "ret":
                i, rest = e.payload.split(" ", 1)
                ret[int(i)] = (e, rest)
            elif e.kind == "cancel":
                cancels.append(e)
            elif e.kind == "ainv":
                ainv[int(e.payload)] = e
            elif e.kind == "aret":
                toks = e.payload.split(" ")
                aret[int(toks[0])] = (e, toks[1:])
            elif e.kind == "tdone":
                tdone[int(e.payload)] = e
            elif e.kind == "!child" and e.payload.startswith("exit "):
                toks = e.payload.split(" ")
                child_exit.append((e.seq, e.t, int(toks[1]), int(toks[2].split("=")[1])))
        procs = [st["i"] for st in plan["steps"] if st["kind"] == "proc"]

        used_completions = set()

        def stale_thread(i, e0, e1):
            """is there a completion of an earlier ev/thread call that was not consumed by its own wait
            (the victim left that wait by cancel/deadline, or was itself resumed too early) and that had
            happened by the time step i was resumed?  Each completion explains at most one bogus resume."""
            for k in sorted(steps):
                sk = steps[k]
                if k >= i or sk["kind"] != "thread" or k not in ret or k not in tdone or k in used_completions:
                    continue
                own = ret[k][1] == "true :thread-returned" and tdone[k].seq < ret[k][0].seq
                if not own and tdone[k].seq < e1.seq:
                    used_completions.add(k)
                    return True
            return False

        for i in sorted(steps):
            st = steps[i]
            if i not in inv or i not in ret:
                continue
            e0 = inv[i]
            e1, payload = ret[i]
            kind = st["kind"]
            cls = self.classify(payload)
            dt = e1.t - e0.t
            ok = None

            def during(seq):
                return e0.seq < seq < e1.seq
            # ---- outcomes that are legal for every kind of wait ----
            if cls == "cancel-payload":
                ok = any(during(c.seq) for c in cancels)
                why = "no ev/cancel was issued during this wait"
            elif cls == "deadline-expired" and plan.get("nest") and e1.t >= 999 * 1000000000:
                ok = True       # the long deadline around the whole nested sequence
            elif cls == "deadline-expired":
                ok = "deadline" in st and dt >= (st["deadline"] - 1) * 1000000
                why = "this wait has no deadline that could have expired" if "deadline" not in st else "deadline fired early"
            elif cls == "timeout":
                ok = "timeout" in st and dt >= (st["timeout"] - 1) * 1000000
                why = "this wait has no timeout" if "timeout" not in st else "timeout fired early"
            elif st["end"] == "refused" and cls == "error" and "already waiting" in payload:
                ok = True
            elif st["end"] == "badarg" and cls == "error":
                ok = True
            elif st["end"] == "cframe" and cls == "error" and ("coerced from await" in payload or
                                                                 ("channel inside janet_call" in payload and kind in ("take", "give", "select", "selectg"))):
                ok = True       # (channel operations refuse to start under a C frame: nothing is registered)
            # (a wait under a C frame that can complete without suspending - a giver already waiting, bytes already
            # in the pipe - simply completes: it is then judged like any other completion of its kind)
            elif kind == "sleep":
                if payload == "true nil":
                    need = st["ms"] * 1000000
                    if dt >= need:
                        ok = True
                    else:
                        early = need - dt
                        if stale_thread(i, e0, e1):
                            V("C07/stale-wake/completion-of-abandoned-ev-thread-call-resumes-current-wait",
                              "ev/sleep %d ms returned after %d ns, when the thread of an abandoned ev/thread wait finished" % (st["ms"], dt))
                            continue
                        V("C07/sleep/returned-early/%s" % ("lt-1ms" if early < 1000000 else "ge-1ms"),
                          "ev/sleep %d ms returned after %d ns" % (st["ms"], dt))
                        continue
                else:
                    ok, why = False, "a sleep can only return nil"
            elif kind == "take":
                if cls == "channel-value":
                    v = int(payload[5:])
                    ok = any(a["a"] == "give" and a["ch"] == [i, 0] and a["v"] == v and j in ainv and ainv[j].seq < e1.seq
                             for j, a in enumerate(adv))
                    why = "value %d was not given on this wait's channel" % v
                elif cls == "nil":
                    ok = any(a["a"] == "close" and a["ch"] == [i, 0] and j in ainv and ainv[j].seq < e1.seq for j, a in enumerate(adv))
                    why = "take returned nil although its channel was not closed"
                else:
                    ok, why = False, "take resumed with something that is not a channel value"
            elif kind == "give":
                if payload == "true :gave":
                    ok = any(a["a"] == "take" and a["ch"] == [i, 0] and j in ainv and ainv[j].seq < e1.seq for j, a in enumerate(adv))
                    why = "give on a full channel completed although nobody took from it"
                elif payload == "true :closed":
                    ok = False
                    why = "give returned nil although its channel was not closed"
                else:
                    ok, why = False, "give resumed with an unrelated value"
            elif kind in ("select", "selectg"):
                toks = payload.split(" ")
                if kind == "selectg" and payload.startswith("true (:give ("):
                    inner = payload[len("true (:give ("):]
                    ok = inner.startswith("%d 0)" % i) and any(a["a"] == "take" and a["ch"] == [i, 0] and j in ainv and ainv[j].seq < e1.seq
                                                                for j, a in enumerate(adv))
                    why = "select reported its give clause although nobody took from that channel"
                elif payload.startswith("true (:take ("):
                    # (:take (i c) v)
                    try:
                        inner = payload[len("true (:take ("):]
                        ci, cc = inner.split(")")[0].split(" ")
                        v = int(inner.split(")")[1].strip())
                        ok = int(ci) == i and any(a["a"] == "give" and a["ch"] == [i, int(cc)] and a["v"] == v and j in ainv
                                                  and ainv[j].seq < e1.seq for j, a in enumerate(adv))
                    except (ValueError, IndexError):
                        ok = False
                    why = "select result does not name a clause of this select with a value given on it"
                elif payload.startswith("true (:close ("):
                    try:
                        ci, cc = payload[len("true (:close ("):].split(")")[0].split(" ")
                        ok = int(ci) == i and any(a["a"] == "close" and a["ch"] == [i, int(cc)] and j in ainv and ainv[j].seq < e1.seq
                                                  for j, a in enumerate(adv))
                    except (ValueError, IndexError):
                        ok = False
                    why = "select reported a closed channel that nobody had closed"
                else:
                    ok, why = False, "select resumed with an unrelated value"
            elif kind in ("read", "chunk"):
                if payload.startswith("true (:bytes "):
                    n, m = (int(x) for x in payload[len("true (:bytes "):].rstrip(")").split(" "))
                    wrote = [a for j, a in enumerate(adv) if a["a"] == "write" and a["p"] == i and j in ainv and ainv[j].seq < e1.seq]
                    ok = n >= 1 and m == n and bool(wrote) and n <= sum(a["n"] for a in wrote)
                    why = "bytes returned that were not written to this wait's stream"
                elif payload == "true :eof":
                    ok = any(a["a"] == "closew" and a["p"] == i and j in ainv and ainv[j].seq < e1.seq for j, a in enumerate(adv))
                    why = "read returned end-of-stream although the write end is open"
                else:
                    ok, why = False, "read resumed with an unrelated value"
            elif kind == "write":
                if payload == "true :wrote":
                    ok = any(a["a"] == "drain" and a["p"] == i and j in ainv and ainv[j].seq < e1.seq for j, a in enumerate(adv))
                    why = "write to a full pipe completed although nobody read from it"
                else:
                    ok, why = False, "write resumed with an unrelated value"
            elif kind == "proc":
                if payload.startswith("true (:exit "):
                    cs = payload[len("true (:exit "):].rstrip(")")
                    code = int(cs) if cs.lstrip("-").isdigit() else None
                    idx = procs.index(i)
                    ex = [c for c in child_exit if c[2] == idx and c[0] < e1.seq]
                    ok = bool(ex) and code == st["code"] and not (st.get("px") and code != 0)
                    why = "proc-wait returned %r, child exited=%r expected code %d" % (code, bool(ex), st["code"])
                elif st.get("px") and st["code"] != 0 and payload == 'false "command failed with non-zero exit code %d"' % st["code"]:
                    idx = procs.index(i)
                    ok = any(c[2] == idx and c[0] < e1.seq for c in child_exit)
                    why = "proc-wait raised the child's exit status before the child had exited"
                else:
                    ok, why = False, "proc-wait resumed with an unrelated value"
            elif kind == "gather":
                if payload.startswith("true #0=@["):
                    toks = payload[len("true #0=@["):].rstrip("]").split(" ")
                    ok = (len(toks) == 2 and toks[1] == ":b" and toks[0].isdigit() and st["end"] != "other"
                          and dt >= (st["sib_ms"] - 1) * 1000000
                          and any(a["a"] == "give" and a["ch"] == [i, 0] and a["v"] == int(toks[0]) and j in ainv and ainv[j].seq < e1.seq
                                  for j, a in enumerate(adv)))
                    why = "ev/gather returned results its branches cannot have produced (yet)"
                elif payload == 'false "sib-%d"' % i:
                    ok = st["end"] == "other" and dt >= (st["sib_ms"] - 1) * 1000000
                    why = "ev/gather reported a sibling failure that has not happened"
                else:
                    ok, why = False, "ev/gather resumed with an unrelated value"
            elif kind == "accept":
                if payload == "true :accepted":
                    ok = any(a["a"] == "connect" and a["p"] == i and j in ainv and ainv[j].seq < e1.seq for j, a in enumerate(adv))
                    why = "net/accept returned a connection although nobody connected to this listener"
                else:
                    ok, why = False, "net/accept resumed with an unrelated value"
            elif kind == "thread":
                if payload == "true :thread-returned":
                    ok = i in tdone and tdone[i].seq < e1.seq
                    why = "ev/thread returned before the thread body had finished"
                else:
                    ok, why = False, "thread wait resumed with an unrelated value"
            if ok is False and stale_thread(i, e0, e1):
                V("C07/stale-wake/completion-of-abandoned-ev-thread-call-resumes-current-wait",
                  "step %d (%s) resumed with %s exactly when the thread of an earlier, abandoned ev/thread wait finished" % (i, kind, payload[:60]))
                continue
            if ok is False:
                # was an earlier wait abandoned? (then this is a stale wake-up rather than a plain wrong value)
                prev = [steps[k] for k in steps if k < i and steps[k]["end"] != "complete"]
                stale = "/after-abandoned=%s" % prev[-1]["kind"] if prev else ""
                V("C07/attribution/wait=%s/got=%s%s" % (kind, cls, stale), "step %d (%s) resumed with %s: %s" % (i, kind, payload[:80], why))
        # ---- conservation on channels the victim no longer waits on ----
        for j, a in enumerate(adv):
            if a["a"] != "give" or j not in aret:
                continue
            e, toks = aret[j]
            if toks[1] != "true" or toks[2] != ":ok":
                continue
            si = a["ch"][0]
            st = steps[si]
            if st.get("tchan"):
                continue
            # Only gives issued when the victim was no longer there count: after its wait had returned, or after
            # the ev/cancel that ended it had been issued. (A give that hands its item to a waiter which is cancelled
            # in the same instant, before it could run, loses the item by design: the waiter was still there.)
            if si not in inv:
                continue
            gone = ret[si][0].seq if si in ret else None
            for c in cancels:
                # (ev/gather's taker is a child task that is cancelled by the victim's cleanup, one loop turn after
                # the victim itself: it is still there until the gather has returned)
                if c.seq > inv[si].seq and (gone is None or c.seq < gone) and st["kind"] != "gather":
                    gone = c.seq
            if gone is None or j not in ainv or ainv[j].seq < gone:
                continue
            # the adversary's give on an unbuffered channel completed: somebody must have received the value
            got = False
            if si in ret:
                _, payload = ret[si]
                got = str(a["v"]) in payload.split(" ")[-1] or (" %d)" % a["v"]) in payload or payload == "true %d" % a["v"]
            if not got:
                V("C07/conservation/item-consumed-by-a-waiter-that-is-no-longer-there/wait=%s/end=%s" % (st["kind"], st["end"]),
                  "give of %d on channel %r completed but the victim's step %d returned %s" %
                  (a["v"], a["ch"], si, ret[si][1][:60] if si in ret else "<never>"))
        # ---- a value handed over in the very turn in which the wait's deadline fires is not dropped ----
        for i, st in steps.items():
            if st["end"] != "tie" or i not in ret or i not in inv:
                continue
            e1, payload = ret[i]
            if self.classify(payload) != "deadline-expired" or st.get("tchan"):
                continue
            for j, a in enumerate(adv):
                if a["a"] == "give" and a["ch"][0] == i and j in aret and aret[j][1][1] == "true" and aret[j][1][2] == ":ok" \
                        and ainv[j].seq < e1.seq:
                    V("C07/conservation/value-handed-over-in-the-turn-of-the-deadline-was-dropped/wait=%s" % st["kind"],
                      "give of %d on channel %r completed, the victim's step %d ended with 'deadline expired'" % (a["v"], a["ch"], i))
        # ---- thread channels: a give that completed put its item somewhere - into the victim's result or back into
        # the queue, once (a give that meets a stale entry completes at once; the entry's thread routes the item on)
        if ":vdone" in [":" + e.kind for e in res.events]:
            tleft = {}
            for e in res.events:
                if e.kind == "tleft":
                    a_, b_, c_ = e.payload.split(" ", 2)
                    tleft.setdefault(int(a_), []).append(int(c_) if c_.lstrip("-").isdigit() else c_)
            for j, a in enumerate(adv):
                if a["a"] != "give" or j not in aret or not steps[a["ch"][0]].get("tchan"):
                    continue
                e, toks = aret[j]
                if toks[1] != "true" or toks[2] != ":ok":
                    continue
                si = a["ch"][0]
                if any(b["a"] == "close" and b["ch"] == a["ch"] and k in ainv for k, b in enumerate(adv)):
                    continue        # (closing a channel discards what it holds)
                if steps[si]["end"] == "cframe" and si in inv and ainv[j].seq < inv[si].seq:
                    # the giver was already parked when the take under a C frame began: ev/take pops the item,
                    # schedules its own resumption and awaits - and that await is what the C boundary turns into
                    # an error. The item goes with it (not a stale waiter: the taker was there; see DESIGN 9)
                    continue
                n = tleft.get(si, []).count(a["v"])
                if si in ret:
                    payload = ret[si][1]
                    if payload.endswith(") %d)" % a["v"]) or payload == "true %d" % a["v"]:
                        n += 1
                if n != 1:
                    V("C07/conservation/thread-channel-item-%s/wait=%s/end=%s" % ("lost" if n == 0 else "duplicated", steps[si]["kind"], steps[si]["end"]),
                      "give of %d on thread channel %r completed; the victim's step returned %s and the channel still held %r"
                      % (a["v"], a["ch"], ret[si][1][:60] if si in ret else "<never>", tleft.get(si, [])))
        left = {}
        for e in res.events:
            if e.kind == "left":
                a_, b_ = e.payload.split(" ")
                left[int(a_)] = (e, int(b_))
        for i, st in steps.items():
            if st["end"] != "tie" or st["kind"] != "read" or i not in ret or i not in left:
                continue
            e1, payload = ret[i]
            got = int(payload[len("true (:bytes "):].split(" ")[0]) if payload.startswith("true (:bytes ") else 0
            for j, a in enumerate(adv):
                # (only a write that had completed before the wait ended can have been consumed by it)
                if a["a"] == "write" and a["p"] == i and j in aret and aret[j][1][1] == "true" and aret[j][0].seq < e1.seq:
                    if got + left[i][1] != a["n"]:
                        V("C07/conservation/bytes-read-in-the-turn-of-the-deadline-were-dropped",
                          "%d bytes written; the wait returned %s and %d bytes were still in the pipe afterwards" % (a["n"], payload[:40], left[i][1]))
        # ---- the victim must not be left suspended when its current wait's trigger has fired ----
        if ":vdone" not in [":" + e.kind for e in res.events]:
            pending = [i for i in inv if i not in ret]
            for i in pending:
                st = steps[i]
                fired = False
                if st["kind"] == "sleep":
                    fired = True
                elif st["kind"] == "take":
                    fired = any(a["a"] in ("give", "close") and a["ch"] == [i, 0] and j in ainv for j, a in enumerate(adv))
                elif st["kind"] in ("read", "chunk"):
                    fired = any(a["a"] in ("write", "closew") and a["p"] == i and j in aret and (a["a"] == "closew" or st["kind"] == "read" or a["n"] >= st["n"])
                                for j, a in enumerate(adv))
                elif st["kind"] == "proc":
                    fired = any(c[2] == procs.index(i) for c in child_exit)
                elif st["kind"] == "thread":
                    fired = i in tdone
                elif st["kind"] == "accept":
                    fired = any(a["a"] == "connect" and a["p"] == i and j in aret and aret[j][1][1] == "true" for j, a in enumerate(adv))
                elif st["kind"] == "gather":
                    fired = st["end"] == "other" or any(a["a"] == "give" and a["ch"] == [i, 0] and j in ainv for j, a in enumerate(adv))
                if fired:
                    V("C07/lost-resume/wait=%s" % st["kind"], "step %d never returned although its trigger fired" % i)
        # ---- a defer around a wait runs its cleanup exactly once, however the wait ended ----
        ncleanup = {}
        for e in res.events:
            if e.kind == "cleanup":
                ncleanup[e.payload] = ncleanup.get(e.payload, 0) + 1
        for i, st in steps.items():
            for wi, w in enumerate(st.get("wrap", [])):
                if w == "defer" and i in ret:
                    n = ncleanup.get("%d %d" % (i, wi), 0)
                    if n != 1:
                        V("C07/cleanup/defer-around-a-wait-ran-%s/end=%s" % ("twice" if n > 1 else "never", st["end"]),
                          "step %d (%s): cleanup ran %d times" % (i, st["kind"], n))
        # ---- bystander tasks are untouched by whatever happened to the victim ----
        by = plan.get("by")
        if by:
            binv, bret = {}, {}
            for e in res.events:
                if e.kind == "binv":
                    binv[int(e.payload)] = e
                elif e.kind == "bret":
                    k, rest = e.payload.split(" ", 1)
                    bret[int(k)] = (e, rest)
            if 0 in bret:
                e, rest = bret[0]
                d0 = e.t - binv[0].t
                if rest != "true nil":
                    V("C07/bystander/sleeper-resumed-with/%s" % self.classify(rest), "bystander ev/sleep returned %s" % rest[:80])
                elif d0 < by["sleep"] * 1000000 and not stale_thread(10 ** 9, binv[0], e):
                    V("C07/sleep/returned-early/%s" % ("lt-1ms" if by["sleep"] * 1000000 - d0 < 1000000 else "ge-1ms"),
                      "bystander ev/sleep %d ms returned after %d ns" % (by["sleep"], d0))
            elif res.outcome == "ok" or 0 in binv and res.events and res.events[-1].t - binv[0].t > (by["sleep"] + 2) * 1000000:
                V("C07/bystander/sleeper-never-returned", "bystander ev/sleep %d ms never returned" % by["sleep"])
            if 1 in bret:
                e, rest = bret[1]
                if not (rest == "true 424242" and 3 in binv and binv[3].seq < e.seq):
                    V("C07/bystander/taker-resumed-with/%s" % self.classify(rest), "bystander take returned %s" % rest[:80])
            elif 3 in binv:
                V("C07/bystander/taker-never-resumed", "bystander take was never served although its giver ran")
            if 2 in bret:
                e, rest = bret[2]
                d2 = e.t - binv[2].t
                if not (rest.startswith('false "deadline expired"') and d2 >= (by["dl"] - 1) * 1000000):
                    V("C07/bystander/own-deadline/%s" % self.classify(rest), "bystander with its own %d ms deadline returned %s after %d ns" % (by["dl"], rest[:60], d2))
            elif 2 in binv and res.events and res.events[-1].t - binv[2].t > (by["dl"] + 2) * 1000000:
                V("C07/bystander/own-deadline-never-fired", "bystander's %d ms deadline never cancelled its take" % by["dl"])
            if 3 in bret and bret[3][1] != "true :ok":
                V("C07/bystander/giver-resumed-with/%s" % self.classify(bret[3][1]), "bystander give returned %s" % bret[3][1][:80])
        seen, out = set(), []
        for v in vs:
            if v.sig not in seen:
                seen.add(v.sig)
                out.append(v)
        return out

    # ---------------- evidence ----------------
    def extra(self, plan, res):
        ret = {}
        for e in res.events:
            if e.kind == "ret":
                i, rest = e.payload.split(" ", 1)
                ret[int(i)] = (e.seq, rest)
        ainv = {int(e.payload): e.seq for e in res.events if e.kind == "ainv"}
        stale = 0
        for st in plan["steps"]:
            i = st["i"]
            if st["end"] != "complete" and i in ret:
                # a trigger for this step's resource invoked after the step had returned
                for j, a in enumerate(plan["adv"]):
                    tgt = a.get("ch", [None])[0] if "ch" in a else a.get("p")
                    if tgt == i and j in ainv and ainv[j] > ret[i][0]:
                        stale += 1
                        break
                if st["kind"] in ("sleep", "proc", "thread"):
                    stale += 1
        cls = [self.classify(p) for _, p in ret.values()]
        return {"stale": stale, "cancel": cls.count("cancel-payload"), "deadline": cls.count("deadline-expired"),
                "timeout": cls.count("timeout"), "kinds": [s["kind"] + "/" + s["end"] for s in plan["steps"][:-1]]}

    def nontrivial(self, plan, res):
        return any(st["end"] != "complete" for st in plan["steps"])

    def aggregate(self, extras):
        ex = [x for x in extras if x]
        pairs = {}
        for x in ex:
            for a, b in zip(x["kinds"], x["kinds"][1:] + ["sleep/complete"]):
                if not a.endswith("/complete"):
                    key = "%s -> %s" % (a, b.split("/")[0])
                    pairs[key] = pairs.get(key, 0) + 1
        return {"probes": {"abandoned_then_stale_trigger": sum(x["stale"] for x in ex),
                           "cancel_landed_in_wait": sum(x["cancel"] for x in ex),
                           "deadline_fired": sum(x["deadline"] for x in ex), "timeout_fired": sum(x["timeout"] for x in ex)},
                "abandoned_A_then_B_pairs_covered": len(pairs), "abandoned_A_then_B_pairs": pairs}

    # ---------------- shrinking ----------------
    def shrink(self, plan):
        cp = lambda: json.loads(json.dumps(plan))
        for j in range(len(plan["adv"])):
            q = cp()
            del q["adv"][j]
            yield q
        # drop a victim step (renumbering would change resources: replace it by a zero sleep instead)
        for k, st in enumerate(plan["steps"]):
            if not (st["kind"] == "sleep" and st.get("ms") == 0):
                q = cp()
                q["steps"][k] = {"i": st["i"], "kind": "sleep", "end": "complete", "dur": 0, "ms": 0}
                q["adv"] = [a for a in q["adv"] if not ((a.get("ch") or [None])[0] == st["i"] or a.get("p") == st["i"])]
                yield q
        if plan["knobs"].get("p") and not plan["knobs"].get("explicit"):
            q = cp()
            q["knobs"]["p"] = {}
            yield q
        if plan["knobs"].get("clock_phase_ns"):
            q = cp()
            q["knobs"]["clock_phase_ns"] = 0
            yield q
        if plan.get("nest"):
            q = cp()
            q["nest"] = 0
            yield q
        if plan.get("by"):
            q = cp()
            del q["by"]
            yield q
        for k, st in enumerate(plan["steps"]):
            if st.get("wrap"):
                q = cp()
                q["steps"][k]["wrap"] = st["wrap"][1:]
                if not q["steps"][k]["wrap"]:
                    del q["steps"][k]["wrap"]
                yield q
        for k, st in enumerate(plan["steps"]):
            if st.get("prestale"):
                q = cp()
                del q["steps"][k]["prestale"]
                yield q
            if st.get("via_label"):
                q = cp()
                del q["steps"][k]["via_label"]
                yield q
            for flag in ("tchan", "bare_dl", "px"):
                if st.get(flag):
                    q = cp()
                    del q["steps"][k][flag]
                    yield q
        for k, st in enumerate(plan["steps"]):
            if st.get("late"):
                q = cp()
                del q["steps"][k]["late"], q["steps"][k]["deadline"]
                yield q


DRIVER = C07
