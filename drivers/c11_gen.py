"""Workload generators for C11: (i) JDN-printable values as Janet constructor expressions,
(ii) token-level grammar output with exact spans of the places a split is interesting,
(iii) random bytes.  Everything draws from the random.Random passed in."""

SYMCHARS = b"!$%&*+-./0123456789:<=>?@ABCDEFGHIJKLMNOPQRSTUVWXYZ^_abcdefghijklmnopqrstuvwxyz"
SYMSTART = b"!$%&*+-./:<=>?@ABCDEFGHIJKLMNOPQRSTUVWXYZ^_abcdefghijklmnopqrstuvwxyz"
LETTERS = b"abcdefghijklmnopqrstuvwxyzABCDEFGHIJKLMNOPQRSTUVWXYZ"
UTF8 = ["\u00e9", "\u03bb", "\u4e2d", "\u20ac", "\U0001f600", "\u00ff", "\u0800", "\U00010000"]
BAD_UTF8 = [b"\xff", b"\xc0\xaf", b"\xe0\x80\x80", b"\xc3", b"\xe2\x82", b"\xf8\x88\x80\x80\x80", b"\x80",
            b"\xf0\x80\x80\x80", b"\xc1\xbf", b"\xed\xa0\x80", b"\xf4\x90\x80\x80"]
SIMPLE_ESC = ["n", "t", "r", "0", "z", "f", "v", "a", "b", "'", "?", "e", '"', "\\"]
NUMBERS = ["0", "1", "-1", "+7", "42", "3.14", "-0.5", ".5", "1.", "1e3", "1E-3", "-1e+10", "1e308", "1e309",
           "1e-320", "5e-324", "0x1F", "0xff_ff", "-0x10", "1_000_000", "2r1011", "36rZz", "8r777", "-0", "0.1",
           "1.7976931348623157e308", "9007199254740993", "123456789012345678901234567890", "0.30000000000000004",
           "12:s", "12:u", "-5:s", "0xFFFFFFFFFFFFFFFF:u", "18446744073709551615:u", "-9223372036854775808:s",
           "1e2:s", "16r1f&2", "1&3", "0x1p4", "4.5e-3", "+.5e1", "1__0", "1_", "-.0"]
BAD_NUMBERS = ["1r0", "37r1", "1:x", "1e", "1.2.3", "0x", "1/2", "99999999999999999999:s", "-1:u", "0xg",
               "1e400x", "9abc", "2r102", "1e+", "0x_", "1:", "1:ss", "0b1"]
NUMLIKE = ["--1", "+-1", "-", "+", ".", "-.", "+e", "-x", "..", "-e5", "+_1", ".e1"]
WS = [" ", " ", " ", "\n", "\n", "\r\n", "\r\n", "\r", "\t", "  ", "\n  ", "\r\n\t", "\0", "\v", "\f", "\n\n", " \r\n "]


class Text:
    """byte text + exact spans (kind, start, end): a cut c with start < c < end falls inside"""

    def __init__(self):
        self.b = bytearray()
        self.spans = []

    def emit(self, bs, kind=None):
        if isinstance(bs, str):
            bs = bs.encode("utf-8")
        s = len(self.b)
        self.b += bs
        if kind and len(bs) >= 2:
            self.spans.append([kind, s, len(self.b)])

    def ws(self, r):
        w = r.choice(WS)
        s = len(self.b)
        self.b += w.encode()
        i = w.find("\r\n")
        if i >= 0:
            self.spans.append(["crlf", s + i, s + i + 2])


class Grammar:
    def __init__(self, r, errors):
        self.r = r
        self.errors = errors      # probability of a deliberate error per opportunity
        self.t = Text()
        self.budget = r.choice([3, 6, 12, 25, 50, 100, 200])

    def err(self):
        return self.r.random() < self.errors

    # ---- atoms ----
    def symbol_bytes(self):
        r = self.r
        n = r.choice([1, 1, 2, 3, 5, 8, 13, 30])
        out = bytearray([r.choice(SYMSTART)])
        for _ in range(n - 1):
            out.append(r.choice(SYMCHARS))
        if out[0:1] in (b":",):
            out[0:1] = b"a"
        return out

    def atom_symbol(self, prefix=b""):
        r, t = self.r, self.t
        u = r.random()
        if u < 0.12:
            # utf-8 inside the token
            s = len(t.b)
            t.emit(prefix + bytes(self.symbol_bytes()[:3]))
            for _ in range(r.randint(1, 3)):
                t.emit(r.choice(UTF8), "utf8")
            t.emit(bytes(self.symbol_bytes()[:2]))
            t.spans.append(["tok", s, len(t.b)])
        elif u < 0.12 + 0.5 * self.errors:
            s = len(t.b)
            t.emit(prefix + b"s")
            t.emit(r.choice(BAD_UTF8), "utf8")
            t.emit(b"x" * r.randint(0, 2))
            t.spans.append(["tok", s, len(t.b)])
        elif u < 0.2 + 0.5 * self.errors:
            t.emit(prefix + r.choice(NUMLIKE).encode(), "tok")
        else:
            t.emit(prefix + bytes(self.symbol_bytes()), "tok")

    def atom_number(self):
        r, t = self.r, self.t
        u = r.random()
        if self.err():
            t.emit(r.choice(BAD_NUMBERS), "tok")
        elif u < 0.5:
            t.emit(r.choice(NUMBERS), "tok")
        elif u < 0.7:
            t.emit(str(r.randint(-10 ** r.randint(1, 18), 10 ** r.randint(1, 18))), "tok")
        elif u < 0.9:
            t.emit(repr(r.uniform(-1, 1) * 10 ** r.randint(-30, 30)), "tok")
        else:
            t.emit("%s%d.%de%s%d" % (r.choice(["", "-", "+"]), r.randint(0, 999), r.randint(0, 99999),
                                    r.choice(["", "-", "+"]), r.randint(0, 320)), "tok")

    def atom_const(self):
        self.t.emit(self.r.choice(["nil", "true", "false", "nil", "true", "false", "nill", "tru", "falsey", "NIL", "ni"]), "tok")

    def string_body(self, quote=True):
        r, t = self.r, self.t
        for _ in range(r.choice([0, 1, 2, 3, 5, 9, 20])):
            u = r.random()
            if u < 0.35:
                t.emit(bytes(r.choice(LETTERS + b" 0123456789()[]{}#;,'~|@`") for _ in range(r.randint(1, 6))))
            elif u < 0.55:
                t.emit("\\" + r.choice(SIMPLE_ESC), "esc")
            elif u < 0.65:
                t.emit("\\x%02x" % r.randrange(256) if r.random() < 0.5 else "\\x%02X" % r.randrange(256), "esc")
            elif u < 0.72:
                t.emit("\\u%04x" % r.choice([0, 0x41, 0x7f, 0x80, 0x7ff, 0x800, 0xffff, 0xd800, r.randrange(0x10000)]), "esc")
            elif u < 0.79:
                t.emit("\\U%06x" % r.choice([0, 0x41, 0x10000, 0x10ffff, 0xffff, r.randrange(0x110000)]), "esc")
            elif u < 0.84:
                t.emit(r.choice(UTF8), "utf8")
            elif u < 0.90:
                # raw line ends and control bytes inside a string
                w = r.choice(["\n", "\r\n", "\r", "\t", "\0", "\x7f", "\x01"])
                s = len(t.b)
                t.emit(w)
                if w == "\r\n":
                    t.spans.append(["crlf", s, s + 2])
            elif u < 0.93:
                t.emit(bytes([r.randrange(128, 256)]))
            elif self.err():
                t.emit(r.choice(["\\q", "\\xZ1", "\\x1", "\\u12G4", "\\U110000", "\\UFFFFFF", "\\u00", "\\ ", "\\\n", "\\\r\n",
                                 "\\x\"", "\\u{41}", "\\N"]), "esc")

    def atom_string(self, prefix=""):
        t = self.t
        s = len(t.b)
        t.emit(prefix + '"')
        self.string_body()
        if not (self.err() and self.r.random() < 0.1):
            t.emit('"')
        t.spans.append(["str", s, len(t.b)])

    def atom_longstring(self, prefix=""):
        r, t = self.r, self.t
        k = r.choice([1, 1, 2, 2, 3, 4, 7])
        if r.random() < 0.4:
            t.emit(" " * r.randint(1, 6))      # opening column matters for indentation stripping
        s = len(t.b)
        t.emit(prefix + "`" * k, "lsd")
        indent = " " * r.choice([0, 1, 2, 4, len(t.b) - s + r.randint(0, 3)])
        # an empty body would read as a longer opening delimiter: always start with a plain byte
        t.emit(r.choice(["a", " ", "\n", "\r\n", "x y", "\\", "\""]))
        for _ in range(r.choice([0, 1, 2, 4, 8])):
            u = r.random()
            if u < 0.35:
                t.emit(bytes(r.choice(LETTERS + b' "\\#()[]') for _ in range(r.randint(1, 8))))
            elif u < 0.65:
                nl = r.choice(["\n", "\n", "\r\n", "\r"])
                p = len(t.b)
                t.emit(nl)
                if nl == "\r\n":
                    t.spans.append(["crlf", p, p + 2])
                t.emit(indent if r.random() < 0.7 else " " * r.randint(0, 8))
            elif u < 0.85 and k > 1:
                t.emit("`" * r.randint(1, k - 1), "lsd")     # shorter run: stays inside
                t.emit("x")
            elif u < 0.9:
                t.emit(r.choice(UTF8), "utf8")
            elif self.err():
                t.emit("`" * (k + r.randint(0, 2)), "lsd")    # ends the string early
        if not (self.err() and r.random() < 0.1):
            t.emit("`" * k, "lsd")
        t.spans.append(["str", s, len(t.b)])

    def comment(self):
        r, t = self.r, self.t
        t.emit("#")
        t.emit(bytes(r.choice(LETTERS + b' "\\`()[]{}@#\r\t') for _ in range(r.randint(0, 12))))
        if r.random() < 0.9:
            nl = r.choice(["\n", "\r\n"])
            p = len(t.b)
            t.emit(nl)
            if nl == "\r\n":
                t.spans.append(["crlf", p, p + 2])

    def container(self, depth):
        r, t = self.r, self.t
        op, cl = r.choice([("(", ")"), ("[", "]"), ("{", "}"), ("@(", ")"), ("@[", "]"), ("@{", "}"), ("(", ")"), ("[", "]")])
        t.emit(op, "at")
        n = r.choice([0, 1, 2, 2, 3, 4, 6])
        if "{" in op:
            n = n // 2 * 2
            if self.err():
                n += 1
        for i in range(n):
            if i or r.random() < 0.2:
                t.ws(r)
            if "{" in op and i % 2 == 0 and r.random() < 0.8:
                # immutable keys keep dictionary entries distinguishable
                r.choice([lambda: self.atom_symbol(b":"), self.atom_number, self.atom_string, self.atom_symbol])()
            else:
                self.form(depth + 1)
        if r.random() < 0.15:
            t.ws(r)
        if self.err():
            u = r.random()
            if u < 0.15:
                return                       # never closed
            t.emit(r.choice([")", "]", "}"]))  # maybe the wrong one
            if u > 0.8:
                t.emit(r.choice([")", "]", "}"]))
            return
        t.emit(cl)

    def form(self, depth):
        r, t = self.r, self.t
        self.budget -= 1
        u = r.random()
        if depth > 0 and r.random() < 0.08:
            self.comment()
        if u < 0.12 and self.budget > 0:
            s = len(t.b)
            t.emit(r.choice(["'", ",", ";", "~", "|"]))
            if r.random() < 0.2:
                t.ws(r)
            if not (self.err() and r.random() < 0.3):
                self.form(depth + 1)
            t.spans.append(["rm", s, min(len(t.b), s + 3)])
        elif u < 0.40 and self.budget > 0 and depth < 40:
            self.container(depth)
        elif u < 0.52:
            self.atom_string()
        elif u < 0.57:
            self.atom_string("@")
        elif u < 0.65:
            self.atom_longstring()
        elif u < 0.68:
            self.atom_longstring("@")
        elif u < 0.80:
            self.atom_number()
        elif u < 0.85:
            self.atom_const()
        elif u < 0.90:
            self.atom_symbol(b":")
        elif u < 0.92:
            self.t.emit("@" + r.choice(["a", "1", "@", ":k", ""]), "tok")
        elif self.err() and u < 0.94:
            t.emit(r.choice(["\\", "\x7f", "\x01", ")", "]", "}", "\\x41"]))
        else:
            self.atom_symbol()

    def top(self):
        r, t = self.r, self.t
        if r.random() < 0.3:
            t.ws(r)
        while self.budget > 0 and len(t.b) < 1000:
            self.form(0)
            if r.random() < 0.92:
                t.ws(r)
            if r.random() < 0.1:
                self.comment()
        return t


def mutate(r, text, spans):
    """a few byte-level edits; spans that end before the first edit stay exact"""
    b = bytearray(text)
    first = len(b)
    for _ in range(r.choice([1, 1, 2, 3])):
        if not b:
            break
        i = r.randrange(len(b))
        first = min(first, i)
        u = r.random()
        if u < 0.3:
            del b[i]
        elif u < 0.6:
            b.insert(i, r.choice(b'()[]{}"`\\@#\r\n \x00\xff;\'~|,:-1e.'))
        elif u < 0.8:
            b[i] = r.choice(b'()[]{}"`\\@#\r\n \x00\xff;\'~|,:-1e.')
        elif u < 0.9:
            del b[i:]
        else:
            j = r.randrange(len(b))
            lo, hi = min(i, j), max(i, j)
            b[lo:lo] = b[lo:hi][:40]
    return bytes(b), [s for s in spans if s[2] <= first]


def gen_grammar(r):
    errors = r.choice([0.0, 0.0, 0.02, 0.05, 0.15])
    t = Grammar(r, errors).top()
    text, spans = bytes(t.b), t.spans
    if r.random() < (0.1 if errors == 0 else 0.3):
        text, spans = mutate(r, text, spans)
    return text[:2048], [s for s in spans if s[2] <= 2048]


INTERESTING = b'()[]{}"`\\@#\r\n \t\x00\xff;\'~|,:-+.0123456789abcdefxuUnrtez_&rsu\xc3\xa9\xe2\x82\xac\xf0\x9f\x98\x80'


def gen_random(r):
    n = r.choice([1, 2, 3, 5, 8, 16, 40, 100, 300])
    mode = r.random()
    if mode < 0.3:
        return bytes(r.randrange(256) for _ in range(n))
    if mode < 0.5:
        return bytes(r.choice(b'`"\\\r\n a(') for _ in range(n))
    return bytes(r.choice(INTERESTING) if r.random() < 0.9 else r.randrange(256) for _ in range(n))


def scan_spans(text):
    """context-free guesses of interesting split points (bias only, not used for probes)"""
    out = []
    i, n = 0, len(text)
    while i < n:
        c = text[i]
        if c == 13 and i + 1 < n and text[i + 1] == 10:
            out.append(["crlf", i, i + 2])
            i += 2
        elif c == 96:
            j = i
            while j < n and text[j] == 96:
                j += 1
            if j - i >= 2:
                out.append(["lsd", i, j])
            i = j
        elif c == 92 and i + 1 < n:
            k = {120: 4, 117: 6, 85: 8}.get(text[i + 1], 2)
            out.append(["esc", i, min(n, i + k)])
            i += 2
        elif c >= 0xC0:
            j = i + 1
            while j < n and 0x80 <= text[j] < 0xC0 and j - i < 4:
                j += 1
            if j - i >= 2:
                out.append(["utf8", i, j])
            i = j
        elif c in SYMCHARS:
            j = i
            while j < n and text[j] in SYMCHARS:
                j += 1
            if j - i >= 2:
                out.append(["tok", i, j])
            i = j
        else:
            i += 1
    return out


# ---------------------------------------------------------------------------
# (i) values printable (or deliberately not) in Janet data notation, as Janet expressions that
# build them at run time without going through string/number syntax more than necessary

TRICKY_SYMBOLS = ["", "nil", "true", "false", "-1", "+1", ".5", "-.5e3", "-0x10", ":a", ":", "+1_0", "-2r11", "-1:s"]


def from_bytes(bs):
    if not bs:
        return '""'
    return "(string/from-bytes %s)" % " ".join(str(x) for x in bs)


def rand_bytes(r):
    n = r.choice([0, 1, 1, 2, 3, 5, 8, 20, 60])
    mode = r.random()
    out = bytearray()
    for _ in range(n):
        if mode < 0.4:
            out.append(r.choice(b"abcdefghijklmnopqrstuvwxyz0123456789 -_"))
        elif mode < 0.7:
            out.append(r.choice(b'ab"\\\n\r\t\x00\x7f\x1b\x07\x08\x0b\x0c\x01\x1f\x80\xff\xc3\xa9`@#\'?'))
        else:
            out.append(r.randrange(256))
    return bytes(out)


class Values:
    def __init__(self, r):
        self.r = r
        self.tricky = False
        self.unprintable = False

    def number(self, finite=False):
        r = self.r
        u = r.random() * (0.95 if finite else 1.0)
        if u < 0.25:
            return str(r.choice([0, 1, -1, 2, 10, 255, 65535, 2 ** 31 - 1, -2 ** 31, 2 ** 53, -2 ** 53 + 1, r.randint(-10 ** 6, 10 ** 6)]))
        if u < 0.4:
            return r.choice(["0.1", "0.2", "0.30000000000000004", "1e21", "1e22", "1e23", "1e-7", "5e-324", "2.2250738585072014e-308",
                             "1.7976931348623157e308", "-0", "123456789.12345678", "4.35", "0.000001", "1e15", "1e16", "1e17",
                             "9007199254740993", "1.5", "3.141592653589793", "2.718281828459045", "1e100", "-1e-100"])
        if u < 0.9:
            # exact double from a 53-bit mantissa and a binary exponent
            m = r.getrandbits(53) | (1 << 52 if r.random() < 0.8 else 0)
            if r.random() < 0.2:
                m = r.choice([1, 3, (1 << 53) - 1, 1 << 52, (1 << 52) + 1])
            e = r.choice([r.randint(-1074, 971), r.randint(-80, 20), -52, -53, -1074, 971])
            return "(math/ldexp %s%d %d)" % (r.choice(["", "-"]), m, e)
        if u < 0.95:
            return "(/ %d %d)" % (r.randint(-1000, 1000), r.randint(1, 1000))
        self.unprintable = True
        return r.choice(["(math/log -1)", "(/ 1 (math/abs 0))", "(/ -1 (math/abs 0))"])

    def symbol(self):
        r = self.r
        u = r.random()
        if u < 0.08:
            self.tricky = True
            return "(symbol %s)" % from_bytes(r.choice(TRICKY_SYMBOLS).encode())
        if u < 0.14:
            self.unprintable = True
            return "(symbol %s)" % from_bytes(r.choice([b"a b", b"1abc", b"a(b", b"\xff", b"a\xc3", b"x\"y", b"a\nb", b"#c"]))
        if u < 0.25:
            return "(symbol %s)" % from_bytes((r.choice(["a", "x-", "<"]) + r.choice(UTF8) + r.choice(["", "b"])).encode())
        n = r.choice([1, 2, 3, 6, 12])
        bs = bytes([r.choice(LETTERS)] + [r.choice(SYMCHARS) for _ in range(n - 1)])
        return "(symbol %s)" % from_bytes(bs)

    def keyword(self):
        r = self.r
        u = r.random()
        if u < 0.1:
            return "(keyword %s)" % from_bytes(r.choice([b"", b"1", b"nil", b"-1", b":", b"a:b", b"@"]))
        if u < 0.15:
            self.unprintable = True
            return "(keyword %s)" % from_bytes(r.choice([b"a b", b"\xff", b"a)", b"\x00"]))
        if u < 0.25:
            return "(keyword %s)" % from_bytes((r.choice(["", "k"]) + r.choice(UTF8)).encode())
        n = r.choice([1, 2, 3, 6, 12])
        return "(keyword %s)" % from_bytes(bytes(r.choice(SYMCHARS) for _ in range(n)))

    def leaf(self):
        r = self.r
        u = r.random()
        if u < 0.3:
            return self.number()
        if u < 0.5:
            return from_bytes(rand_bytes(r))
        if u < 0.6:
            return "(buffer %s)" % from_bytes(rand_bytes(r))
        if u < 0.72:
            return self.symbol()
        if u < 0.87:
            return self.keyword()
        return r.choice(["nil", "true", "false"])

    def key(self, depth):
        r = self.r
        u = r.random()
        if u < 0.4:
            return self.keyword()
        if u < 0.55:
            return from_bytes(rand_bytes(r))
        if u < 0.7:
            return self.number(True)
        if u < 0.8:
            return self.symbol()
        if u < 0.9 and depth < 4:
            return "(tuple %s)" % " ".join(self.key(depth + 1) for _ in range(r.randint(0, 3)))
        return r.choice(["true", "false"])

    def value(self, depth):
        r = self.r
        if depth >= r.choice([1, 2, 3, 5]) or r.random() < 0.35:
            return self.leaf()
        n = r.choice([0, 1, 2, 3, 5])
        u = r.random()
        if u < 0.25:
            return "(tuple %s)" % " ".join(self.value(depth + 1) for _ in range(n))
        if u < 0.4:
            return "(tuple/brackets %s)" % " ".join(self.value(depth + 1) for _ in range(n))
        if u < 0.6:
            return "(array %s)" % " ".join(self.value(depth + 1) for _ in range(n))
        kv = " ".join("%s %s" % (self.key(depth + 1), self.value(depth + 1)) for _ in range(n))
        if u < 0.8:
            return "(struct %s)" % kv
        return "(table %s)" % kv


def gen_values(r):
    g = Values(r)
    n = r.choice([1, 1, 2, 3, 5])
    exprs = [g.value(0) for _ in range(n)]
    seps = [r.choice([" ", "\n", "\r\n", "  ", "\t", "\n\n", " # c\n", "\r"]) for _ in range(r.randint(1, 3))]
    return exprs, seps, g.tricky, g.unprintable


# ---------------------------------------------------------------------------
# shrinking of value expressions (plain s-expressions: atoms never contain spaces or parens)
import re


def parse_expr(src):
    toks = re.findall(r"\(|\)|[^\s()]+", src)
    pos = [0]

    def rd():
        t = toks[pos[0]]
        pos[0] += 1
        if t == "(":
            out = []
            while toks[pos[0]] != ")":
                out.append(rd())
            pos[0] += 1
            return out
        return t
    return rd()


def unparse_expr(t):
    return t if isinstance(t, str) else "(" + " ".join(unparse_expr(x) for x in t) + ")"


def shrink_expr(t):
    """yield smaller variants of the expression tree t, larger reductions first"""
    if isinstance(t, str) or not t:
        return
    h, args = t[0], t[1:]
    if h in ("tuple", "tuple/brackets", "array"):
        for a in args:
            yield a
        for i in range(len(args)):
            yield [h] + args[:i] + args[i + 1:]
    elif h in ("struct", "table"):
        for a in args:
            yield a
        for i in range(0, len(args) - 1, 2):
            yield [h] + args[:i] + args[i + 2:]
    elif h == "string/from-bytes":
        n = len(args)
        if n > 1:
            yield [h] + args[:n // 2]
            yield [h] + args[n // 2:]
            if n <= 10:
                for i in range(n):
                    yield [h] + args[:i] + args[i + 1:]
        elif n == 1 and args[0] != "97":
            yield [h, "97"]
        return
    elif h == "math/ldexp":
        return
    for i, a in enumerate(args):
        for v in shrink_expr(a):
            yield [h] + args[:i] + [v] + args[i + 1:]


def tricky_symbol_text(bs):
    t = bs.decode("latin-1")
    return t in TRICKY_SYMBOLS or t == "" or t[0] == ":" or re.match(r"^[-+]?\.?\d", t) is not None


def exprs_tricky(exprs):
    """does any expression build a symbol whose text reads back as another kind of token"""
    def walk(t):
        if isinstance(t, str):
            return False
        if t and t[0] == "symbol" and len(t) == 2:
            a = t[1]
            bs = b"" if isinstance(a, str) else bytes(int(x) for x in a[1:])
            if tricky_symbol_text(bs):
                return True
        return any(walk(x) for x in t[1:])
    return any(walk(parse_expr(e)) for e in exprs)
