"""Janet side of the C18 driver.

ENTRY is defined at the top level of the request (so it lives in the core environment of the
main VM and is marshalled into threads); PRELUDE is evaluated by it, in a fresh child
environment, once in every VM (the main one and every thread the plan starts).  The prelude
enumerates the bindings of root-env at run time, builds the argument generators and runs the
plan's segments.  Nothing here knows the names of the core functions except the short
denylist / override tables that the Python driver passes in (and prints in the evidence)."""

ENTRY = r'''
(defn c18-entry [arg]
  (def src (in arg 0))
  (def st (in arg 1))
  (def tc (get arg 2))
  (def env (make-env))
  (put env 'c18-st @{:value st})
  (put env 'c18-src @{:value src})
  (put env 'c18-entry @{:value c18-entry})
  (fiber/setenv (fiber/current) (table/setproto @{} env))
  (try
    (do (eval-string src env) ((get-in env ['c18-go :value])))
    ([e f] (sim/ev :c18-error (in st :depth) (string/format "%.300q" e))))
  (if tc (ev/give tc :done))
  nil)
'''

PRELUDE = r'''
(def M "/nonexistent-sim-marker")
(def cfg (in c18-st :cfg))
(def depth (in c18-st :depth))
(def main? (= depth 0))
(defn flags [] (in (sim/stats) :sandbox))
(defn pick [r xs] (in xs (math/rng-int r (length xs))))
(defn chance [r p] (< (math/rng-uniform r) p))

# ---------------------------------------------------------------- bindings (run-time enumeration)
(def deny (tabseq [n :in (in cfg :deny)] n true))
(def maxargs (in cfg :maxargs))
(def hot-prefixes (in cfg :hot-prefixes))
(def hot-names (tabseq [n :in (in cfg :hot-names)] n true))
(def names @[])
(def hot @[])
(def fn-of @{})
(def doc-of @{})
(each s (sort (keys root-env))
  (when (symbol? s)
    (def e (in root-env s))
    (when (table? e)
      (def v (if (get e :ref) (get (get e :ref) 0) (get e :value)))
      (when (or (function? v) (cfunction? v))
        (def n (string s))
        (unless (or (string/has-prefix? "sim/" n) (string/has-prefix? "c18-" n))
          (array/push names n)
          (put fn-of n v)
          (put doc-of n (get e :doc))
          (if (or (in hot-names n) (some |(string/has-prefix? $ n) hot-prefixes))
            (array/push hot n)))))))

# ---------------------------------------------------------------- resources opened BEFORE the monitor / sandbox
(def res @{})
(defn- quiet [f] (try (f) ([e] nil)))
(when main?
  (put res :files @[(quiet |(file/open "/dev/null" :r)) (quiet |(file/open "/dev/null" :w)) (quiet |(file/open "/dev/null" :r+))])
  (put res :proc (quiet |(os/spawn ["sim-child" "s20" "x0"] :pd)))
  (put res :selflib (quiet |(ffi/native)))
  (put res :abs (quiet |(ffi/lookup (in res :selflib) "abs")))
  (put res :reallib (quiet |(ffi/native "libm.so.6")))
  (put res :ptrs (quiet |(seq [i :range [0 12]] (ffi/malloc 32))))
  (put res :keep (quiet |(ffi/malloc 64)))
  # a signal handler installed before anything is disabled: replacing it later is still a :signal operation
  (put res :handler (quiet |(do (os/sigaction :usr2 (fn [s] nil)) true)))
  (put res :watcher (quiet |(filewatch/new (ev/chan 8))))
  (put res :dgram (quiet |(net/listen :unix (string "@jsim-c18-" (in cfg :tag)) :datagram)))
  (put res :addr (quiet |(net/address :unix (string "@jsim-c18-peer-" (in cfg :tag)) :datagram false)))
  (sim/monitor true))
(var pipe-pair nil)
(defn pipe-end [r]
  (unless pipe-pair (set pipe-pair (os/pipe)))
  (def p pipe-pair)
  (if (chance r 0.3) (set pipe-pair nil))
  (in p (math/rng-int r 2)))
(defn need [k] (or (in res k) (error :c18-skip)))

# ---------------------------------------------------------------- value pools
(def paths [(string M "/x") (string M "/y") (string M "/d/") M (string M "/x.janet") (string M "/lib.so")
            (string M "/x.jimage") (string M "/sock") "nonexistent-sim-marker-rel/x"])
(def sock (string M "/sock"))
(def cmds [["sim-child" "x0"] [(string M "/cmd")] @["sim-child" "x0"] ["sim-child" "w3" "x0"] [(string M "/cmd") "a"]])
(def mode-kws [:r :w :a :r+ :w+ :a+ :rb :wb :rn :wbn :rb+ :wn])
(def open-kws [:r :w :rw :wc :wct :rwc :rc :rt :rct :e :x :wa :c :t :a])
(def spawn-kws [:p :x :px :d :pd :e :ep])
(def cap-kws (in cfg :cap-kws))
(def misc-kws [:realtime :monotonic :cputime :double :int :tuple :stream :datagram :all :modify :create :default
               :int32 :ptr :mode :size :term :kill :hup :unix :n :source :native :image :read :write :close :line])
(def sig-kws [:term :int :hup :kill :usr1 :chld :pipe])
(def strs ["" "abc" "x0" "SIM_MARKER_VAR" "127.0.0.1" "localhost" "1" "%d" "(+ 1 2)" "rw-r--r--" "sim-child x0" "libm.so.6"])
(def ints [-1 0 1 2 3 7 16 64 420])
(def nums [-1 0 1 2 3 7 16 64 0.5 1.5 0.001])
(def harmless [(fn [& a] nil) (fn [& a] true) (fn [x & a] x) (fn [] 1)])
(def peg1 (peg/compile '(any (range "az"))))

(def gens @{})
(defn gen [r cat] ((in gens cat) r))
(def any-cats [:path :path :str :int :num :kw :nil :bool :fn :buf :table :array :tuple :struct :sym :stream :file
               :chan :fiber :cmd :host :port :envvar :proc :lib :watcher :misc])
(put gens :path (fn [r] (pick r paths)))
(put gens :envvar (fn [r] "SIM_MARKER_VAR"))
(put gens :host (fn [r] (pick r [:unix :unix "127.0.0.1" "localhost"])))
(put gens :port (fn [r] (pick r [sock sock 1 "1" 0])))
(put gens :cmd (fn [r] (pick r cmds)))
(put gens :mode (fn [r] (if (chance r 0.8) (pick r mode-kws) (pick r [420 "rw-r--r--" 8r755]))))
(put gens :kw (fn [r] (case (math/rng-int r 6)
                        0 (pick r mode-kws) 1 (pick r open-kws) 2 (pick r spawn-kws) 3 (pick r cap-kws)
                        (pick r misc-kws))))
(put gens :sig (fn [r] (pick r sig-kws)))
(put gens :cap (fn [r] (pick r cap-kws)))
(put gens :str (fn [r] (pick r strs)))
(put gens :int (fn [r] (pick r ints)))
(put gens :num (fn [r] (pick r nums)))
(put gens :nil (fn [r] nil))
(put gens :bool (fn [r] (chance r 0.5)))
(put gens :fn (fn [r] (pick r harmless)))
(put gens :buf (fn [r] (buffer (pick r ["" "abc" "0123456789abcdef"]))))
(put gens :bytes (fn [r] (if (chance r 0.5) (pick r strs) (buffer "abc"))))
(put gens :table (fn [r] (if (chance r 0.5) @{} @{:a 1 "SIM_MARKER_VAR" "v" :in nil})))
(put gens :struct (fn [r] (if (chance r 0.5) {} {:a 1 "SIM_MARKER_VAR" "v"})))
(put gens :array (fn [r] (pick r [@[] @[1 2 3] @["a" "b"]])))
(put gens :tuple (fn [r] (pick r [[] [1 2 3] ["a" "b"] [:a :b]])))
(put gens :sym (fn [r] (pick r ['x 'os/rm 'c18-none])))
(put gens :stream (fn [r] (if (and (in res :dgram) (chance r 0.15)) (in res :dgram) (pipe-end r))))
(defn- open? [f] (and f (try (do (file/tell f) true) ([e] false))))
(put gens :file (fn [r] (let [fs (filter open? (or (in res :files) []))] (if (empty? fs) nil (pick r fs)))))
(put gens :file-or-path (fn [r] (if (chance r 0.5) (gen r :file) (gen r :path))))
(put gens :chan (fn [r] (ev/chan (math/rng-int r 2))))
(put gens :fiber (fn [r] (fiber/new (fn [] 1))))
(put gens :proc (fn [r] (in res :proc)))
(put gens :lib (fn [r] (if (chance r 0.7) (in res :selflib) (in res :reallib))))
(put gens :watcher (fn [r] (in res :watcher)))
(put gens :addr (fn [r] (in res :addr)))
(put gens :lock (fn [r] (if (chance r 0.5) (ev/lock) (ev/rwlock))))
(put gens :misc (fn [r] (case (math/rng-int r 6)
                          0 (math/rng 1) 1 (int/s64 5) 2 (parser/new) 3 peg1 4 (ev/lock) (int/u64 7))))
(put gens :any (fn [r] (gen r (pick r any-cats))))

# parameter-name heuristics (substring -> category); the first match wins
(def rules
  [["path" :path] ["dir" :path] ["file" :file-or-path] ["src" :path] ["dest" :path] ["dst" :path] ["old" :path]
   ["new" :path] ["manifest" :path] ["bundle" :path] ["image" :path] ["where" :path] ["name" :path]
   ["host" :host] ["port" :port] ["addr" :addr]
   ["args" :cmd] ["cmd" :cmd] ["variable" :envvar]
   ["mode" :mode] ["flag" :kw] ["type" :kw] ["what" :kw] ["which" :sig] ["sig" :sig] ["source" :kw] ["format" :kw]
   ["key" :kw] ["stream" :stream] ["sock" :stream] ["conn" :stream] ["chan" :chan] ["proc" :proc] ["native" :lib]
   ["lib" :lib] ["watch" :watcher] ["buf" :buf] ["bytes" :bytes] ["data" :bytes] ["str" :str] ["content" :bytes]
   ["msg" :str] ["fib" :fiber] ["task" :fiber] ["func" :fn] ["handler" :fn] ["pred" :fn] ["thunk" :fn] ["fn" :fn]
   ["tab" :table] ["dict" :table] ["env" :table] ["ds" :table] ["arr" :array] ["ind" :array] ["tup" :tuple]
   ["xs" :array] ["struct" :struct] ["sym" :sym] ["count" :int] ["size" :int] ["len" :int] ["sec" :num]
   ["time" :num] ["index" :int] ["start" :int] ["end" :int] ["lock" :lock] ["tab|key" :kw]])
(def exact {"f" :file-or-path "n" :int "s" :str "x" :any "y" :any "t" :table "p" :path "i" :int "v" :any "b" :buf})
(defn classify [p]
  (or (in exact p)
      (do (var c nil) (each [sub cat] rules (when (string/find sub p) (set c cat) (break))) c)
      :any))

(def usage-cache @{})
(defn usage [n]
  (or (in usage-cache n)
      (do
        (def req @[]) (def opt @[]) (var mode 0) (var va false)
        (def doc (in doc-of n))
        (var ok false)
        (when (and (string? doc) (string/has-prefix? "(" doc))
          (def line (in (string/split "\n" doc 0 2) 0))
          (def toks (filter |(not (empty? $)) (string/split " " (string/trim line "()"))))
          (set ok true)
          (each t (array/slice toks 1)
            (cond
              (= t "&opt") (set mode 1)
              (= t "&") (do (set va true) (set mode 2))
              (or (= t "&keys") (= t "&named")) (set mode 3)
              (= mode 0) (array/push req (classify (string/ascii-lower t)))
              (< mode 3) (array/push opt (classify (string/ascii-lower t))))))
        (unless ok
          (def f (in fn-of n))
          (def lo (if (function? f) (disasm f :min-arity) 0))
          (for i 0 lo (array/push req :any))
          (for i 0 2 (array/push opt :any)))
        (def u [req opt va])
        (put usage-cache n u)
        u)))

(defn gen-args [r n]
  (if-let [ov (in (in cfg :overrides) n)]
    (map (fn [[k v]] (if (= k :g) (gen r v) v)) (pick r ov))
    (do
      (def [req opt va] (usage n))
      (var k (+ (length req) (math/rng-int r (+ 1 (length opt))) (if va (math/rng-int r 3) 0)))
      (if (chance r 0.04) (set k (math/rng-int r 5)))
      (if-let [mx (in maxargs n)] (set k (min k mx)))
      (def args @[])
      (for i 0 k
        (def cat (cond (< i (length req)) (in req i)
                       (< (- i (length req)) (length opt)) (in opt (- i (length req)))
                       :any))
        (def u (math/rng-uniform r))
        (array/push args (cond (< u 0.7) (gen r cat) (< u 0.82) (gen r :path) (gen r :any))))
      args)))

# ---------------------------------------------------------------- armed calls and library code paths
(def scen @[])
(defn S [name wit f] (array/push scen [name wit f]))
(defn rp [r] (pick r paths))
(S "lib/slurp" nil (fn [r] (slurp (rp r))))
(S "lib/spit" nil (fn [r] (spit (rp r) "data")))
(S "lib/spit-append" nil (fn [r] (spit (rp r) "data" :a)))
(S "lib/import*" nil (fn [r] (import* (string M "/mod"))))
(S "lib/require" nil (fn [r] (require (string M "/mod"))))
(S "lib/require-native" nil (fn [r] (require (string M "/lib.so"))))
(S "lib/dofile" nil (fn [r] (dofile (rp r))))
(S "lib/file-lines" nil (fn [r] (with [f (file/open (rp r))] (seq [l :in (file/lines f)] l))))
(S "lib/load-image" nil (fn [r] (load-image (slurp (string M "/x.jimage")))))
(S "lib/net-server-unix" nil (fn [r] (net/server :unix sock (fn [s] nil))))
(S "lib/net-server-ip" nil (fn [r] (net/server "127.0.0.1" "1" (fn [s] nil))))
(S "lib/net-connect-unix" nil (fn [r] (with [c (net/connect :unix sock)] (net/write c "x"))))
(S "lib/net-connect-dgram" nil (fn [r] (net/connect :unix sock :datagram)))
(S "lib/net-listen-unix" nil (fn [r] (net/listen :unix sock (pick r [:stream :datagram]))))
(S "lib/net-address-ip" nil (fn [r] (net/address "127.0.0.1" 1)))
(S "lib/ev-to-file" nil (fn [r] (ev/to-file (pipe-end r))))
(S "lib/os-open-to-file" nil (fn [r] (ev/to-file (os/open (rp r) (pick r [:r :w :rw])))))
(S "lib/file-temp" nil (fn [r] (with [f (file/temp)] (file/write f "x"))))
(S "lib/bundle-list" nil (fn [r] (bundle/list)))
(S "lib/bundle-installed?" nil (fn [r] (bundle/installed? "x")))
(S "lib/bundle-install" nil (fn [r] (bundle/install (string M "/bundle"))))
(S "lib/bundle-manifest" nil (fn [r] (bundle/manifest "x")))
(S "lib/bundle-uninstall" nil (fn [r] (bundle/uninstall "x")))
(S "lib/bundle-prune" nil (fn [r] (bundle/prune)))
(S "lib/bundle-add-file" nil (fn [r] (bundle/add-file @{:files @[] :name "x"} (rp r) "dest")))
(S "lib/os-dir-stat" nil (fn [r] (each e (os/dir M) (os/stat (string M "/" e)))))
(S "lib/os-shell" nil (fn [r] (os/shell "sim-child x0")))
(S "lib/os-execute-env" nil (fn [r] (os/execute ["sim-child" "x0"] :pe {"SIM_MARKER_VAR" "1"})))
(S "lib/os-spawn-pipes" nil (fn [r] (os/spawn ["sim-child" "w3" "x0"] :p {:out :pipe :in :pipe})))
(S "lib/os-env-roundtrip" nil (fn [r] (os/setenv "SIM_MARKER_VAR" "1") (os/getenv "SIM_MARKER_VAR")))
(S "lib/os-unsetenv" nil (fn [r] (os/setenv "SIM_MARKER_VAR" nil)))
(S "lib/os-sigaction" nil (fn [r] (os/sigaction (pick r sig-kws) (fn [s] nil) (chance r 0.3))))
(S "os/sigaction" :signal (fn [r] (need :handler) (os/sigaction :usr2 (fn [s] :replaced))))
(S "os/sigaction" :signal (fn [r] (need :handler) (os/sigaction :usr2 (fn [s] :replaced) true)))
(S "lib/os-sigaction-remove" nil (fn [r] (os/sigaction (pick r sig-kws))))
(S "lib/filewatch-new-add" nil (fn [r] (filewatch/add (filewatch/new (ev/chan 1)) (rp r) :all)))
(S "lib/os-clock" nil (fn [r] (os/clock (pick r [:realtime :monotonic :cputime]) (pick r [:double :tuple :double]))))
(S "lib/os-clock-default" nil (fn [r] (os/clock)))
(S "lib/os-time" nil (fn [r] [(os/time) (os/date) (os/mktime (os/date))]))
(S "lib/os-cryptorand" nil (fn [r] (length (os/cryptorand 8))))
(S "filewatch/add" nil (fn [r] (filewatch/add (need :watcher) (rp r) :all)))
(S "os/proc-kill" nil (fn [r] (os/proc-kill (need :proc) false (pick r [:term :kill :hup]))))
(S "net/send-to" nil (fn [r] (net/send-to (need :dgram) (need :addr) "x")))
(S "native" nil (fn [r] (native (string M "/lib.so"))))
(S "ffi/native" nil (fn [r] (ffi/native (string M "/lib.so"))))
(S "ffi/native" nil (fn [r] (ffi/native)))
# witnesses: operations without a libc seam; returning normally proves the operation was performed
(S "ffi/malloc" :ffi-use (fn [r] (ffi/malloc 8)))
(S "ffi/free" :ffi-use (fn [r] (ffi/free (or (array/pop (need :ptrs)) (error :c18-skip)))))
(S "ffi/read" :ffi-use (fn [r] (ffi/read :int32 (need :keep))))
(S "ffi/read" :ffi-use (fn [r] (ffi/read :int32 @"\x01\x00\x00\x00")))
(S "ffi/read" :ffi-use (fn [r] (ffi/read [:int16 :int16] "\x01\x00\x02\x00")))
(S "ffi/write" :ffi-use (fn [r] (ffi/write [:int16 :int16] [1 2] @"")))
(S "ffi/write" :ffi-use (fn [r] (ffi/write :int32 7)))
(S "ffi/pointer-buffer" :ffi-use (fn [r] (ffi/pointer-buffer (need :keep) 16)))
(S "ffi/pointer-cfunction" :ffi-use (fn [r] (ffi/pointer-cfunction (need :keep))))
(S "ffi/call" :ffi-use (fn [r] (ffi/call (need :abs) (ffi/signature :default :int :int) -5)))
(S "ffi/jitfn" :ffi-jit (fn [r] (ffi/jitfn "\xC3")))
(S "ffi/lookup" :ffi-define (fn [r] (ffi/lookup (need :selflib) "abs")))
(S "ffi/close" :ffi-define (fn [r] (ffi/close (need :reallib))))
(S "os/environ" :env (fn [r] (length (os/environ))))

# ---------------------------------------------------------------- running one call
(def addr-peg (peg/compile '(* "0x" (some (range "09" "AF" "af")))))
(defn- short [v]
  (def s (if (> (length v) 80) (string/slice v 0 80) v))
  (if (string/find "0x" s) (peg/replace-all addr-peg "0x" s) s))
(defn brief [v &opt d]
  (default d 0)
  (case (type v)
    :number v :nil v :boolean v
    :keyword (if (string/find "0x" v) (keyword (short v)) v)
    :symbol (if (string/find "0x" v) (symbol (short v)) v)
    :string (short v)
    :buffer (string "@" (short v))
    :tuple (if (>= d 2) [:tuple (length v)] (tuple ;(map |(brief $ (inc d)) (take 6 v))))
    :array (if (>= d 2) [:array (length v)] (tuple :array ;(map |(brief $ (inc d)) (take 6 v))))
    :table [:table (length v)]
    :struct [:struct (length v)]
    (type v)))

(def deadline (in cfg :deadline))
(def opaque (tabseq [n :in (in cfg :opaque)] n true))
(var nthreads 0)
(defn run-call [idx kind name wit f args]
  (def before (flags))
  (sim/ev :call idx before name kind wit ;(map brief args))
  (var st :stuck) (var v nil)
  (try
    (ev/with-deadline deadline
      (def fib (fiber/new (fn [] (f ;args)) :yed01234567p))
      (set v (resume fib))
      (set st (fiber/status fib)))
    ([e] (set st :runner-error) (set v e)))
  (sim/ev :ret idx (flags) st (if (in opaque name) (type v) (brief v))))

(defn do-call [c]
  (def [idx raw sseed kind] c)
  (def r (math/rng sseed))
  (if (= kind 2)
    (let [[name wit f] (in scen (% raw (length scen)))]
      (run-call idx :scn name wit f [r]))
    (let [pool (if (= kind 1) hot names)
          name (in pool (% raw (length pool)))]
      (cond
        (in deny name) (sim/ev :skip idx name :deny)
        (and (in (in cfg :spawners) name) (>= (++ nthreads) (in cfg :max-spawn))) (sim/ev :skip idx name :thread-budget)
        (do
          (def args (try (gen-args r name) ([e] (sim/ev :c18-error depth (string "gen-args " name ": " e)) [])))
          (run-call idx (if (= kind 1) :hot :all) name nil (in fn-of name) args))))))

# ---------------------------------------------------------------- segments
(var run-segs nil)
(defn run-thread [how segs]
  (def pf (flags))
  (def st {:cfg cfg :segs segs :depth (inc depth) :pf pf :how how})
  (sim/ev :tspawn pf how)
  (try
    (case how
      "ev/thread" (ev/thread c18-entry [c18-src st])
      "ev/thread-n" (let [tc (ev/thread-chan 1)] (ev/thread c18-entry [c18-src st tc] :n) (ev/take tc))
      # (the thread's main may also be a fiber made in the parent: it is resumed in the new thread)
      "ev/thread-fiber" (let [a [c18-src st]] (ev/thread (fiber/new (fn [&] (c18-entry a)))))
      "ev/thread-fiber-n" (let [tc (ev/thread-chan 1) a [c18-src st tc]] (ev/thread (fiber/new (fn [&] (c18-entry a))) nil :n) (ev/take tc))
      "ev/do-thread" (let [a [c18-src st]] (ev/do-thread (c18-entry a)))
      "ev/spawn-thread" (let [tc (ev/thread-chan 1) a [c18-src st tc]] (ev/spawn-thread (c18-entry a)) (ev/take tc)))
    ([e] (sim/ev :thread-failed how (string e))))
  (sim/ev :tjoined (flags) how))

(set run-segs
  (fn [segs]
    (each seg segs
      (case (in seg 0)
        :sandbox (let [before (flags)
                       ok (try (do (sandbox ;(in seg 1)) true) ([e] false))]
                   (sim/ev :sandbox before (flags) ok ;(in seg 1)))
        :calls (each c (in seg 1) (do-call c))
        :thread (run-thread (in seg 1) (in seg 2))))))

(defn c18-go []
  (setdyn :syspath (string M "/sys"))
  (sim/ev :tstart depth (in c18-st :pf) (flags) (in c18-st :how) (length names) (length hot) (length scen))
  (run-segs (in c18-st :segs))
  (sim/ev :tend depth (flags)))
'''
