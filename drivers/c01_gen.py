"""C01 random programs: a small *typed* grammar over the core language.  No semantic model is
needed (the oracle is differential across collector schedules); typing only serves to keep
programs mostly free of trivial type errors and, above all, to keep them inside the
property's premise:

  * no weak containers, no gccollect/gcinterval/gc statistics;
  * no addresses: reference values are only ever shown through sim/ev / sim/canon (address
    free); `string`/`describe`/`%v` are applied to numbers, strings, keywords, buffers only;
  * no hashing or ordering (`hash`, `compare`, `<`, `sort`) of reference types; table keys
    are keywords, strings, numbers or tuples of those (iteration order is then a function
    of contents only);
  * no finalizer-observable effects: every stream is closed in a `defer`, nothing blocks on
    the peer of a dropped object; channel operations are matched by construction;
  * every loop is bounded; errors are caught by the unit wrapper (and by generated `try`s)
    and become part of the transcript.

Types: num str kw buf narr (array of numbers) arr (array of anything) tbl tup struct fn1
(function of one number) fib (generator fiber) any."""

WORDS = ["alpha", "beta", "gamma", "delta", "", "x", "a b c", "12 34 five", "zz-9", "key=value;k2=v2"]
KWS = [":a", ":b", ":c", ":d", ":e", ":long-keyword-name"]
PARSER_CHUNKS = ['(1 2 ', '3)', '@{:a ', '"str', 'ing"', '}', '[x y', ' z]', ' 42 ', ':kw ', '"unterminated',
                 ')', '``long', ' string``', '# comment\n', '(nested (deep (er', ')))', "'quoted ", '@[1 2', ']', '\\']
PEGS = [
    "~(some (+ (<- :d+) (<- :a+) 1))",
    "~{:main (any (+ :pair 1)) :pair (group (* (<- :w+) \"=\" (<- :w+)))}",
    "~(any (+ (/ (<- :d+) ,scan-number) (<- (set \"abc\")) 1))",
    "~(* (any (if-not \" \" 1)) (position) (<- (any 1)))",
    "~(any (+ (cmt (<- :a+) ,(fn [s] (if (> (length s) 1) (string/ascii-upper s)))) 1))",
    "~(accumulate (any (+ (* (<- :a) (constant \"-\")) 1)))",
]


class Gen:
    def __init__(self, r, budget):
        self.r = r
        self.budget = budget          # rough number of statements (weighted by loop multiplicity)
        self.ctr = 0
        self.scopes = [{}]            # name -> (type, mutable)
        self.mult = 1
        self.in_child = 0

    # -- names / scopes --
    def fresh(self, p="v"):
        self.ctr += 1
        return "%s%d" % (p, self.ctr)

    def bind(self, name, t, mutable=False):
        self.scopes[-1][name] = (t, mutable)

    def vars_of(self, types, mutable=None):
        out = []
        for sc in self.scopes:
            for n, (t, m) in sc.items():
                if t in types and (mutable is None or m == mutable):
                    out.append(n)
        return out

    def pick_var(self, types, mutable=None):
        vs = self.vars_of(types, mutable)
        return self.r.choice(vs) if vs else None

    # -- expressions --
    def lit_num(self):
        return str(self.r.choice([0, 1, 2, 3, 5, 7, 10, 42, 100, -1, -7, 255, 1000, 65536, 3.5, 1e9]))

    def num(self, d=0):
        r = self.r
        v = self.pick_var(["num"])
        u = r.random()
        if d > 2 or u < 0.25:
            return v if v and r.random() < 0.7 else self.lit_num()
        if u < 0.40:
            return "(+ %s %s)" % (self.num(d + 1), self.num(d + 1))
        if u < 0.50:
            return "(- %s %s)" % (self.num(d + 1), self.num(d + 1))
        if u < 0.58:
            return "(% (* " + self.num(d + 1) + " " + self.num(d + 1) + ") 9973)"
        if u < 0.72:
            t = r.choice(["str", "arr", "tbl", "buf", "tup", "narr", "struct"])
            return "(length %s)" % self.expr(t, d + 1)
        if u < 0.80:
            return "(if (> %s %s) %s %s)" % (self.num(d + 1), self.num(d + 1), self.num(d + 1), self.num(d + 1))
        if u < 0.88:
            return "(reduce + 0 %s)" % self.expr("narr", d + 1)
        if u < 0.94:
            return "(math/floor (/ %s 3))" % self.num(d + 1)
        return "(or (scan-number (string %s)) 0)" % self.num(d + 1)

    def small(self, d=0, k=9):
        """a small non-negative integer expression"""
        return "(%% (math/abs (math/trunc %s)) %d)" % (self.num(d + 1), k)

    def str_(self, d=0):
        r = self.r
        v = self.pick_var(["str"])
        u = r.random()
        if d > 2 or u < 0.25:
            return v if v and r.random() < 0.7 else '"%s"' % r.choice(WORDS)
        if u < 0.37:
            return "(string %s %s)" % (self.str_(d + 1), self.expr(r.choice(["num", "kw", "str", "buf"]), d + 1))
        if u < 0.45:
            return '(string/repeat "%s" %s)' % (r.choice(["ab", "x", "-=-"]), self.small(d))
        if u < 0.53:
            s = self.str_(d + 1)
            return "(let [s %s] (string/slice s 0 (min (length s) %d)))" % (s, r.randint(0, 6))
        if u < 0.60:
            return "(%s %s)" % (r.choice(["string/ascii-upper", "string/reverse", "string/trim"]), self.str_(d + 1))
        if u < 0.72:
            return "(sim/canon %s)" % self.any(d + 1)
        if u < 0.80:
            return '(string/join (map sim/canon %s) ",")' % self.expr("arr", d + 1)
        if u < 0.88:
            return '(string/format "%%d:%%s:%%.2f" (math/trunc %s) %s %s)' % (self.num(d + 1), self.str_(d + 1), self.num(d + 1))
        if u < 0.94:
            return '(string/replace-all "a" "<>" %s)' % self.str_(d + 1)
        return "(string %s)" % self.expr("buf", d + 1)

    def kw(self, d=0):
        r = self.r
        v = self.pick_var(["kw"])
        u = r.random()
        if v and u < 0.3:
            return v
        if u < 0.7:
            return r.choice(KWS)
        return '(keyword "rk" %s)' % self.small(d, 5)

    def buf(self, d=0):
        r = self.r
        v = self.pick_var(["buf"])
        u = r.random()
        if v and u < 0.4:
            return v
        if d > 2 or u < 0.6:
            return '@"%s"' % r.choice(WORDS)
        if u < 0.8:
            return "(buffer %s)" % self.str_(d + 1)
        return "(buffer/push-string (buffer/new 4) %s %s)" % (self.str_(d + 1), self.str_(d + 1))

    def narr(self, d=0):
        r = self.r
        v = self.pick_var(["narr"])
        u = r.random()
        if v and u < 0.35:
            return v
        if d > 2 or u < 0.5:
            return "@[%s]" % " ".join(self.lit_num() for _ in range(r.randint(0, 5)))
        if u < 0.65:
            i = self.fresh("i")
            self.scopes.append({i: ("num", False)})
            e = self.num(d + 1)
            self.scopes.pop()
            return "(seq [%s :range [0 %d]] %s)" % (i, r.randint(0, 6), e)
        if u < 0.75:
            return "(sorted %s)" % self.narr(d + 1)
        if u < 0.85:
            x = self.fresh("x")
            self.scopes.append({x: ("num", False)})
            e = self.num(d + 1)
            self.scopes.pop()
            return "(map (fn [%s] %s) %s)" % (x, e, self.narr(d + 1))
        if u < 0.92:
            return "(filter even? %s)" % self.narr(d + 1)
        return "(range %s)" % self.small(d, 7)

    def arr(self, d=0):
        r = self.r
        v = self.pick_var(["arr"])
        u = r.random()
        if v and u < 0.35:
            return v
        if d > 2 or u < 0.55:
            return "@[%s]" % " ".join(self.any(d + 1) for _ in range(r.randint(0, 4)))
        if u < 0.65:
            return "(array/concat @[] %s %s)" % (self.expr(r.choice(["arr", "narr"]), d + 1), self.expr(r.choice(["arr", "tup"]), d + 1))
        if u < 0.72:
            return "(array/slice %s)" % self.arr(d + 1)
        if u < 0.82:
            i = self.fresh("i")
            self.scopes.append({i: ("num", False)})
            e = self.any(d + 1)
            self.scopes.pop()
            return "(seq [%s :range [0 %d]] %s)" % (i, r.randint(0, 5), e)
        if u < 0.90:
            f = self.pick_var(["fn1"])
            if f:
                return "(map %s (array/slice %s))" % (f, self.narr(d + 1))     # snapshot: f may push to it
            return "(map sim/canon %s)" % self.arr(d + 1)
        if u < 0.95:
            return "(keys %s)" % self.tbl(d + 1)
        return '(string/split " " %s)' % self.str_(d + 1)

    def key(self, d=0):
        """key of a table/struct constructor.  The *source form* of a key must not contain a
        reference-type literal (@[..] @{..} @".."): the compiler walks the parsed constructor
        (a table keyed by the key forms) in hash order, and a form containing an array hashes by
        address - evaluation order would then depend on addresses."""
        for _ in range(4):
            k = self.key1(d)
            if "@" not in k:
                return k
        return self.r.choice(KWS)

    def key1(self, d=0):
        u = self.r.random()
        if u < 0.7:
            return self.kw(d)
        if u < 0.85:
            return self.str_(d + 2)
        if u < 0.95:
            return self.small(d, 6)
        return "[%s %s]" % (self.kw(d), self.small(d, 3))

    def tbl(self, d=0):
        r = self.r
        v = self.pick_var(["tbl"])
        u = r.random()
        if v and u < 0.35:
            return v
        if d > 2 or u < 0.6:
            return "@{%s}" % " ".join("%s %s" % (self.key(d + 1), self.any(d + 1)) for _ in range(r.randint(0, 3)))
        if u < 0.7:
            return "(table/clone %s)" % self.tbl(d + 1)
        if u < 0.8:
            return "(merge %s %s)" % (self.tbl(d + 1), self.expr(r.choice(["tbl", "struct"]), d + 1))
        if u < 0.9:
            return "(table/setproto @{%s %s} %s)" % (self.kw(d), self.any(d + 1), self.tbl(d + 1))
        i = self.fresh("i")
        self.scopes.append({i: ("num", False)})
        e = self.any(d + 1)
        self.scopes.pop()
        return '(tabseq [%s :range [0 %d]] (keyword "t" %s) %s)' % (i, r.randint(0, 5), i, e)

    def tup(self, d=0):
        r = self.r
        v = self.pick_var(["tup"])
        u = r.random()
        if v and u < 0.3:
            return v
        if d > 2 or u < 0.7:
            return "[%s]" % " ".join(self.any(d + 1) for _ in range(r.randint(0, 4)))
        if u < 0.85:
            return "(tuple ;%s)" % self.expr(r.choice(["arr", "narr"]), d + 1)
        return "(tuple %s %s)" % (self.any(d + 1), self.any(d + 1))

    def struct(self, d=0):
        r = self.r
        v = self.pick_var(["struct"])
        u = r.random()
        if v and u < 0.3:
            return v
        if d > 2 or u < 0.7:
            return "{%s}" % " ".join("%s %s" % (self.key(d + 1), self.any(d + 1)) for _ in range(r.randint(0, 3)))
        if u < 0.85:
            return "(table/to-struct %s)" % self.tbl(d + 1)
        return "(struct/with-proto %s %s %s)" % (self.struct(d + 1), self.kw(d), self.any(d + 1))

    def fn1(self, d=0):
        v = self.pick_var(["fn1"])
        if v and self.r.random() < 0.6:
            return v
        x = self.fresh("x")
        self.scopes.append({x: ("num", False)})
        e = self.any(d + 1)
        self.scopes.pop()
        return "(fn [%s] %s)" % (x, e)

    def any(self, d=0):
        r = self.r
        if d > 3:
            return r.choice([self.lit_num(), '"%s"' % r.choice(WORDS), r.choice(KWS), "nil", "true"])
        u = r.random()
        if u < 0.3:
            vs = self.vars_of(["num", "str", "kw", "buf", "narr", "arr", "tbl", "tup", "struct", "fn1", "fib", "any"])
            if vs:
                return r.choice(vs)
            u = 0.5
        if u < 0.36:
            f = self.pick_var(["fn1"])
            if f:
                return "(%s %s)" % (f, self.num(d + 1))
        if u < 0.41:
            return "(get %s %s)" % (self.expr(r.choice(["tbl", "struct"]), d + 1), self.key(d + 1))
        if u < 0.45:
            return "(get %s %s)" % (self.expr(r.choice(["arr", "tup", "narr"]), d + 1), self.small(d, 4))
        t = r.choice(["num", "num", "str", "str", "kw", "buf", "narr", "arr", "arr", "tbl", "tbl", "tup", "struct"])
        return self.expr(t, d + 1)

    def expr(self, t, d=0):
        return {"num": self.num, "str": self.str_, "kw": self.kw, "buf": self.buf, "narr": self.narr, "arr": self.arr,
                "tbl": self.tbl, "tup": self.tup, "struct": self.struct, "fn1": self.fn1, "any": self.any}[t](d)

    def cond(self):
        r = self.r
        u = r.random()
        if u < 0.4:
            return "(> %s %s)" % (self.num(1), self.num(1))
        if u < 0.6:
            return "(even? (math/trunc %s))" % self.num(1)
        if u < 0.8:
            return "(empty? %s)" % self.expr(r.choice(["arr", "str", "tbl", "narr"]), 1)
        return "(nil? (get %s %s))" % (self.tbl(1), self.kw())

    # -- statements --
    def block(self, n, extra_scope=None):
        self.scopes.append(dict(extra_scope or {}))
        out = []
        for _ in range(n):
            out.extend(self.stmt())
        self.scopes.pop()
        return out or ["nil"]

    def emit(self, e=None):
        return '(emit "%s" %s)' % (self.fresh("r"), e if e is not None else self.any(0))

    def stmt(self):
        r = self.r
        self.budget -= self.mult
        if self.budget <= 0:
            return [self.emit()]
        u = r.random()
        VT = ["num", "str", "kw", "buf", "narr", "arr", "tbl", "tup", "struct"]
        if u < 0.14:
            t = r.choice(VT)
            n = self.fresh()
            e = self.expr(t)
            self.bind(n, t, False)
            return ["(def %s %s)" % (n, e)]
        if u < 0.24:
            t = r.choice([x for x in VT if x not in ("struct",)])
            n = self.fresh()
            e = self.expr(t)
            self.bind(n, t, True)
            return ["(var %s %s)" % (n, e)]
        if u < 0.32:
            vs = [(n, t) for sc in self.scopes for n, (t, m) in sc.items() if m]
            if vs:
                n, t = r.choice(vs)
                return ["(set %s %s)" % (n, self.capped(t, self.expr(t)))]
            return [self.emit()]
        if u < 0.44:
            return self.mutate()
        if u < 0.56:
            return [self.emit()]
        if u < 0.64:
            return self.loop()
        if u < 0.69:
            return ["(if %s (do %s) (do %s))" % (self.cond(), " ".join(self.block(r.randint(1, 2))), " ".join(self.block(r.randint(1, 2))))]
        if u < 0.76:
            return self.closure()
        if u < 0.81:
            return self.fiber()
        if u < 0.85:
            t = r.choice(["arr", "tbl", "tup", "struct", "any", "fn1", "buf"])
            n = self.fresh()
            e = self.expr(t)
            self.bind(n, t if t != "fn1" else "any", False)
            return ["(def %s (unmarshal (marshal %s make-image-dict) load-image-dict))" % (n, e)]
        if u < 0.88:
            return self.parser()
        if u < 0.91:
            return [self.emit("(peg/match %s %s)" % (r.choice(PEGS), self.str_(1)))]
        if u < 0.95:
            return self.async_()
        if u < 0.97:
            return self.tryerr()
        return self.evalform()

    @staticmethod
    def capped(t, e):
        """re-assignment inside loops must not grow without bound (s <- s+s thirty times)"""
        if t == "str":
            return "(let [s %s] (string/slice s 0 (min (length s) 256)))" % e
        if t == "buf":
            return "(let [b %s] (buffer/slice b 0 (min (length b) 256)))" % e
        if t in ("arr", "narr"):
            return "(take* 48 %s)" % e
        if t == "tup":
            return "(tuple ;(take* 24 %s))" % e
        return e

    def mutate(self):
        r = self.r
        u = r.random()
        a = self.pick_var(["arr"])
        t = self.pick_var(["tbl"])
        b = self.pick_var(["buf"])
        na = self.pick_var(["narr"])
        if a and u < 0.3:
            return ["(array/push %s %s)" % (a, self.any(1))]
        if a and u < 0.36:
            return [self.emit("(array/pop %s)" % a)]
        if a and u < 0.42:
            return ["(array/insert %s 0 %s)" % (a, self.any(1))]
        if t and u < 0.62:
            return ["(put %s %s %s)" % (t, self.key(1), self.any(1))]
        if t and u < 0.68:
            return ["(put %s %s nil)" % (t, self.key(1))]
        if b and u < 0.82:
            return ["(if (< (length %s) 512) (buffer/push-string %s %s))" % (b, b, self.str_(1))]
        if na and u < 0.92:
            return ["(array/push %s %s)" % (na, self.num(1))]
        if na:
            return ["(sort %s)" % na]
        return [self.emit()]

    def loop(self):
        r = self.r
        k = r.randint(1, 5)
        if self.mult * k > 30:
            return [self.emit()]
        self.mult *= k
        u = r.random()
        if u < 0.5:
            i = self.fresh("i")
            body = self.block(r.randint(1, 3), {i: ("num", False)})
            out = ["(for %s 0 %d %s)" % (i, k, " ".join(body))]
        elif u < 0.75:
            x = self.fresh("x")
            t = r.choice(["arr", "narr", "tup"])
            coll = self.expr(t, 1)
            body = self.block(r.randint(1, 2), {x: ("num" if t == "narr" else "any", False)})
            out = ["(each %s (take* %d %s) %s)" % (x, k, coll, " ".join(body))]
        else:
            w = self.fresh("w")
            body = self.block(r.randint(1, 2), {w: ("num", False)})
            out = ["(var %s 0)" % w, "(while (< %s %d) %s (++ %s))" % (w, k, " ".join(body), w)]
            self.bind(w, "num", False)
        self.mult //= k
        return out

    def closure(self):
        r = self.r
        f = self.fresh("f")
        x = self.fresh("x")
        u = r.random()
        if u < 0.5:
            # closes over (and may mutate) variables of the enclosing scopes
            body = self.block(r.randint(0, 2), {x: ("num", False)})
            self.scopes.append({x: ("num", False)})
            ret = self.any(1)
            self.scopes.pop()
            self.bind(f, "fn1")
            return ["(def %s (fn %s [%s] %s %s))" % (f, f, x, " ".join(body), ret), self.emit("(%s %s)" % (f, self.num(1)))]
        # counter factory: a fresh environment per call
        n = self.fresh("n")
        self.scopes.append({x: ("num", False), n: ("num", True)})
        ret = self.any(1)
        self.scopes.pop()
        mk = self.fresh("mk")
        self.bind(f, "fn1")
        return ["(def %s (fn [start] (var %s start) (fn %s [%s] (+= %s %s) %s)))" % (mk, n, f, x, n, x, ret),
                "(def %s (%s %s))" % (f, mk, self.num(1)),
                self.emit("[(%s 1) (%s 2)]" % (f, f))]

    def fiber(self):
        r = self.r
        g = self.fresh("g")
        i = self.fresh("i")
        k = r.randint(1, 4)
        self.scopes.append({i: ("num", False)})
        y = self.any(1)
        self.scopes.pop()
        last = self.any(1)
        out = ["(def %s (fiber/new (fn [] (for %s 0 %d (yield %s)) %s) :yi))" % (g, i, k, y, last)]
        self.bind(g, "fib")
        n = r.randint(1, k + 2)
        out.append("(repeat %d (if (fiber/can-resume? %s) %s))" % (n, g, self.emit("(resume %s)" % g)))
        if r.random() < 0.3:
            out.append(self.emit("[(fiber/status %s) (fiber/last-value %s)]" % (g, g)))
        return out

    def parser(self):
        r = self.r
        p = self.fresh("p")
        out = ["(def %s (parser/new))" % p]
        for _ in range(r.randint(1, 4)):
            chunk = r.choice(PARSER_CHUNKS).replace("\\", "\\\\").replace('"', '\\"').replace("\n", "\\n")
            out.append('(protect (parser/consume %s "%s"))' % (p, chunk))
            if r.random() < 0.3:
                q = self.fresh("p")
                out.append("(def %s (parser/clone %s))" % (q, p))
                out.append('(protect (parser/consume %s " 7 "))' % q)
                out.append(self.emit("[(parser/status %s) (if (parser/has-more %s) (parser/produce %s))]" % (q, q, q)))
        out.append(self.emit("[(parser/status %s) (parser/error %s) (if (parser/has-more %s) (parser/produce %s)) (parser/state %s :delimiters)]"
                             % (p, p, p, p, p)))
        return out

    def async_(self):
        r = self.r
        if self.in_child or self.mult > 6:
            return ["(ev/sleep 0.001)", self.emit()]
        u = r.random()
        if u < 0.5:
            ch = self.fresh("ch")
            k = r.randint(1, 3)
            i = self.fresh("i")
            self.in_child += 1
            body = self.block(r.randint(0, 2), {i: ("num", False)})
            self.scopes.append({i: ("num", False)})
            val = self.any(1)
            self.scopes.pop()
            self.in_child -= 1
            return ["(def %s (ev/chan %d))" % (ch, r.choice([0, 0, 1, 4])),
                    "(for %s 0 %d (ev/spawn (ev/sleep (* 0.001 (%% (* %s 3) 4))) (ev/give %s (try (do %s %s) ([e] [:child-error e])))))"
                    % (i, k, i, ch, " ".join(body), val),
                    "(repeat %d %s)" % (k, self.emit("(ev/take %s)" % ch))]
        if u < 0.75:
            ch = self.fresh("ch")
            cap = r.randint(1, 4)
            out = ["(def %s (ev/chan %d))" % (ch, cap)]
            for _ in range(r.randint(1, 5)):
                if r.random() < 0.6:
                    out.append("(if (< (ev/count %s) %d) (ev/give %s %s))" % (ch, cap, ch, self.any(1)))
                else:
                    out.append("(if (> (ev/count %s) 0) %s)" % (ch, self.emit("(ev/take %s)" % ch)))
            return out
        s = self.fresh("s")
        return ["(def %s %s)" % (s, self.str_(1)),
                "(let [[rs ws] (os/pipe)] (defer (do (ev/close ws) (ev/close rs)) "
                "(ev/write ws (string/slice %s 0 (min 2000 (length %s)))) %s))"
                % (s, s, self.emit("(read-all rs (min 2000 (length %s)))" % s))]

    def tryerr(self):
        r = self.r
        bad = r.choice(["(error %s)" % self.any(1), "(+ 1 %s)" % self.str_(1), "(in %s 99)" % self.tup(1),
                        "(%s)" % self.num(1), "(length %s)" % self.num(1), "(assert false %s)" % self.str_(1)])
        return ["(try (do %s %s) ([e] %s))" % (" ".join(self.block(1)), bad, self.emit("[:caught e]"))]

    def evalform(self):
        # evaluated in the global environment: no local names inside
        saved = self.scopes
        self.scopes = [{}]
        e = self.any(1)
        self.scopes = saved
        return [self.emit("(eval '%s)" % e)]


def make(r):
    g = Gen(r, r.choice([8, 16, 30, 50]))
    body = []
    n = r.randint(3, 20)
    for _ in range(n):
        body.extend(g.stmt())
        if g.budget <= 0:
            break
    body.append(g.emit("[%s]" % " ".join(sorted(g.scopes[0])[:12])))
    return {"name": "random", "kind": "random", "body": body, "tags": []}
