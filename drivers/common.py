"""Shared machinery for the per-property drivers: jsim fork-server client, batch runner,
history parsing, minimiser (ddmin), replay files, known findings, evidence writer."""
import hashlib
import json
import multiprocessing as mp
import os
import random
import shutil
import subprocess
import sys
import tempfile
import time

sys.path.insert(0, os.path.dirname(os.path.abspath(__file__)))
import build as jbuild  # noqa: E402

VERIF = jbuild.VERIF
EVIDENCE = os.path.join(VERIF, "evidence")
REPLAYS = os.path.join(VERIF, "replays")
KNOWN = os.path.join(VERIF, "known_findings.json")

EXIT_NAMES = {0: "ok", 70: "deadlock", 71: "livelock", 72: "unsupported", 73: "harness", 77: "sanitizer"}


def mix64(*xs):
    h = hashlib.sha256(("/".join(str(x) for x in xs)).encode()).digest()
    return int.from_bytes(h[:8], "big")


def workdir():
    base = "/dev/shm" if os.path.isdir("/dev/shm") and os.access("/dev/shm", os.W_OK) else tempfile.gettempdir()
    return tempfile.mkdtemp(prefix="jsim-", dir=base)


class Event:
    __slots__ = ("seq", "t", "tid", "kind", "payload")

    def __init__(self, seq, t, tid, kind, payload):
        self.seq, self.t, self.tid, self.kind, self.payload = seq, t, tid, kind, payload

    def __repr__(self):
        return "%d\t%d\t%d\t%s\t%s" % (self.seq, self.t, self.tid, self.kind, self.payload)


class Result:
    """outcome of one simulated run"""

    def __init__(self, how, code, wall_us, events, log):
        self.how, self.code, self.wall_us, self.events, self.log = how, code, wall_us, events, log
        self.faults = []      # [kind, obj, n, param] actually fired (incl. switches)
        self.probes = {}
        self.fault_counts = {}
        self.end = None
        self.stats = {}
        for e in events:
            try:
                if e.kind == "!fault":
                    k, o, n, p = e.payload.split(" ")
                    self.faults.append([k, int(o), int(n), int(p)])
                elif e.kind == "!probe":
                    k, n = e.payload.split(" ")
                    self.probes[k] = int(n)
                elif e.kind == "!faults":
                    k, n = e.payload.split(" ")
                    self.fault_counts[k] = int(n)
                elif e.kind == "!end":
                    self.end = e
                elif e.kind == "!stats":
                    parts = e.payload.split(" ")
                    self.stats[parts[0]] = dict(p.split("=") for p in parts[1:])
            except ValueError:
                continue    # last line of a history cut short by a kill

    @property
    def outcome(self):
        """ok | deadlock | livelock | sanitizer | crash:<sig> | timeout | ..."""
        if self.how == "timeout":
            return "timeout"
        if self.how == "signal":
            return "crash:%d" % self.code
        return EXIT_NAMES.get(self.code, "exit:%d" % self.code)

    def user_events(self):
        return [e for e in self.events if not e.kind.startswith("!")]

    def sim_ns(self):
        return self.events[-1].t if self.events else 0

    def history_hash(self):
        h = hashlib.sha256()
        for e in self.events:
            h.update(repr(e).encode())
            h.update(b"\n")
        return h.hexdigest()

    def switch_hash(self):
        if self.end is None:
            return ""
        for p in self.end.payload.split(" "):
            if p.startswith("sched="):
                return p[6:]
        return ""


def parse_history(path):
    evs = []
    try:
        with open(path, "r", errors="replace") as f:
            for line in f:
                line = line.rstrip("\n")
                parts = line.split("\t", 4)
                if len(parts) < 5:
                    continue
                try:
                    evs.append(Event(int(parts[0]), int(parts[1]), int(parts[2]), parts[3], parts[4]))
                except ValueError:
                    continue
    except FileNotFoundError:
        pass
    return evs


class Runner:
    """client of one `jsim --server` process (fork server)"""

    def __init__(self, flavour):
        self.flavour = flavour
        self.exe = jbuild.build(flavour)
        self.dir = workdir()
        self.n = 0
        self.proc = None
        self._start()

    def _start(self):
        env = dict(os.environ)
        env.pop("JSIM_NO_REEXEC", None)
        self.proc = subprocess.Popen([self.exe, "--server"], stdin=subprocess.PIPE, stdout=subprocess.PIPE,
                                     stderr=subprocess.DEVNULL, text=True, bufsize=1, env=env, cwd="/",
                                     preexec_fn=die_with_parent)
        line = self.proc.stdout.readline()
        if not line.startswith("READY"):
            raise RuntimeError("jsim server did not start: %r" % line)

    def run(self, request_text, timeout_ms=60000, keep=False):
        self.n += 1
        req = os.path.join(self.dir, "r%d.req" % (self.n % 4))
        out = os.path.join(self.dir, "r%d.hist" % (self.n % 4))
        with open(req, "w") as f:
            f.write(request_text)
        for p in (out, out + ".log"):
            try:
                os.unlink(p)
            except FileNotFoundError:
                pass
        try:
            self.proc.stdin.write("RUN %s %s %d\n" % (req, out, timeout_ms))
            self.proc.stdin.flush()
            line = self.proc.stdout.readline()
        except (BrokenPipeError, OSError):
            line = ""
        if not line.startswith("DONE"):
            # the zygote itself died: restart it, report a harness failure for this run
            try:
                self.proc.kill()
            except Exception:
                pass
            self._start()
            return Result("exit", 73, 0, [], "zygote died")
        _, how, code, us = line.split()
        evs = parse_history(out)
        log = ""
        try:
            with open(out + ".log", "r", errors="replace") as f:
                log = f.read(200000)
        except FileNotFoundError:
            pass
        return Result(how, int(code), int(us), evs, log)

    def close(self):
        try:
            self.proc.stdin.write("QUIT\n")
            self.proc.stdin.flush()
            self.proc.wait(timeout=2)
        except Exception:
            try:
                self.proc.kill()
            except Exception:
                pass
        shutil.rmtree(self.dir, ignore_errors=True)


_runners = {}


def runner(flavour):
    r = _runners.get(flavour)
    if r is None:
        r = _runners[flavour] = Runner(flavour)
    return r


def close_runners():
    for r in _runners.values():
        r.close()
    _runners.clear()


def knobs_text(k):
    """render the knob section of a request from a dict"""
    out = ["seed %d" % k.get("seed", 0)]
    for name, pr in sorted(k.get("p", {}).items()):
        out.append("p %s %.6f" % (name, pr))
    if "gc" in k:
        out.append("gc " + k["gc"])
    if "sched" in k:
        out.append("sched " + k["sched"])
    for key in ("max_yields", "max_sim_s", "clock_phase_ns", "tick_ns", "pipe_size", "sock_buf", "monitor"):
        if key in k:
            out.append("%s %d" % (key, k[key]))
    if k.get("explicit"):
        out.append("explicit 1")
        for f in k.get("faults", []):
            out.append("fault %s %d %d %d" % tuple(f))
    return "\n".join(out) + "\n"


def make_request(knobs, phases):
    if isinstance(phases, str):
        phases = [phases]
    return knobs_text(knobs) + "---\n" + "\n---\n".join(phases) + "\n"


# ----------------------------------------------------------------------------
class Violation:
    def __init__(self, sig, detail=""):
        self.sig, self.detail = sig, detail

    def __repr__(self):
        return "Violation(%s: %s)" % (self.sig, self.detail)


class Driver:
    """base class of a per-property driver"""
    prop = "C00"
    level = "exploration"
    rule = ""
    components = {
        "real": ["interpreter", "compiler", "collector", "event loop", "channels", "streams", "timers heap",
                 "marshal", "parser", "kernel pipes and unix sockets", "epoll"],
        "simulated": ["clock and timerfd", "thread scheduling decisions", "epoll wake-up timing",
                      "read/write outcomes (EINTR, EAGAIN, short counts)"],
        "stub": ["child processes (in-process actors)"],
    }
    required_probes = []
    timeout_ms = 60000

    def gen(self, seed, tier):
        raise NotImplementedError

    def flavour(self, plan):
        return plan.get("flavour", "plain")

    def render(self, plan):
        """-> request text"""
        raise NotImplementedError

    def check(self, plan, res):
        """-> list of Violation"""
        raise NotImplementedError

    def nontrivial(self, plan, res):
        return bool(res.faults) or res.outcome != "ok" or True

    def sample(self, plan, res):
        return {"plan": plan, "faults_fired": res.faults[:20], "outcome": res.outcome}

    # -- one seeded run ------------------------------------------------------
    def run_plan(self, plan):
        r = runner(self.flavour(plan))
        return r.run(self.render(plan), self.timeout_ms)

    def execute(self, plan):
        """run one plan (possibly several simulated runs, e.g. the same program under several
        schedules) -> (primary Result, [Violation]).  Drivers that need more than one run per
        plan override this; everything else (batching, minimisation, replay) goes through it."""
        res = self.run_plan(plan)
        return res, self.check(plan, res)

    def run_seed(self, seed, tier):
        plan = self.gen(seed, tier)
        res, vs = self.execute(plan)
        if res.outcome == "harness":
            # the simulator gave up (a table of its own overflowed, ...): never a verdict about Janet
            last = [e.payload for e in res.events if e.kind == "!harness"]
            return {"seed": seed, "harness_error": "simulator: %s" % (last[-1] if last else "exit 73")}
        cov = hashlib.sha256((json.dumps(plan, sort_keys=True) + json.dumps(res.faults)).encode()).hexdigest()[:20]
        return {
            "seed": seed, "cov": cov, "nontrivial": bool(self.nontrivial(plan, res)), "outcome": res.outcome,
            "faults": res.fault_counts, "probes": res.probes, "sim_ns": res.sim_ns(), "sw": res.switch_hash(),
            "hist": res.history_hash(), "violations": [(v.sig, v.detail) for v in vs], "wall_us": res.wall_us,
            "extra": self.extra(plan, res),
        }

    def extra(self, plan, res):
        return None

    # -- minimisation --------------------------------------------------------
    def shrink(self, plan):
        """yield smaller candidate plans (default: none)"""
        return []

    def to_explicit(self, plan, res):
        """turn a seed-mode plan into an explicit one carrying the faults that fired"""
        p = json.loads(json.dumps(plan))
        k = p.setdefault("knobs", {})
        k["explicit"] = 1
        k["faults"] = res.faults
        return p


def ddmin(items, test, budget):
    """classic ddmin over a list; test(sublist)->bool (True = still fails). returns minimal list."""
    n = 2
    cur = list(items)
    runs = 0
    while len(cur) >= 2 and runs < budget:
        chunk = max(1, len(cur) // n)
        subsets = [cur[i:i + chunk] for i in range(0, len(cur), chunk)]
        reduced = False
        for i, s in enumerate(subsets):
            comp = [x for j, t in enumerate(subsets) if j != i for x in t]
            runs += 1
            if test(comp):
                cur = comp
                n = max(n - 1, 2)
                reduced = True
                break
            if runs >= budget:
                break
        if not reduced:
            if n >= len(cur):
                break
            n = min(len(cur), n * 2)
    if len(cur) == 1 and runs < budget:
        if test([]):
            cur = []
    return cur


def minimise(driver, plan, sig, budget=600, wall_s=90):
    """shrink plan while the same violation signature recurs. returns (plan, result, runs).
    Bounded both in re-runs and in wall-clock time (a violation that makes every run slow must
    not make minimisation endless)."""
    runs = [0]
    t_end = time.time() + wall_s

    def fails(p):
        runs[0] += 1
        res, vs = driver.execute(p)
        return any(v.sig == sig for v in vs), res

    ok, res = fails(plan)
    if not ok:
        return None, None, runs[0]
    # 1. explicit faults
    if not plan.get("knobs", {}).get("explicit"):
        ex = driver.to_explicit(plan, res)
        ok2, res2 = fails(ex)
        if ok2:
            plan, res = ex, res2
    # 2. ddmin over faults
    if plan.get("knobs", {}).get("explicit") and plan["knobs"].get("faults"):
        def test(fs):
            if time.time() > t_end:
                return False
            p = json.loads(json.dumps(plan))
            p["knobs"]["faults"] = fs
            return fails(p)[0]
        fs = ddmin(plan["knobs"]["faults"], test, budget // 3)
        plan = json.loads(json.dumps(plan))
        plan["knobs"]["faults"] = fs
    # 3. driver-specific greedy shrinking to fixpoint
    progress = True
    while progress and runs[0] < budget and time.time() < t_end:
        progress = False
        for cand in driver.shrink(plan):
            if runs[0] >= budget or time.time() > t_end:
                break
            if fails(cand)[0]:
                plan = cand
                progress = True
                break
    ok, res = fails(plan)
    return plan, res, runs[0]


# ----------------------------------------------------------------------------
def load_known():
    if not os.path.exists(KNOWN):
        return {"findings": [], "fixed": []}
    with open(KNOWN) as f:
        return json.load(f)


def known_sigs(prop):
    return {f["signature"]: f for f in load_known().get("findings", []) if f["property"] == prop}


_worker_driver = None


def die_with_parent():
    """Linux: deliver SIGKILL to this process when its parent dies (no orphaned workers/servers)"""
    try:
        import ctypes
        import signal
        ctypes.CDLL(None).prctl(1, signal.SIGKILL)
    except Exception:
        pass


def _worker_init(driver_cls, flavours):
    global _worker_driver
    die_with_parent()
    _worker_driver = driver_cls()
    # build is already done by the parent; runners start lazily


def _worker_run(args):
    seed, tier = args
    try:
        return _worker_driver.run_seed(seed, tier)
    except Exception as e:  # harness bug: report, never a verdict about Janet
        import traceback
        return {"seed": seed, "harness_error": "%s\n%s" % (e, traceback.format_exc())}


def check_main(driver_cls, tier, budget_s, base_seed, workers=None, max_runs=None):
    """run a batch, minimise and report violations, write evidence; returns exit code"""
    t0 = time.time()
    driver = driver_cls()
    prop = driver.prop
    os.makedirs(EVIDENCE, exist_ok=True)
    os.makedirs(REPLAYS, exist_ok=True)
    flavours = getattr(driver, "flavours", ["plain"])
    for fl in flavours:
        jbuild.build(fl)
    workers = workers or min(16, os.cpu_count() or 4)
    known = known_sigs(prop)

    results = []
    harness_errors = []
    by_sig = {}
    seeds = (mix64(base_seed, prop, i) % (1 << 48) for i in range(10 ** 9))
    deadline = time.time() + budget_s   # the budget is exploration time; builds come on top
    with mp.Pool(workers, initializer=_worker_init, initargs=(driver_cls, flavours)) as pool:
        # bounded submission: at most 3 tasks per worker are outstanding, so the batch stops at the deadline
        # (plus the runs in flight) instead of draining a pre-filled queue
        import collections
        pending = collections.deque()
        submitted = 0

        def take(r):
            if "harness_error" in r:
                harness_errors.append(r)
                return
            results.append(r)
            for sig, detail in r["violations"]:
                by_sig.setdefault(sig, []).append((r["seed"], detail))
        for sd in seeds:
            if time.time() > deadline or (max_runs and submitted >= max_runs):
                break
            while len(pending) >= 3 * workers:
                # wait for the oldest outstanding task (results of the others are collected as they come up)
                take(pending.popleft().get())
                while pending and pending[0].ready():
                    take(pending.popleft().get())
            pending.append(pool.apply_async(_worker_run, ((sd, tier),)))
            submitted += 1
        while pending:
            take(pending.popleft().get())
    # ---- violations: minimise, classify, confirm ----
    exit_code = 0
    lines = []
    known_seen = []
    unconfirmed = []
    if os.environ.get("VERIF_VERBOSE"):
        slow = sorted(results, key=lambda r: -r["wall_us"])[:5]
        print("[check] batch done: %d runs in %.1fs; slowest runs (s): %s; signatures: %s" % (
            len(results), time.time() - t0, [(r["seed"], round(r["wall_us"] / 1e6, 2)) for r in slow],
            {k: len(v) for k, v in by_sig.items()}), file=sys.stderr, flush=True)
    for sig, hits in sorted(by_sig.items()):
        if os.environ.get("VERIF_VERBOSE"):
            print("[check] minimising", sig, file=sys.stderr, flush=True)
        seed0, detail0 = sorted(hits)[0]
        plan = driver.gen(seed0, tier)
        mplan, mres, nruns = minimise(driver, plan, sig)
        unstable = "san/" in sig or "/crash" in sig or any(sig.startswith(p) for p in getattr(driver, "unstable_prefixes", ()))
        if mplan is None:
            # did not reproduce in the parent process
            if unstable:
                # sanitizer reports depend on the sanitizer's own bounded history and on the contents of freed
                # memory: an unreproducible one is recorded, never reported as a violation
                lines.append("UNCONFIRMED: property=%s signature=%s seed=%d (sanitizer report did not recur on re-run)" % (prop, sig, seed0))
                unconfirmed.append({"signature": sig, "seed": seed0})
                continue
            # harness nondeterminism, not a verdict
            lines.append("HARNESS: property=%s signature=%s seed=%d did not reproduce on re-run" % (prop, sig, seed0))
            exit_code = max(exit_code, 2)
            continue
        # replay twice in fresh server processes: same history hash and same violation
        hashes = []
        for _ in range(2):
            close_runners()
            res, vs2 = driver.execute(mplan)
            ok = any(v.sig == sig for v in vs2)
            hashes.append((res.history_hash(), ok))
        if not (hashes[0] == hashes[1] and hashes[0][1]):
            if unstable and hashes[0][1] and hashes[1][1]:
                pass    # same violation both times; histories may differ after a memory error (garbage is read)
            elif unstable:
                lines.append("UNCONFIRMED: property=%s signature=%s seed=%d (sanitizer report not stable on replay)" % (prop, sig, seed0))
                unconfirmed.append({"signature": sig, "seed": seed0})
                continue
            else:
                lines.append("HARNESS: property=%s signature=%s seed=%d replay not deterministic" % (prop, sig, seed0))
                exit_code = max(exit_code, 2)
                continue
        name = "%s-%s.json" % (prop, hashlib.sha256(sig.encode()).hexdigest()[:10])
        path = os.path.join(REPLAYS, name)
        detail = [v.detail for v in vs2 if v.sig == sig][0]
        with open(path, "w") as f:
            json.dump({"property": prop, "seed": seed0, "signature": sig, "detail": detail, "plan": mplan,
                       "request": driver.render(mplan), "history_sha256": hashes[0][0],
                       "minimise_runs": nruns, "hits_in_batch": len(hits)}, f, indent=1)
        if sig in known:
            lines.append("KNOWN-FINDING: property=%s %s (%d hits; replay=%s)" % (prop, sig, len(hits), path))
            known_seen.append(sig)
        else:
            lines.append("VIOLATION property=%s replay=%s signature=%s detail=%s" % (prop, path, sig, detail[:300]))
            exit_code = max(exit_code, 1)
    close_runners()
    # ---- probes that must have fired ----
    probes = {}
    faults = {}
    outcomes = {}
    for r in results:
        for k, v in r["probes"].items():
            probes[k] = probes.get(k, 0) + v
        for k, v in r["faults"].items():
            faults[k] = faults.get(k, 0) + v
        outcomes[r["outcome"]] = outcomes.get(r["outcome"], 0) + 1
    extra_agg = driver.aggregate([r["extra"] for r in results]) if hasattr(driver, "aggregate") else {}
    for k, v in (extra_agg.get("probes") or {}).items():
        probes[k] = probes.get(k, 0) + v
    starved = [p for p in driver.required_probes if probes.get(p, 0) == 0]
    if results and starved and exit_code == 0 and (tier == "thorough" or len(results) > 200):
        lines.append("HARNESS: property=%s required probes never fired: %s" % (prop, ",".join(starved)))
        exit_code = 2
    if harness_errors:
        lines.append("HARNESS: %d runs raised in the driver; first: %s" % (len(harness_errors), harness_errors[0]["harness_error"][:2000]))
        exit_code = max(exit_code, 2)
    if not results:
        lines.append("HARNESS: no runs completed")
        exit_code = max(exit_code, 2)
    # ---- evidence ----
    wall = time.time() - t0
    distinct = len({r["cov"] for r in results if r["nontrivial"]})
    sample_plans = []
    for r in results[:3]:
        p = driver.gen(r["seed"], tier)
        sample_plans.append({"seed": r["seed"], "plan": p, "outcome": r["outcome"]})
    ev = {
        "property_id": prop, "tier": tier, "seed": base_seed, "level": driver.level,
        "coverage": {
            "evaluations": len(results), "distinct_nontrivial": distinct, "rule": driver.rule,
            "samples": sample_plans,
            "runs_per_hour": int(len(results) / wall * 3600) if wall > 0 else 0,
            "simulated_seconds_total": sum(r["sim_ns"] for r in results) / 1e9,
            "faults_fired": faults, "probes": probes, "outcomes": outcomes,
            "distinct_interleavings": len({r["sw"] for r in results if r["sw"]}),
            "distinct_histories": len({r["hist"] for r in results}),
            "components": driver.components, "known_findings_seen": known_seen, "unconfirmed_reports": unconfirmed,
            "workers": workers,
        },
        "assumptions": getattr(driver, "assumptions", []),
        "wall_s": round(wall, 2), "violations": sum(1 for l in lines if l.startswith("VIOLATION")),
    }
    ev["coverage"].update({k: v for k, v in extra_agg.items() if k != "probes"})
    with open(os.path.join(EVIDENCE, prop + ".json"), "w") as f:
        json.dump(ev, f, indent=1, default=str)
    for l in lines:
        print(l)
    print("%s %s: %d runs, %d distinct non-trivial, %.1fs, outcomes=%s, exit=%d" %
          (prop, tier, len(results), distinct, wall, outcomes, exit_code))
    return exit_code


def replay_main(driver_cls, path):
    driver = driver_cls()
    with open(path) as f:
        rp = json.load(f)
    plan = rp["plan"]
    jbuild.build(driver.flavour(plan))
    res, vs = driver.execute(plan)
    close_runners()
    print("outcome=%s history_sha256=%s (recorded %s)" % (res.outcome, res.history_hash(), rp.get("history_sha256")))
    for e in res.events[-40:]:
        print("   ", repr(e))
    hit = [v for v in vs if v.sig == rp["signature"]]
    if hit:
        print("VIOLATION property=%s replay=%s signature=%s detail=%s" % (rp["property"], path, hit[0].sig, hit[0].detail[:300]))
        return 1
    for v in vs:
        print("other violation:", v)
    print("not reproduced")
    return 0


def determinism_main(driver_cls, n, base_seed):
    """determinism gate: every seed is run twice in different worker processes, once in a pool of
    16 and once in a pool of 3; history hashes (and verdicts) must match pairwise"""
    driver = driver_cls()
    for fl in getattr(driver, "flavours", ["plain"]):
        jbuild.build(fl)
    seeds = [mix64(base_seed, driver.prop, "det", i) % (1 << 48) for i in range(n)]
    out = []
    for workers in (16, 3):
        with mp.Pool(workers, initializer=_worker_init, initargs=(driver_cls, [])) as pool:
            res = pool.map(_worker_run, [(s, "quick") for s in seeds], chunksize=1)
        out.append({r["seed"]: (r.get("hist"), tuple(sorted(v[0] for v in r.get("violations", []))), r.get("outcome"))
                    for r in res if "harness_error" not in r})
    bad = [s for s in seeds if out[0].get(s) != out[1].get(s)]
    san = [s for s in bad if (out[0].get(s) or ("", (), ""))[2] in ("sanitizer",) or str((out[0].get(s) or ("", (), ""))[2]).startswith("crash")]
    print("%s determinism: %d seeds x 2 runs (pools of 16 and 3): %d mismatches (%d of them in runs that ended in a memory error)"
          % (driver.prop, len(seeds), len(bad), len(san)))
    for s in bad[:10]:
        print("  seed", s, out[0].get(s), out[1].get(s))
    return 0 if len(bad) == len(san) else 2
