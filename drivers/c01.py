"""C01 - garbage collection is transparent; no use of freed or out-of-object memory.

One plan = one generated Janet program (targeted scenarios + random typed programs, see
c01_scen.py / c01_gen.py) run under several collector schedules.  The collector is a
background activity whose interleaving points are the interpreter safepoints; the simulator
owns the decision at each of them (knob `gc`).  Oracle (differential, no semantic model):
 (a) the transcript - sequence of (sim/ev ...) user events, which includes every value a unit
     returns or raises - is byte-identical under every schedule, and so is the run outcome;
 (b) no AddressSanitizer report / crash under any schedule, with fiber stacks relocated at
     every frame push (asan flavour = -DJANET_DEBUG + ASan)."""
import hashlib
import json
import os
import random
import re
import shutil
import time

from common import Driver, Violation, make_request, runner, known_sigs
import c01_scen
import c01_gen

# (flavour, gc knob).  The first entry is the reference.
ALL_SCHEDULES = [
    ["asan", "never"],
    ["asan", "every"],
    ["asan", "bern 0.5"],
    ["asan", "bern 0.1"],
    ["asan", "bern 0.02"],
    ["asan", "burst"],          # window filled in from the plan
    ["plain", "never"],
    ["plain", "every"],
]

HEX = re.compile(r"0x[0-9a-fA-F]{4,}")
UBSAN_MEMORY = re.compile(r"misaligned address|null pointer of type|within null pointer|out of bounds|not a valid value|"
                          r"insufficient space|does not point to an object")
IGNORED_KINDS = ("gcstat",)


# A systemic breakage (say, a root that is no longer marked) fails in most scenarios and, since
# the signature names scenario and faulting function, yields dozens of signatures, each of
# which check_main minimises and replays.  At most MAX_SIGNATURES distinct signatures are
# reported per check invocation (first come first served, shared between the workers through a
# scratch directory that the parent removes); further *new* ones are only counted (probe
# violations_beyond_signature_cap).  The exit status is unaffected: it is 1 as soon as one
# signature is reported.
MAX_SIGNATURES = 6


def _sig_dir(pid):
    """scratch directory of the check invocation whose parent process is `pid` (the start time
    of the process is part of the name: pids are reused)"""
    try:
        with open("/proc/%d/stat" % pid) as f:
            start = f.read().rsplit(")", 1)[1].split()[19]
    except (OSError, IndexError):
        start = "0"
    return os.path.join("/dev/shm" if os.path.isdir("/dev/shm") else "/tmp", "c01-sigs-%d-%s" % (pid, start))


def _cap_signatures(violations):
    d = _sig_dir(os.getppid())
    os.makedirs(d, exist_ok=True)
    kept, dropped = [], 0
    known = known_sigs("C01")
    for sig, detail in violations:
        if sig in known:
            kept.append((sig, detail))
            continue
        f = os.path.join(d, hashlib.sha256(sig.encode()).hexdigest()[:24])
        if os.path.exists(f):
            kept.append((sig, detail))
            continue
        if len(os.listdir(d)) >= MAX_SIGNATURES:
            dropped += 1
            continue
        try:
            os.close(os.open(f, os.O_WRONLY | os.O_CREAT | os.O_EXCL, 0o644))
        except FileExistsError:
            pass
        kept.append((sig, detail))
    return kept, dropped


def sched_name(s):
    return "%s-%s" % (s[0], s[1].split(" ")[0] + (s[1].split(" ")[1] if s[1].startswith("bern") else ""))


def split_forms(src):
    """split Janet source into its top-level forms (parens/brackets/braces, strings, long
    strings and comments understood)"""
    out, depth, i, n, start = [], 0, 0, len(src), None
    while i < n:
        c = src[i]
        if c == "#" and (start is None or depth >= 0):
            j = src.find("\n", i)
            i = n if j < 0 else j
            continue
        if c == '"':
            if start is None:
                start = i
            i += 1
            while i < n and src[i] != '"':
                i += 2 if src[i] == "\\" else 1
            i += 1
        elif c == "`":
            if start is None:
                start = i
            j = i
            while j < n and src[j] == "`":
                j += 1
            delim = src[i:j]
            k = src.find(delim, j)
            i = n if k < 0 else k + len(delim)
        elif c in "([{":
            if start is None:
                start = i
            depth += 1
            i += 1
        elif c in ")]}":
            depth -= 1
            i += 1
        elif c.isspace():
            i += 1
            if depth == 0 and start is not None:
                out.append(src[start:i].strip())
                start = None
            continue
        else:
            if start is None:
                start = i
            i += 1
            continue
        if depth == 0 and start is not None and i < n and src[i].isspace():
            out.append(src[start:i].strip())
            start = None
    if start is not None:
        out.append(src[start:].strip())
    return [f for f in out if f]


class C01(Driver):
    prop = "C01"
    level = "exploration"
    flavours = ["asan", "plain"]
    timeout_ms = 60000
    budgets = {"quick": 90, "thorough": 1200}
    rule = ("plan = one generated program (2-6 units: targeted heap-edge scenarios parameterised by the seed + random "
            "typed programs over the core language) x collector schedules {never (reference), every safepoint, "
            "Bernoulli 0.5/0.1/0.02, burst window} in the asan+JANET_DEBUG flavour + never (every plan) and every (a third of the plans) in the "
            "plain flavour; a plan is non-trivial when at least one forced collection happened and the reference transcript "
            "has events; distinct = distinct sha256(plan)")
    assumptions = [
        "generated programs do not observe the collector: no weak containers, no gccollect/gcinterval/statistics, "
        "no addresses (only the address-free canonical printer), no hashing/ordering of reference types, no "
        "finalizer-observable effects (every stream closed, every process waited on explicitly)",
        "collections happen only at interpreter safepoints (janet_collect is not called from C code paths while the "
        "interpreter is re-entered: janet_call holds the GC lock), so 'every safepoint' is the densest schedule",
        "hexadecimal addresses inside error texts (%v of a reference value in a core error message) are masked "
        "before transcripts are compared",
        "freed memory is detected by AddressSanitizer's quarantine (asan flavour) or by a crash / divergent "
        "transcript after reuse (plain flavour)",
    ]
    components = dict(Driver.components, **{"simulated": Driver.components["simulated"] + ["collector schedule (decision at every interpreter safepoint)"]})

    # ---- generation ----
    def gen(self, seed, tier):
        r = random.Random(seed)
        names = sorted(c01_scen.SCENARIOS)
        extra = [x for x in os.environ.get("C01_EXTRA", "").split(",") if x in c01_scen.OPTIONAL]
        only = [x for x in os.environ.get("C01_ONLY", "").split(",") if x]
        units = []
        nunits = r.randint(2, 6)
        w_random = r.choice([0.2, 0.35, 0.5])
        for i in range(nunits):
            if only:
                nm = r.choice(only)
                units.append(c01_gen.make(r) if nm == "random" else c01_scen.make(nm, r))
            elif r.random() < w_random:
                units.append(c01_gen.make(r))
            else:
                pool = names + extra * 4
                units.append(c01_scen.make(r.choice(pool), r))
        for u in units:
            u["body"] = [f for src in u["body"] for f in split_forms(src)]
        lo = r.choice([0, 0, 3, 10, 40, 120])
        burst = [lo, lo + r.choice([1, 2, 5, 20, 80])]
        knobs = {"seed": seed, "pipe_size": 4096, "clock_phase_ns": r.choice([0, 0, 137000]), "max_yields": 400000}
        # the plain flavour (no stack relocation, no quarantine: freed memory is really reused) always
        # runs `never` as the anchor; a third of the plans also run it under `every`
        scheds = [list(s) for s in ALL_SCHEDULES if s != ["plain", "every"] or r.random() < 0.34]
        return {"property": "C01", "knobs": knobs, "units": units, "burst": burst, "schedules": scheds}

    def __init__(self):
        self._t0 = time.time()      # in a pool worker: start of the exploration

    def run_seed(self, seed, tier):
        out = Driver.run_seed(self, seed, tier)
        if out["violations"]:
            out["violations"], dropped = _cap_signatures(out["violations"])
            if dropped:
                out["extra"] = dict(out["extra"] or {"runs": {}, "units": {}, "forced": 0, "spill": 0, "symrec": 0,
                                                     "errs": 0, "events": 0}, capped=dropped)
        hitlog = os.environ.get("C01_HITLOG")
        if hitlog and out["violations"]:
            try:    # first hit only (measures time to first detection in sensitivity runs)
                fd = os.open(hitlog, os.O_WRONLY | os.O_CREAT | os.O_EXCL, 0o644)
                os.write(fd, ("%.1f s after start: seed %d %s\n" % (time.time() - self._t0, seed, out["violations"][0][0])).encode())
                os.close(fd)
            except FileExistsError:
                pass
        return out

    # ---- rendering ----
    def program(self, plan):
        L = [c01_scen.PRELUDE.strip("\n")]
        for i, u in enumerate(plan["units"]):
            L.append("(defn u%d []\n  %s\n  nil)" % (i, "\n  ".join(f.replace("\n", "\n  ") for f in u["body"])))
        L.append("(def units [%s])" % " ".join('["%s" u%d]' % (u["name"], i) for i, u in enumerate(plan["units"])))
        L.append(r"""
(defn main []
  (each [name f] units
    (eprin "@@unit " name "\n")
    (sim/ev :begin name)
    (try (do (sim/gc :on) (f) (sim/gc :off))
         ([e] (sim/gc :off) (sim/ev :err name e)))
    (sim/ev :end name))
  (eprin "@@unit -\n")
  (sim/ev :gcstat (sim/gc :count))
  (sim/ev :done))
(ev/go main)""")
        return "\n".join(L)

    def request(self, plan, sched):
        k = dict(plan["knobs"])
        gc = sched[1]
        if gc == "burst":
            gc = "burst 0 %d %d" % tuple(plan["burst"])
        k["gc"] = gc
        return make_request(k, self.program(plan))

    def render(self, plan):
        return self.request(plan, plan["schedules"][0])

    def flavour(self, plan):
        return plan["schedules"][0][0]

    # ---- oracle ----
    @staticmethod
    def transcript(res):
        return [(e.kind, HEX.sub("0x?", e.payload)) for e in res.events
                if not e.kind.startswith("!") and e.kind not in IGNORED_KINDS]

    @staticmethod
    def unit_in_log(log, upto=None):
        text = log if upto is None else log[:upto]
        m = None
        for m in re.finditer(r"@@unit (\S+)", text):
            pass
        return m.group(1) if m else "-"

    @classmethod
    def sanitizer_facts(cls, log):
        """-> (tool, kind, function, unit, excerpt)"""
        pos = log.find("ERROR: AddressSanitizer")
        if pos >= 0:
            m = re.search(r"ERROR: AddressSanitizer: ([\w-]+)", log[pos:])
            kind = m.group(1) if m else "unknown"
            tool = "asan"
        else:
            pos = log.find("runtime error:")
            if pos < 0:
                return ("sanitizer", "unknown", "?", cls.unit_in_log(log), log[-600:])
            msg = log[pos + 15:pos + 200].split("\n")[0]
            # only reports about memory that is not (inside) a live object concern this property;
            # arithmetic UB (NULL+0, signed overflow, shifts, float casts ...) is not its subject
            tool = "ubsan" if UBSAN_MEMORY.search(msg) else "ubsan-other"
            kind = re.sub(r"0x[0-9a-f]+|\d+", "N", msg)
            kind = re.sub(r"[^A-Za-z]+", "-", kind).strip("-")[:60]
        fn = "?"
        for m in re.finditer(r"#\d+ 0x[0-9a-f]+ in (\S+) \S*/src/core/", log[pos:]):
            fn = m.group(1)
            break
        summ = re.search(r"SUMMARY: .*", log[pos:])
        stack = "\n".join(re.findall(r"^\s+#\d+ .*$", log[pos:], re.M)[:8])
        excerpt = (summ.group(0) if summ else log[pos:pos + 200]) + "\n" + stack
        return (tool, kind, fn, cls.unit_in_log(log, pos), excerpt)

    def execute(self, plan):
        scheds = plan["schedules"]
        results = []
        for s in scheds:
            results.append(runner(s[0]).run(self.request(plan, s), self.timeout_ms))
            if len(results) == 1 and results[0].outcome == "timeout":
                # the reference itself does not finish: a generator accident (programs must
                # terminate), nothing to compare - no verdict
                self._info = {"runs": {sched_name(s): 1}, "forced": 0, "units": {}, "events": 0, "spill": 0, "symrec": 0,
                              "errs": 0, "ref_timeout": 1}
                self._hits = []
                return results[0], []
        ref = results[0]
        vs = []
        seen = set()

        hits = []       # (unit name, schedule index) of every violation: guides the minimiser

        def add(sig, detail, unit="-", si=0):
            hits.append((unit, si))
            if sig not in seen:
                seen.add(sig)
                vs.append(Violation(sig, detail))

        ref_t = self.transcript(ref)
        inconclusive = False
        info = {"runs": {}, "forced": 0, "units": {}, "events": len(ref_t), "spill": 0, "symrec": 0, "errs": 0}
        for si, (s, res) in enumerate(zip(scheds, results)):
            nm = sched_name(s)
            info["runs"][nm] = info["runs"].get(nm, 0) + 1
            if res.outcome == "sanitizer":
                tool, kind, fn, unit, excerpt = self.sanitizer_facts(res.log)
                if tool == "ubsan-other":
                    # undefined arithmetic, not a memory error: this schedule gives no verdict
                    info["ubsan_other"] = info.get("ubsan_other", 0) + 1
                    if res is ref:
                        inconclusive = True
                    continue
                add("C01/%s/%s/in=%s/scenario=%s" % (tool, kind, fn, unit), "schedule=%s\n%s" % (nm, excerpt), unit, si)
                continue
            if res.outcome.startswith("crash") or res.outcome in ("harness", "unsupported") or res.outcome.startswith("exit:"):
                unit = self.unit_in_log(res.log)
                add("C01/%s/scenario=%s/schedule=%s" % (res.outcome.replace(":", "-sig"), unit, nm), (res.log or "")[-500:], unit, si)
                continue
            for e in res.events:
                if e.kind == "gcstat":
                    try:
                        info["forced"] += int(e.payload)
                    except ValueError:
                        pass
            if res is ref or inconclusive:
                continue
            if res.outcome != ref.outcome:
                unit = self.unit_in_log(res.log)
                add("C01/outcome-differs/%s-instead-of-%s/scenario=%s/schedule=%s"
                    % (res.outcome, ref.outcome, unit, nm), (res.log or "")[-500:], unit, si)
                continue
            t = self.transcript(res)
            if t != ref_t:
                i = 0
                while i < len(t) and i < len(ref_t) and t[i] == ref_t[i]:
                    i += 1
                unit = "-"
                for kind, payload in ref_t[:i + 1][::-1]:
                    if kind == "begin":
                        unit = payload.strip('"')
                        break
                a = ref_t[i] if i < len(ref_t) else ("<end of transcript>", "")
                b = t[i] if i < len(t) else ("<end of transcript>", "")
                add("C01/transcript-diverges/scenario=%s/schedule=%s" % (unit, nm),
                    "event #%d: reference(%s)=%s %s | %s=%s %s" % (i, sched_name(scheds[0]), a[0], a[1][:300], nm, b[0], b[1][:300]),
                    unit, si)
        # reach
        ended = {p.strip('"') for k, p in ref_t if k == "end"}
        collecting = any(s[1] != "never" for s in scheds)
        for u in plan["units"]:
            key = u["name"] if u["kind"] == "scenario" else "random"
            if u["name"] in ended:
                info["units"][key] = info["units"].get(key, 0) + 1
                if collecting and info["forced"] > 0:
                    for tg in u.get("tags", []):
                        if tg.startswith("deep:") and int(tg[5:]) > 1024:
                            info["spill"] += 1
                        if tg == "symrecycle":
                            info["symrec"] += 1
        info["errs"] = sum(1 for k, p in ref_t if k == "err")
        self._info = info
        self._hits = hits
        return ref, vs

    def check(self, plan, res):
        return []

    def nontrivial(self, plan, res):
        i = getattr(self, "_info", None)
        return bool(i and i["forced"] > 0 and i["events"] > 2)

    def extra(self, plan, res):
        return getattr(self, "_info", None)

    def aggregate(self, extras):
        shutil.rmtree(_sig_dir(os.getpid()), ignore_errors=True)     # parent: scratch of the signature cap
        runs, units = {}, {}
        p = {"forced_collections": 0, "mark_depth_spill": 0, "symbol_recycled": 0, "units_raising_an_error": 0,
             "transcript_events": 0}
        for x in extras:
            if not x:
                continue
            for k, v in x["runs"].items():
                runs[k] = runs.get(k, 0) + v
            for k, v in x["units"].items():
                units[k] = units.get(k, 0) + v
            p["forced_collections"] += x["forced"]
            p["mark_depth_spill"] += x["spill"]
            p["symbol_recycled"] += x["symrec"]
            p["units_raising_an_error"] += x["errs"]
            p["reference_run_timed_out"] = p.get("reference_run_timed_out", 0) + x.get("ref_timeout", 0)
            p["violations_beyond_signature_cap"] = p.get("violations_beyond_signature_cap", 0) + x.get("capped", 0)
            p["runs_ended_by_non_memory_ubsan_report"] = p.get("runs_ended_by_non_memory_ubsan_report", 0) + x.get("ubsan_other", 0)
            p["transcript_events"] += x["events"]
        for k, v in units.items():
            p["unit:" + k] = v
        return {"probes": p, "runs_per_schedule": runs, "units_completed": units}

    required_probes = ["forced_collections", "mark_depth_spill", "symbol_recycled", "unit:random"]

    # ---- shrinking ----
    SHRINK_SECONDS = 12

    def shrink(self, plan):
        # one minimisation = one seed; stop proposing candidates after SHRINK_SECONDS of it (a
        # systemic breakage yields one signature per scenario, each of which is minimised)
        key = plan["knobs"]["seed"]
        if getattr(self, "_shrink_key", None) != key:
            self._shrink_key, self._shrink_t0 = key, time.time()
        for q in self.shrink1(plan):
            if time.time() - self._shrink_t0 > self.SHRINK_SECONDS:
                return
            yield q

    def shrink1(self, plan):
        P = json.loads(json.dumps(plan))
        # biggest steps first, guided by where the last execution of this plan failed: only the
        # failing schedule (+ reference), only the failing unit
        hits = []
        for h in getattr(self, "_hits", []):
            if h not in hits and h[1] < len(P["schedules"]):
                hits.append(h)
        for unit, si in hits[:6]:
            idx = [i for i, u in enumerate(P["units"]) if u["name"] == unit]
            for sch in ([P["schedules"][si]], [P["schedules"][0], P["schedules"][si]]):
                if sch[0] == sch[-1] and len(sch) == 2:
                    continue
                if len(sch) >= len(P["schedules"]):
                    continue
                for ui in idx:
                    if len(P["units"]) > 1:
                        q = json.loads(json.dumps(P))
                        q["units"] = [P["units"][ui]]
                        q["schedules"] = sch
                        yield q
                q = json.loads(json.dumps(P))
                q["schedules"] = sch
                yield q
        # fewer schedules: reference + one other
        if len(P["schedules"]) > 2:
            for i in range(1, len(P["schedules"])):
                q = json.loads(json.dumps(P))
                q["schedules"] = [P["schedules"][0], P["schedules"][i]]
                yield q
        if len(P["schedules"]) == 2 and P["schedules"][0] == P["schedules"][1]:
            pass
        # a single schedule is enough for a sanitizer report / crash
        if len(P["schedules"]) == 2:
            q = json.loads(json.dumps(P))
            q["schedules"] = [P["schedules"][1]]
            yield q
        # drop whole units
        if len(P["units"]) > 1:
            for i in range(len(P["units"])):
                q = json.loads(json.dumps(P))
                del q["units"][i]
                yield q
        # drop statements: halves, then single forms (later forms first: fewer dangling names)
        for ui, u in enumerate(P["units"]):
            n = len(u["body"])
            size = n // 2
            while size >= 2:
                for start in range(0, n, size):
                    q = json.loads(json.dumps(P))
                    del q["units"][ui]["body"][start:start + size]
                    yield q
                size //= 2
            for fi in range(n - 1, -1, -1):
                q = json.loads(json.dumps(P))
                del q["units"][ui]["body"][fi]
                yield q
        if P["knobs"].get("clock_phase_ns"):
            q = json.loads(json.dumps(P))
            q["knobs"]["clock_phase_ns"] = 0
            yield q


DRIVER = C01
