"""C09 - images survive a restart: marshal/unmarshal (and disasm/asm) round trips.

The durability experiment with the marshalled image as the only durable state.  Phase 0 builds
the same values twice with the same deterministic code (`build`): instance A is continued
directly (reference transcript, events `ref`), instance B is marshalled into the simulated
store; the VM is torn down; phase 1.. run in a FRESH VM, unmarshal the image and CONTINUE the
program from it (events `img`), optionally marshalling again for a second and third restart.
The oracle compares the two transcripts operation by operation.  Second leg in phase 0:
(asm (disasm f)) for functions that capture nothing, compared by calling both on the same
arguments.  Generator and renderer live in c09_gen.py."""
import random
import re

from common import Driver, Violation, make_request
import c09_gen as G

HEX = re.compile(r"0x[0-9A-Fa-f]+")
TOKEN = re.compile(r'@?"(?:\\.|[^"\\])*"|#\d+=|#\d+#|@\[|@\{|\^|[()\[\]{}]|<[^<>]*>|[^\s()\[\]{}^]+')


def norm(s):
    s = HEX.sub("0x?", s)
    return s.replace("-nan", "nan")


def err_class(s):
    """id-free class of an error message: its constant prefix"""
    s = s.strip()
    if s.startswith(":err "):
        s = s[5:]
    s = s.strip('"')
    cut = len(s)
    for m in (", got", " got ", " (", " <", "<", " :", " for ", " at index", " 0x", '\\"', "\\x"):
        k = s.find(m)
        if 0 < k < cut:
            cut = k
    s = s[:cut]
    m = re.search(r"\d", s)
    if m and m.start() > 0:
        s = s[:m.start()]
    s = re.sub(r"[^A-Za-z]+", "-", s).strip("-").lower()
    return s[:48] or "error"


def tok_class(t):
    if t is None:
        return "end"
    if t.startswith("#"):
        return "reference-number"
    if t.startswith("@\""):
        return "buffer"
    if t.startswith('"'):
        return "string"
    if t.startswith(":"):
        return "keyword"
    if t.startswith("'"):
        return "symbol"
    if t.startswith("<"):
        return t.strip("<>").split(" ")[0]
    if t in ("(", ")", "[", "]"):
        return "tuple-delimiter"
    if t in ("{", "}", "@{", "@[", "^"):
        return {"^": "prototype"}.get(t, "container-delimiter")
    if re.match(r"^-?(\d|inf|nan)", t):
        return "number"
    return "atom"


OPEN = {"(": "tuple", "[": "bracket-tuple", "@[": "array", "{": "struct", "@{": "table"}
CLOSE = {")": "(", "]": "[", "}": "{"}


def classify(a, b):
    """id-free description of the first difference of two canonical texts"""
    ta, tb = TOKEN.findall(a), TOKEN.findall(b)
    i = 0
    while i < len(ta) and i < len(tb) and ta[i] == tb[i]:
        i += 1
    x = ta[i] if i < len(ta) else None
    y = tb[i] if i < len(tb) else None
    # enclosing container of the difference
    stack = []
    last_closed = "top"
    for t in ta[:i]:
        if t in OPEN:
            stack.append(t)
        elif t in CLOSE and stack:
            last_closed = OPEN[stack.pop()]
    inside = OPEN[stack[-1]] if stack else "top"
    prev = ta[i - 1] if i > 0 else ""
    cx, cy = tok_class(x), tok_class(y)
    if {x, y} <= {"(", "["} or {x, y} <= {")", "]"}:
        what = "tuple-bracket-flag"
    elif "prototype" in (cx, cy):
        what = "prototype"
    elif "reference-number" in (cx, cy):
        what = "sharing"
    elif cx == cy:
        what = cx
    elif "end" in (cx, cy) or "tuple-delimiter" in (cx, cy) or "container-delimiter" in (cx, cy):
        what = "length"
    else:
        what = "type"
    if prev == "^" or what == "prototype":
        return "what=prototype/of=%s" % last_closed
    return "what=%s" % what


def negzero_explains(a, b):
    ta, tb = TOKEN.findall(a), TOKEN.findall(b)
    if len(ta) != len(tb):
        return False
    diff = [(x, y) for x, y in zip(ta, tb) if x != y]
    return bool(diff) and all(x == "-0" and y == "0" for x, y in diff)


class C09(Driver):
    prop = "C09"
    level = "exploration"
    flavours = ["plain", "asan"]
    budgets = {"quick": 60, "thorough": 1200}
    timeout_ms = 20000
    rule = ("plan = one value graph (arrays, tables with prototype chains, weak tables, buffers, tuples with and without "
            "bracket flag, structs with prototypes; aliasing and cycles; numbers/strings at codec width boundaries) plus a seeded "
            "set of closures sharing variables, suspended fibers (live locals, pending defers, suspended children, closure "
            "environments on their stacks), channels with queued items, compiled PEGs, boxed 64-bit integers, RNGs; 1-3 "
            "restarts; five lookup-table modes; a run is non-trivial when an image was unmarshalled in a fresh VM and continued, "
            "or an asm(disasm) copy was called; distinct = distinct sha256(plan)")
    assumptions = [
        "reference = the same continuation run in the first VM on a second instance built by the same deterministic code; "
        "the continuation never depends on table iteration order, addresses, hashes, the default RNG, gensym, root-env "
        "dynamics or the clock",
        "what is documented as not marshalable (C functions without registry entry, fibers with C frames, alive fibers, "
        "streams) is only required not to crash",
        "funcdef shape is compared on behaviour-relevant fields of disasm (bytecode, constants, arities, slotcount, "
        "environments, nested defs, name), not on source maps",
    ]
    components = {
        "real": ["interpreter", "compiler", "collector", "marshal/unmarshal", "assembler/disassembler", "PEG compiler and VM",
                 "int types", "channels", "fibers", "symbol cache (fresh per VM)"],
        "simulated": ["image store surviving VM teardown (sim/persist)", "collector schedule", "clock"],
        "stub": [],
    }
    required_probes = ["cycle_marshalled", "shared_env_closures", "fiber_with_child_restored", "channel_items_restored",
                       "peg_restored", "int64_restored", "lookup_table_used", "asm_roundtrip_checked"]

    # ---- generation / rendering ----
    def gen(self, seed, tier):
        return G.gen_plan(random.Random(seed), seed, tier)

    def render(self, plan):
        return make_request(plan["knobs"], G.render(plan))

    def shrink(self, plan):
        return G.shrink(plan)

    # ---- oracle ----
    @staticmethod
    def phase_of(res):
        ph = 0
        for e in res.events:
            if e.kind == "!phase":
                ph = int(e.payload)
        return ph

    def crash_sig(self, plan, res):
        ph = self.phase_of(res)
        out = res.outcome
        log = res.log or ""
        if out == "sanitizer" or "AddressSanitizer" in log or "runtime error:" in log:
            m0 = re.search(r"(\S+):\d+:\d+: runtime error:", log)
            if m0 and "/sim/" in m0.group(1):
                # undefined behaviour inside the harness's own printer: not a statement about Janet
                raise RuntimeError("UBSan report in harness code: %s" % log[:300])
            m = re.search(r"ERROR: AddressSanitizer: ([\w-]+)", log)
            kind = m.group(1) if m else None
            if not kind:
                m = re.search(r"runtime error: ([a-z -]+)", log)
                kind = "ub-" + m.group(1).strip().replace(" ", "-")[:40] if m else "report"
            fn = "?"
            for m in re.finditer(r"#\d+ 0x[0-9a-f]+ in (\w+) [^\n]*src/core/(\w+)\.c", log):
                fn = "%s:%s" % (m.group(2), m.group(1))
                break
            return Violation("C09/crash/sanitizer/%s/in=%s" % (kind, fn), "phase %d: %s" % (ph, log[-1500:]))
        if out.startswith("crash"):
            # (the history of a crashed run is not flushed, so the phase is not known reliably)
            return Violation("C09/crash/signal-%s" % out.split(":")[1], "last phase seen %d; log tail: %s" % (ph, log[-600:]))
        if out == "timeout":
            # (killed: the history is not flushed, the phase is unknown)
            return Violation("C09/run/timeout", "last phase seen %d; log tail: %s" % (ph, log[-600:]))
        return Violation("C09/run/%s/phase=%s" % (out.split(":")[0], "first-vm" if ph == 0 else "after-restart"),
                         "phase %d; log tail: %s" % (ph, log[-600:]))

    def check(self, plan, res):
        vs = []
        if res.outcome != "ok":
            return [self.crash_sig(plan, res)]
        if "AddressSanitizer" in (res.log or "") or "runtime error:" in (res.log or ""):
            return [self.crash_sig(plan, res)]
        ops = {o["id"]: o for o in plan["ops"]}
        ref, img, order = {}, {}, []
        saves, loaded, load_err, done = {}, set(), {}, set()
        asmf, asmg, asm_err = {}, {}, {}
        nc = {}
        for e in res.events:
            k = e.kind
            if k in ("ref", "img"):
                seg, idx, rest = e.payload.split(" ", 2)
                key = int(idx)
                (ref if k == "ref" else img)[key] = norm(rest)
                if k == "ref":
                    order.append(key)
            elif k == "save":
                s, rest = e.payload.split(" ", 1)
                saves[int(s)] = rest
            elif k == "loaded":
                loaded.add(int(e.payload))
            elif k == "load-error":
                s, rest = e.payload.split(" ", 1)
                load_err[int(s)] = rest
            elif k == "phase-done":
                done.add(int(e.payload))
            elif k in ("asmf", "asmg"):
                i, j, rest = e.payload.split(" ", 2)
                (asmf if k == "asmf" else asmg)[(int(i), int(j))] = norm(rest)
            elif k in ("ncref", "ncimg"):
                nc[k] = norm(e.payload)
            elif k == "asm-error":
                i, rest = e.payload.split(" ", 1)
                asm_err[int(i)] = rest
        K = plan["restarts"]
        if 0 not in done:
            raise RuntimeError("phase 0 did not complete (generator bug?): %s" % (res.log or "")[-800:])
        missing_ref = [o["id"] for o in plan["ops"] if o["id"] not in ref]
        if missing_ref:
            raise RuntimeError("reference transcript incomplete: ops %r; log: %s" % (missing_ref[:5], (res.log or "")[-500:]))
        # marshalling the root must work: everything in it is marshalable by construction
        for s in sorted(saves):
            if not saves[s].startswith(":ok"):
                vs.append(Violation("C09/marshal/error/%s/%s" % ("first-image" if s == 0 else "re-marshal-after-restart", err_class(saves[s])),
                                    "marshal of the root failed in phase %d: %s" % (s, saves[s][:300])))
                return vs
        for s in sorted(load_err):
            vs.append(Violation("C09/unmarshal/error/%s" % err_class(load_err[s]), "unmarshal failed in phase %d: %s" % (s, load_err[s][:300])))
            return vs
        for s in range(1, K + 1):
            if s not in done:
                vs.append(Violation("C09/run/phase-incomplete/after-restart", "phase %d ended early; log: %s" % (s, (res.log or "")[-600:])))
                return vs
        # transcripts
        seen = set()
        for key in order:
            o = ops.get(key)
            if o is None:
                continue
            a, b = ref.get(key), img.get(key)
            if a == b:
                continue
            if b is None:
                sig = "C09/transcript/operation-missing-after-restart"
                detail = "op %d (%s) has no result after the restart" % (key, o["e"][:120])
            else:
                oka, okb = a.startswith(":ok"), b.startswith(":ok")
                cls = o["cls"]
                if plan_has_negzero(plan) and negzero_explains(a, b):
                    sig = "C09/shape/differs/number-negative-zero-loses-sign"
                elif oka != okb:
                    sig = "C09/%s/differs/%s" % (cls, "error-only-after-restart" if oka else "error-only-in-reference")
                    if not okb:
                        sig += "/" + err_class(b[5:])
                elif cls.startswith("shape") or cls.startswith("sharing") or cls.startswith("int64") or cls.startswith("lookup"):
                    sig = "C09/%s/differs/%s" % (cls, classify(a, b))
                else:
                    sig = "C09/%s/differs" % cls
                it = next((x for x in plan["items"] if x["id"] == o["it"]), None)
                detail = "item kind %s, op %d seg %d: %s\n reference: %s\n restored : %s" % (
                    it["k"] if it else "-", key, o["seg"], o["e"][:200], a[:400], b[:400])
            if sig not in seen:
                seen.add(sig)
                vs.append(Violation(sig, detail))
            break   # later differences are mostly consequences of the first one
        # value without sharing marshalled with the no-cycles flag
        if "ncref" in nc and nc.get("ncimg") != nc["ncref"] and not vs:
            b = nc.get("ncimg")
            if b is None:
                vs.append(Violation("C09/no-cycles/missing-after-restart", "no result for the no-cycles image"))
            elif b.startswith(":err"):
                vs.append(Violation("C09/no-cycles/error/%s" % err_class(b), b[:300]))
            else:
                vs.append(Violation("C09/no-cycles/shape/differs/%s" % classify(nc["ncref"], b),
                                    "marshal with no-cycles flag\n reference: %s\n restored : %s" % (nc["ncref"][:400], b[:400])))
        # asm/disasm leg
        for i in sorted(asm_err):
            vs.append(Violation("C09/asm/error/%s" % err_class(asm_err[i]), "asm(disasm f) raised for %s: %s" % (plan["asm"][i]["src"][:120], asm_err[i][:200])))
        for key in sorted(asmf):
            a, b = asmf[key], asmg.get(key)
            if a != b:
                sig = "C09/asm/behaviour-differs"
                if sig not in seen:
                    seen.add(sig)
                    fn = plan["asm"][key[0]]
                    vs.append(Violation(sig, "%s called with (%s)\n original : %s\n assembled: %s" % (fn["src"][:200], fn["calls"][key[1]], a[:300], (b or "<missing>")[:300])))
        return vs

    # ---- evidence ----
    def nontrivial(self, plan, res):
        return any(e.kind in ("loaded", "asmg") for e in res.events)

    def extra(self, plan, res):
        loaded = sum(1 for e in res.events if e.kind == "loaded")
        asm = sum(1 for e in res.events if e.kind == "asmg")
        neg_err = sum(1 for e in res.events if e.kind == "neg" and ":err" in e.payload)
        neg_ok = sum(1 for e in res.events if e.kind == "neg" and ":marshalled" in e.payload)
        tags = set()
        for it in plan["items"]:
            tags.update(it.get("tags", []))
        cyc, shr = G.graph_facts(plan["items"][0]["nodes"])
        kinds = sorted({it["k"] for it in plan["items"]})
        x = {"loaded": loaded, "asm": asm, "neg_err": neg_err, "neg_ok": neg_ok, "kinds": kinds, "restarts": plan["restarts"]}
        if loaded:
            x["p"] = {
                "cycle_marshalled": int(cyc), "shared_structure_marshalled": int(shr),
                "shared_env_closures": int("shared_env" in tags), "fiber_with_child_restored": int("fiber_child" in tags),
                "fiber_suspended_restored": int("fiber_suspended" in tags),
                "closure_env_on_fiber_stack_restored": int("env_on_stack" in tags),
                "closure_env_on_alive_stack_marshalled": int(bool(plan.get("live_env")) and "build_env" in tags),
                "channel_items_restored": int("channel_items" in tags), "peg_restored": int("peg" in tags),
                "int64_restored": int("int64" in tags), "lookup_table_used": int(plan["dict"] != "none"),
                "custom_lookup_entries_used": int(plan["dict"] in ("env", "custom", "layered") and "ext" in tags),
                "second_restart": int(loaded >= 2), "third_restart": int(loaded >= 3),
                "collector_forced": int(bool(plan["knobs"].get("gc"))),
                "no_cycles_flag_image": int(bool(plan.get("nocycles"))),
            }
        return x

    def aggregate(self, extras):
        p = {}
        kinds = {}
        for x in extras:
            if not x:
                continue
            for k, v in (x.get("p") or {}).items():
                p[k] = p.get(k, 0) + v
            p["asm_roundtrip_checked"] = p.get("asm_roundtrip_checked", 0) + x["asm"]
            p["unmarshalable_value_refused"] = p.get("unmarshalable_value_refused", 0) + x["neg_err"]
            p["unmarshalable_value_accepted"] = p.get("unmarshalable_value_accepted", 0) + x["neg_ok"]
            if x["loaded"]:
                for k in x["kinds"]:
                    kinds[k] = kinds.get(k, 0) + 1
        return {"probes": p, "item_kinds_restored": kinds}


def plan_has_negzero(plan):
    def walk(nd):
        for c in nd.get("items", []):
            yield c
        for k, v in nd.get("kv", []):
            yield k
            yield v
    for nd in plan["items"][0]["nodes"]:
        for c in walk(nd):
            if c.get("a") == "(* -1 0)":
                return True
    return False


DRIVER = C09
