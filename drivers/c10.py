"""C10 - loading untrusted bytes or bytecode cannot corrupt memory.

A stored image (marshal output of a seed corpus built by Janet itself) is read back under STORAGE
FAULTS - tear@k, flip@k->b, splice, dup/drop block, graft, re-encoding of one parsed field, random
strings - and handed to `unmarshal` without the unsafe flag; second leg: the disassembly of valid
functions with one field mutated (and random well-typed descriptions) is handed to `asm`.  One jsim
child handles a batch of cases; whatever comes back is exercised under a hostile collector schedule
with ASan/UBSan.  Errors are fine; sanitizer reports, signals, aborts, and hangs of the loader are not.
"""
import hashlib
import json
import os
import random
import re

from common import Driver, Violation, make_request, runner, mix64, Event, Result
import c10_image as img
from c10_janet import CORPUS_SRC, PRELUDE, ASM_SOURCES

# resource guard for hostile images (read by the ASan runtime of every jsim child): an image must not be able
# to take the machine down; the verdicts that depend on it carry their own signature class.  (No rss limit:
# that starts a background thread in the fork server, and forking a threaded ASan process can deadlock.)
_GUARD = "max_allocation_size_mb=256"
if _GUARD not in os.environ.get("ASAN_OPTIONS", ""):
    os.environ["ASAN_OPTIONS"] = (os.environ.get("ASAN_OPTIONS", "") + ":" + _GUARD).strip(":")

FLIP_SET = sorted(set([0x00, 0x01, 0x7F, 0x80, 0xBF, 0xC0, 0xC7] + list(range(0xC8, 0xE9)) +
                      [0xE9, 0xF0, 0xF1, 0xF8, 0xF9, 0xFE, 0xFF]))
FLIP_OFFSETS_PER_CHUNK = 3
TEAR_OFFSETS_PER_CHUNK = 150
FIELDS_PER_CHUNK = 2
ALL_MASK = 511
MAX_RERUNS = 16
SHRINK_BUDGET = 10


def flip_values(orig):
    out = [b for b in FLIP_SET if b != orig]
    for b in ((orig + 1) & 255, (orig - 1) & 255):
        if b not in out and b != orig:
            out.append(b)
    return out


def jstr(b):
    """Janet string literal for bytes"""
    out = ['"']
    for c in b:
        if 48 <= c <= 57 or 65 <= c <= 90 or 97 <= c <= 122 or c in (32, 45, 47, 58, 95):
            out.append(chr(c))
        else:
            out.append("\\x%02X" % c)
    out.append('"')
    return "".join(out)


def apply_patches(base, patches):
    out = bytearray()
    pos = 0
    n = len(base)
    for off, dl, hx in patches:
        off = min(n, off)
        if off > pos:
            out += base[pos:off]
        out += bytes.fromhex(hx)
        pos = min(n, max(pos, off + dl))
    if pos < n:
        out += base[pos:]
    return bytes(out)


def norm_patches(ps):
    """sort by offset, drop overlaps (the Janet side applies them left to right)"""
    out = []
    end = -1
    for off, dl, hx in sorted(ps, key=lambda p: (p[0], p[1])):
        if off < end:
            continue
        out.append([off, dl, hx])
        end = off + dl
    return out


# ------------------------------------------------------------------------------------------------
# asm leg: value pools (Janet literals; the case list is a quoted constant)

A_INTS = ["0", "1", "2", "3", "-1", "127", "128", "254", "255", "256", "257", "32767", "32768", "65535", "65536",
          "8388607", "8388608", "-8388608", "-8388609", "16777215", "16777216", "2147483647", "-2147483648",
          "2147483646", "2147483648", "4294967296", "-32768", "-32769", "-128", "-129"]
A_ODD = ["nil", "true", "false", "1.5", "-0.5", "1e100", "-1e100", ":lbl", ":nolabel", ":upvalue", ":number", "x", "nosuch",
         "ret", '"s"', '""', "()", "(1)", "(1 2)", "(1 2 3)", "(1 2 3 4 5)", "(ret 0)", "(:a)", "[]", "[0 1]", "@[]", "@[1 2]",
         "@{}", "{:a 1}", '@"b"', "(:number :string)", "(:nosuchtype)", "(x y)", "((1))"]
A_KEYS = [":arity", ":min-arity", ":max-arity", ":vararg", ":structarg", ":slotcount", ":name", ":source", ":slots",
          ":constants", ":closures", ":defs", ":bytecode", ":sourcemap", ":symbolmap", ":environments"]
A_SRCMAP = ["()", "(1)", "(1 2)", "(1 2 3)", "(1 :a)", "(:a 1)", "[1 2]", "1", "nil", '"ab"', "(1.5 2)", "(2147483647 2147483647)",
            "(-1 -1)", "@[1 2]", "(1e100 1)"]
A_SYMMAP = ["()", "(0)", "(0 1)", "(0 1 2)", "(0 1 2 x)", "(0 1 2 3)", "(:upvalue 0 0 x)", "(:upvalue 255 255 x)", "(:upvalue 0)",
            "(0 1 999999 x)", "(-1 -1 -1 x)", "(1e10 2 3 x)", "(0 1 2 :kw)", "(2147483647 2147483647 2147483647 x)", "1", "nil",
            "(0 1.5 2 x)", "(0 1 2.5 x)", '(0 1 2 "s")', "[0 100 255 y]", "(:upvalue 1 5 k)", "(:upvalue -1 -1 z)"]
A_DEFS = ["1", "nil", "()", "{}", "@{}", "{:bytecode [(retn)]}", "{:bytecode [(ret 0)] :arity 1}", "{:bytecode []}",
          "{:bytecode [(ldu 0 0 0) (ret 0)] :arity 0}", "{:bytecode [(ldu 0 1 0) (ret 0)] :environments [-1 0]}",
          "{:bytecode [(setu 0 0 255) (retn)] :environments [-1]}", "{:bytecode [(clo 0 0) (ret 0)] :defs [{:bytecode [(retn)]}]}",
          "{:name inner2 :bytecode [(ldu 0 outer 0) (ret 0)]}", "{:bytecode [(ldu 0 nosuch 0) (ret 0)]}",
          "{:bytecode [(retn)] :environments [0]}", "{:bytecode [(retn)] :environments [5 -1 2147483647]}",
          "{:bytecode [(retn)] :environments [1.5]}", "{:bytecode [(retn)] :environments [-2]}"]
A_ENVS = ["-1", "0", "1", "2", "255", "256", "-2", "2147483647", "-2147483648", "1.5", "nil", ":a", "x", "()"]
A_SLOTNAMES = ["x", "y", "z", "acc", "self"]
A_OPS = sorted(img.OP_NAMES)
A_TYPES = [":nil", ":number", ":string", ":tuple", ":callable", ":indexed", ":dictionary", ":abstract", ":function", ":fiber"]
TERMINALS = ["(retn)", "(ret 0)", "(err 0)", "(tcall 0)", "(jmp 0)", "(jmp -1)"]


def a_val(r):
    return r.choice(A_INTS) if r.random() < 0.6 else r.choice(A_ODD)


def a_operand(kind, r, ctx):
    """one operand of a random instruction; mostly in range, sometimes on/over a boundary"""
    hostile = r.random() < ctx["hostile"]
    if kind == "S":
        if hostile:
            return r.choice(["255", "256", "254", "65535", "65536", "-1", str(ctx["slots"]), str(ctx["slots"] + 1), "x", "nosuch",
                             "1.5", ":a", "nil", "16777215", "16777216"])
        if ctx["slotnames"] and r.random() < 0.15:
            return r.choice(ctx["slotnames"])
        return str(r.randrange(max(1, ctx["slots"])))
    if kind == "I":
        return r.choice(["0", "1", "-1", "127", "-128", "128", "-129", "255", "256", "32767", "-32768", "32768", "65535", "65536", "1.5", "nil"]) \
            if hostile else str(r.randrange(-5, 20))
    if kind == "U":
        return r.choice(["0", "255", "256", "-1", "65535", "65536", "1.5"]) if hostile else str(r.randrange(0, 12))
    if kind == "L":
        if hostile:
            return r.choice([":nolabel", "0", "-1", "1", "100", "-100", "8388607", "-8388608", "8388608", "32767", "-32768", "32768",
                             str(ctx["n"]), str(-ctx["n"]), "x", "nil"])
        return r.choice(ctx["labels"]) if ctx["labels"] and r.random() < 0.7 else str(r.randrange(-3, 4))
    if kind == "T":
        return r.choice(["(:nosuch)", "65535", "65536", "-1", "()", "x", ":nosuch"]) if hostile else \
            r.choice(A_TYPES + ["(%s %s)" % (r.choice(A_TYPES), r.choice(A_TYPES)), "7"])
    if kind == "D":
        return r.choice(["0", "1", "255", "65535", "65536", "-1", "nosuch", str(ctx["ndefs"]), ":a"]) if hostile else \
            (str(r.randrange(max(1, ctx["ndefs"]))) if not ctx["defnames"] or r.random() < 0.6 else r.choice(ctx["defnames"]))
    if kind == "C":
        return r.choice(["255", "65535", "65536", "-1", str(ctx["nconst"]), str(ctx["nconst"] + 1), "x"]) if hostile else \
            str(r.randrange(max(1, ctx["nconst"])))
    if kind == "E":
        if hostile:
            return r.choice(["0", "1", "2", "255", "256", "-1", "nosuch", ctx["name"], "1.5"])
        return r.choice(ctx["envnames"]) if ctx["envnames"] and r.random() < 0.6 else str(r.randrange(0, 2))
    return "0"



def a_instr(r, ctx):
    name = r.choice(A_OPS)
    typ = img.INSTR_TYPES[img.OP_NAMES[name]]
    # the letters of the type name are the operand kinds (S slot, I/U immediate, L label, T type, D funcdef,
    # C constant, E environment); "0" = no operands
    return "(%s)" % " ".join([name] + [a_operand(k, r, ctx) for k in typ.replace("0", "")])


def a_desc(r, depth, parents):
    """random well-typed assembly description with boundary operands"""
    name = "f%d" % depth if r.random() < 0.8 else r.choice(["outer", "x", "f0"])
    arity = r.choice([0, 0, 1, 2, 3, 3, 255, 2147483647 if img.HUGE_VALUES else 65536]) if r.random() < 0.1 else r.randrange(4)
    slots = arity % 300 + r.randrange(1, 6)
    ndefs = r.randrange(0, 3) if depth < 2 else 0
    nconst = r.randrange(0, 4)
    n = r.randrange(2, 12)
    labels = [":l%d" % i for i in range(r.randrange(0, 3))]
    slotnames = r.sample(A_SLOTNAMES, r.randrange(0, 3))
    defs = [a_desc(r, depth + 1, parents + [name]) for _ in range(ndefs)]
    ctx = {"hostile": r.choice([0.0, 0.05, 0.15, 0.4]), "slots": slots, "labels": labels, "slotnames": slotnames,
           "ndefs": ndefs, "defnames": ["f%d" % (depth + 1)] if ndefs else [], "nconst": nconst, "envnames": parents,
           "name": name, "n": n}
    code = [a_instr(r, ctx) for _ in range(n)]
    for lb in labels:
        code.insert(r.randrange(len(code) + 1), lb)
    code.append(r.choice(TERMINALS) if r.random() < 0.9 else a_instr(r, ctx))
    parts = [":name %s" % name, ":bytecode [%s]" % " ".join(code)]
    if r.random() < 0.9:
        parts.append(":arity %d" % arity)
    if r.random() < 0.3:
        parts.append(":min-arity %s" % r.choice(["0", str(arity), "-1", str(arity + 1), "2147483647", "-2147483648"]))
    if r.random() < 0.3:
        parts.append(":max-arity %s" % r.choice(["0", str(arity), str(arity + 2), "2147483647", "-1", str(max(0, arity - 1))]))
    if r.random() < 0.3:
        parts.append(":vararg true")
    if r.random() < 0.1:
        parts.append(":structarg true")
    if nconst or r.random() < 0.2:
        parts.append(":constants [%s]" % " ".join(r.choice(["1", '"c"', ":k", "(1 2)", "@[]", "nil", "{:a 1}", "1e300"]) for _ in range(nconst)))
    if slotnames:
        parts.append(":slots [%s]" % " ".join(s if r.random() < 0.7 else "(%s q)" % s for s in slotnames))
    if defs:
        parts.append("%s [%s]" % (r.choice([":defs", ":closures"]), " ".join(defs)))
    if r.random() < 0.25:
        parts.append(":environments [%s]" % " ".join(r.choice(A_ENVS) for _ in range(r.randrange(0, 4))))
    if r.random() < 0.2:
        k = len(code) - len(labels) if r.random() < 0.8 else r.randrange(0, 5)
        parts.append(":sourcemap [%s]" % " ".join(r.choice(A_SRCMAP if r.random() < 0.3 else ["(1 2)"]) for _ in range(k)))
    if r.random() < 0.2:
        parts.append(":symbolmap [%s]" % " ".join(r.choice(A_SYMMAP) for _ in range(r.randrange(0, 4))))
    return "{%s}" % " ".join(parts)


# ------------------------------------------------------------------------------------------------
# reading the log of a run

MARK_RE = re.compile(r"^@([LXD])(\d+)([+-]?)$", re.M)
STAT_RE = re.compile(r"^@S (.*)$", re.M)
FRAME_RE = re.compile(r"#\d+ 0x[0-9a-f]+ in (\S+) (\S*src/core/\w+\.[ch])(?::(\d+))?")
ASAN_RE = re.compile(r"ERROR: AddressSanitizer: ([^\n]*)")
UBSAN_RE = re.compile(r"src/core/(\w+\.[ch]):\d+:\d+: runtime error: ([^\n]*)")
OOM_RE = re.compile(r"(\S*src/core/(\w+\.c)):(\d+) - janet out of memory")
ABORT_RE = re.compile(r"janet internal error at line \d+ in file \S*?(\w+\.[ch]): ([^\n]*)")
ARITH_UB_RE = re.compile(r"^(left-shift|shift-exponent|\w+-is-outside-the-range-of-representable)[^/]*/|^signed-integer-overflow/(run_vm@JOP_(ADD|SUB|MUL|DIV|SHIFT|MOD|REM)\w*|cfun_it_\w+)$|/cfun_it_\w+$")
ALLOC_WRAPPERS = {"janet_gcalloc", "janet_malloc", "janet_calloc", "janet_realloc", "janet_smalloc", "janet_scalloc",
                  "janet_srealloc", "janet_abstract_begin", "janet_abstract", "janet_abstract_begin_threaded",
                  "janet_abstract_threaded", "janet_unmarshal_abstract", "janet_unmarshal_abstract_threaded", "janet_free",
                  "janet_sfree", "janet_string_begin", "janet_string", "janet_tuple_begin", "janet_tuple_n", "janet_struct_begin",
                  "janet_array", "janet_array_weak", "janet_array_impl", "janet_buffer", "janet_buffer_init_impl",
                  "janet_buffer_init", "janet_table", "janet_table_init_impl", "janet_table_init", "janet_memalloc_empty",
                  "janet_memalloc_empty_local", "janet_symbol", "janet_keyword", "janet_symbol_gen", "__wrap_malloc",
                  "__wrap_calloc", "__wrap_realloc", "__wrap_free"}
_func_cache = {}


def function_at(path, line):
    """name of the C function that contains path:line (for messages that carry only __FILE__/__LINE__)"""
    key = (path, line)
    if key in _func_cache:
        return _func_cache[key]
    name = os.path.basename(path)
    try:
        with open(path, errors="replace") as f:
            lines = f.read().split("\n")
        hdr = re.compile(r"^[A-Za-z_][\w\s\*]*?\b(\w+)\s*\($|^[A-Za-z_][\w\s\*]*?\b(\w+)\s*\([^;]*$")
        for i in range(min(line, len(lines)) - 1, -1, -1):
            ln = lines[i]
            if ln and ln[0] not in " \t#}/*{" and "(" in ln and not ln.rstrip().endswith(";"):
                m = hdr.match(ln)
                if m:
                    name = m.group(1) or m.group(2)
                    break
    except OSError:
        pass
    _func_cache[key] = name
    return name


_label_cache = {}
LABEL_RE = re.compile(r"^\s*(?:case\s+(\w+)\s*:|VM_OP\((\w+)\))")
FUNC_HDR_RE = re.compile(r"^[A-Za-z_].*\)\s*\{?\s*$")


def label_at(path, line):
    """nearest preceding `case X:` / `VM_OP(X)` label inside the same function ('' if none): tells apart the many
    things that happen inside run_vm, peg_rule, unmarshal_one ... without using line numbers"""
    key = (path, line)
    if key in _label_cache:
        return _label_cache[key]
    out = ""
    try:
        with open(path, errors="replace") as f:
            lines = f.read().split("\n")
        for i in range(min(line, len(lines)) - 1, max(-1, line - 400), -1):
            ln = lines[i]
            m = LABEL_RE.match(ln)
            if m:
                out = m.group(1) or m.group(2)
                break
            if ln.startswith("}") or (ln and ln[0] not in " \t#/*" and FUNC_HDR_RE.match(ln)):
                break
    except OSError:
        pass
    _label_cache[key] = out
    return out


def read_log(log):
    """-> dict(idx, phase, done, stats, loaded={case id: True/False for every case whose load returned})"""
    last = None
    loaded = {}
    done = False
    for m in MARK_RE.finditer(log):
        tag, i = m.group(1), int(m.group(2))
        if tag == "D":
            done = True
            last = ("D", None)
        else:
            last = (tag, i)
            if tag == "X":
                loaded[i] = m.group(3) == "+"
    stats = {}
    m = STAT_RE.search(log)
    if m:
        for kv in m.group(1).split():
            k, _, v = kv.partition("=")
            try:
                stats[k] = int(v)
            except ValueError:
                pass
    return {"phase": last[0] if last else None, "idx": last[1] if last else None, "done": done, "stats": stats,
            "loaded": loaded}


def norm_msg(s):
    s = re.sub(r"0x[0-9a-fA-F]+", "N", s)
    s = re.sub(r"-?\d+", "N", s)
    s = re.sub(r"'[^']*'", "T", s)
    s = re.sub(r"[^A-Za-z]+", "-", s).strip("-")
    return s[:60]


def sanitizer_facts(log):
    """-> (class, kind, top function inside src/core, text excerpt)"""
    cls, kind = "asan", "unknown"
    pos = 0
    overrun = False
    m = ASAN_RE.search(log)
    u = UBSAN_RE.search(log)
    if u and (not m or u.start() < m.start()):
        cls, kind, pos = "ubsan", norm_msg(u.group(2).split(":")[0]), u.start()
    elif m:
        pos = m.start()
        head = m.group(1)
        kind = head.split(" ")[0]
        if kind == "attempting":
            kind = norm_msg(" ".join(head.split(" ")[:3]))
        if kind == "requested":
            kind = "allocation-size-too-big"
        acc = re.search(r"^(READ|WRITE) of size", log[pos:], re.M)
        rw = acc.group(1).lower() if acc else ("read" if "caused by a READ" in log else
                                               "write" if "caused by a WRITE" in log else "")
        if kind in ("heap-buffer-overflow", "SEGV", "heap-use-after-free", "unknown-crash", "use-after-poison",
                    "global-buffer-overflow", "stack-buffer-overflow", "stack-buffer-underflow", "BUS"):
            # one wild pointer shows up as an overflow, a use after free or a plain fault depending on where it happens
            # to land; the finer kind stays in the detail
            overrun = kind == "heap-buffer-overflow"
            kind = "invalid-" + (rw or "access")
        elif rw:
            kind += "-" + rw
        a = ABORT_RE.search(log)
        if kind == "ABRT":
            cls = "abort"
            kind = norm_msg(a.group(2)) if a else "abort"
    elif "rss limit" in log.lower():
        cls, kind = "resource", "rss-limit"
    f = FRAME_RE.search(log, pos)
    top = f.group(1) if f else "unknown"
    if f and f.group(3):
        lab = label_at(f.group(2), int(f.group(3)))
        if lab:
            top += "@" + lab
    # which object was overrun / used after free: the function that allocated it (first frame above the allocator
    # wrappers).  Only when the access is next to or inside that object: a wild pointer lands near arbitrary objects.
    loc = re.search(r"is located (\d+) bytes (?:to the right of|to the left of|after|before|inside of)", log[pos:])
    a = re.search(r"^(?:previously )?allocated by thread", log[pos:], re.M)
    if cls == "asan" and overrun and a and loc and int(loc.group(1)) <= 64:
        for g in FRAME_RE.finditer(log, pos + a.start()):
            if g.group(1) not in ALLOC_WRAPPERS:
                top += "/obj=" + g.group(1)
                break
    return cls, kind, top, log[pos:pos + 3000]


# ------------------------------------------------------------------------------------------------

class C10(Driver):
    prop = "C10"
    level = "fault_enumeration"
    flavours = ["asan"]
    timeout_ms = 10000
    budgets = {"quick": 90, "thorough": 1800}
    rule = ("plan = one seed image (marshal output of a Janet-built corpus) x a batch of explicit storage faults "
            "(tear@k, flip@k->b, splice, dup/drop, graft, one re-encoded field of the parsed image, random bytes) loaded with "
            "unmarshal (no unsafe flag), or one disassembled function x a batch of single-field mutations / random well-typed "
            "descriptions loaded with asm; every accepted value is exercised (print, hash, compare, freeze, re-marshal, call, "
            "resume, peg/match, channel take, collect) under a forced-collection schedule with ASan+UBSan; a run is non-trivial "
            "when at least one case was accepted and exercised; distinct = distinct sha256(plan). thorough tier: tear and flip "
            "are enumerated over every offset of every seed image (see `exhaustive`).")
    assumptions = [
        "storage faults are applied to whole images before loading (the loader sees one contiguous byte string)",
        "a loaded function may loop or block forever; that is not a memory error: the batch is killed by the wall-clock "
        "timeout (or ends as deadlock/livelock) and the remaining cases are re-run without the killing case",
        "core functions that leave the process or touch the outside world (os/*, ffi/*, net/*, file/*, ev/*, debug/*) are "
        "removed from the lookup table given to unmarshal and the run is sandboxed, so an image cannot name them",
        "resource guards: single allocations above 256 MiB fail (max_allocation_size_mb); an out-of-memory exit inside "
        "unmarshal/asm is reported (signature class exit/out-of-memory), outside it (loaded code allocating) it is not",
    ]
    components = {
        "real": ["marshal/unmarshal", "bytecode verifier", "assembler/disassembler", "interpreter", "collector", "fibers",
                 "PEG engine", "channels", "pretty printer"],
        "simulated": ["image store faults (tear, flip, splice, dup/drop, field re-encoding)", "collector schedule", "clock"],
        "stub": [],
    }
    required_probes = ["loaded_ok", "function_called", "fiber_resumed", "peg_loaded_and_matched", "asm_accepted_and_called",
                       "verify_rejected"]

    def __init__(self):
        self._corpus = None
        self._parsed = {}
        self._enum = None
        self._enum_index = None
        self._killer = {}

    # ---- corpus -------------------------------------------------------------------------------
    def corpus(self):
        """[(name, bytes, uses_dict)] - built by Janet itself, once per process"""
        if self._corpus is None:
            res = runner("asan").run(make_request({"seed": 0}, CORPUS_SRC), 60000)
            out = []
            for e in res.events:
                if e.kind == "img":
                    name, hx, d = e.payload.split(" ")
                    out.append((name.strip('"'), bytes.fromhex(hx.strip('"')), d == "1"))
            if res.outcome != "ok" or len(out) < 20:
                raise RuntimeError("corpus build failed: %s\n%s" % (res.outcome, res.log[-2000:]))
            self._corpus = out
        return self._corpus

    def image(self, name):
        for n, b, d in self.corpus():
            if n == name:
                return b, d
        raise KeyError(name)

    def parsed(self, name):
        if name not in self._parsed:
            b, _ = self.image(name)
            fields, ok, extents = img.parse_full(b)
            weights = [img.field_weight(f) for f in fields]
            self._parsed[name] = (fields, weights, [e for e in extents if e[1] - e[0] >= 2])
        return self._parsed[name]

    # ---- enumeration (thorough tier) -------------------------------------------------------------
    def enum_chunks(self):
        if self._enum is None:
            ch = []
            for name, b, _ in self.corpus():
                for a in range(0, len(b) + 1, TEAR_OFFSETS_PER_CHUNK):
                    ch.append(("tear", name, a, min(len(b) + 1, a + TEAR_OFFSETS_PER_CHUNK)))
            for name, b, _ in self.corpus():
                hot = [i for i, f in enumerate(self.parsed(name)[0]) if img.is_hot(f)]
                for a in range(0, len(hot), FIELDS_PER_CHUNK):
                    ch.append(("field", name, a, min(len(hot), a + FIELDS_PER_CHUNK)))
            for name, b, _ in self.corpus():
                for a in range(0, len(b), FLIP_OFFSETS_PER_CHUNK):
                    ch.append(("flip", name, a, min(len(b), a + FLIP_OFFSETS_PER_CHUNK)))
            self._enum = ch
        return self._enum

    def enum_lookup(self, seed):
        """check_main hands out seeds mix64(base, prop, i): the first len(enum_chunks) of them are the enumeration"""
        if self._enum_index is None:
            base = int(os.environ.get("VERIF_SEED", "1"))
            # chunk ci is handed out as seed number ci + ci // 7: every eighth plan is a random one (asm leg, splices,
            # grafts), so that a thorough run cut short still exercises every leg
            self._enum_index = {mix64(base, self.prop, ci + ci // 7) % (1 << 48): ci for ci in range(len(self.enum_chunks()))}
        return self._enum_index.get(seed)

    def enum_plan(self, ci, seed):
        kind, name, a, b = self.enum_chunks()[ci]
        data, dct = self.image(name)
        r = random.Random(seed)
        cases = []
        if kind == "field":
            fields = self.parsed(name)[0]
            hot = [f for f in fields if img.is_hot(f)]
            for f in hot[a:b]:
                cases += self.sweep_cases(f, data, dct)
        for off in (range(a, b) if kind != "field" else ()):
            if kind == "tear":
                cases.append({"k": "tear", "b": 0, "lk": 1 if dct else off & 1, "mask": ALL_MASK, "aseed": off % 97,
                              "p": [[off, len(data) - off, ""]], "d": "tear@%d" % off})
            else:
                for v in flip_values(data[off]):
                    cases.append({"k": "flip", "b": 0, "lk": 1 if dct else v & 1, "mask": ALL_MASK, "aseed": (off + v) % 97,
                                  "p": [[off, 1, "%02x" % v]], "d": "flip@%d:%02x->%02x" % (off, data[off], v)})
        return {"property": "C10", "leg": "unmarshal", "bases": [name], "cases": cases,
                "enum": {"chunk": ci, "kind": kind, "image": name, "from": a, "to": b},
                "knobs": {"seed": seed, "gc": r.choice(["bern 0.003", "bern 0.01", "bern 0.01", "bern 0.03"]), "explicit": 1,
                          "faults": []}}

    # ---- generation ------------------------------------------------------------------------------
    def gen(self, seed, tier):
        if tier == "thorough":
            ci = self.enum_lookup(seed)
            if ci is not None:
                return self.enum_plan(ci, seed)
        r = random.Random(seed)
        # the collector schedule is active for the whole batch; a collection costs ~1.5 ms under ASan (the core
        # environment is always live), so the denser the schedule the smaller the batch
        gc, scale = r.choices([("bern 0.003", 1.0), ("bern 0.01", 1.0), ("bern 0.03", 0.6), ("bern 0.2", 0.15), ("every", 0.05)],
                              [3, 4, 1.5, 0.5, 0.2])[0]
        knobs = {"seed": seed, "gc": gc, "explicit": 1, "faults": []}   # no simulator faults: the faults are in the plan
        if r.random() < 0.2:
            return self.gen_asm(r, knobs, scale)
        if r.random() < 0.04:
            return self.gen_nest(r, knobs)
        return self.gen_unmarshal(r, knobs, scale)

    NEST = {
        "array": (bytes([209, 1]), b"\x01"), "tuple": (bytes([210, 1, 0]), b"\x01"), "table-value": (bytes([211, 1, 0]), b"\x01"),
        "table-key": (bytes([211, 1]), b"\x01"), "table-proto": (bytes([212, 0]), bytes([211, 0])), "struct-value": (bytes([213, 1, 0]), b"\x01"),
        "channel": (b"\xD9\xDA\x00\x00\x00\x01\x01", b"\x01"),
    }

    def gen_nest(self, r, knobs):
        """one kind of container nested in itself far beyond the recursion guard: loads or raises, never overflows the C stack"""
        name = "small"
        data, dct = self.image(name)
        cases = []
        for kind in r.sample(sorted(self.NEST), 3):
            pre, leaf = self.NEST[kind]
            depth = r.choice([200, 1100, 20000, 60000])
            if kind == "channel":
                blob = b"\xD9\xCF\x0Ccore/channel\x00\x00\x01\x01" + pre * depth + leaf
            elif kind == "table-key":
                blob = pre * depth + leaf + b"\x00" * depth      # each table: count 1, key = nested table, value 0
            else:
                blob = pre * depth + leaf
            cases.append({"k": "field", "b": 0, "lk": 0, "mask": 1 | 2 | 256, "aseed": depth % 997, "p": [[0, len(data), blob.hex()]],
                          "d": "%s nested %d deep" % (kind, depth)})
        return {"property": "C10", "leg": "unmarshal", "bases": [name], "cases": cases, "knobs": dict(knobs, gc="bern 0.003"), "nest": 1}

    def gen_unmarshal(self, r, knobs, scale=1.0):
        corp = self.corpus()
        w = [3.0 if any(t in n for t in ("fiber", "peg", "closure", "nested", "chan", "user-env", "varargs", "named", "thunk"))
             else (0.4 if n in ("longstr", "keywords", "buffers", "core-subset") else 1.0) for n, _, _ in corp]
        name = r.choices([c[0] for c in corp], w)[0]
        other = r.choices([c[0] for c in corp], w)[0]
        data, dct = self.image(name)
        odata, _ = self.image(other)
        fields, weights, extents = self.parsed(name)
        _, _, oextents = self.parsed(other)
        n = len(data)
        pegdata = [f for f in fields if f.role == "peg.rule" and f.ctx.get("data")]
        if pegdata and r.random() < 0.5:
            # every rule reference of a PEG, pointed at every run of data words (literal bytes, set bitmaps): the
            # verifier must refuse each - whatever kind of rule holds the reference
            cases = []
            for f in pegdata:
                for j, d in enumerate(f.ctx["data"]):
                    cases.append({"k": "field", "b": 0, "lk": 1 if dct else j & 1, "mask": ALL_MASK, "aseed": (f.off + j) % 997,
                                  "p": [[f.off, f.size, img.enc_int(d).hex()]], "d": "%s@%d:%r -> data word %d" % (f.role, f.off, f.val, d)})
            r.shuffle(cases)
            return {"property": "C10", "leg": "unmarshal", "bases": [name], "cases": cases[:300], "knobs": knobs, "sweep": 1}
        hot = [f for f in fields if img.is_hot(f)]
        if hot and r.random() < 0.4:
            return self.gen_sweep(r, knobs, scale, name, data, dct, hot)
        profile = r.choice([
            {"field": 6, "flip": 2, "tear": 0.5, "splice": 1, "dup": 0.5, "drop": 0.5, "graft": 1, "random": 0.3, "field2": 1, "ins": 0.3},
            {"field": 10, "field2": 3, "graft": 1},
            {"flip": 6, "flip2": 2, "tear": 1, "field": 1},
            {"splice": 3, "dup": 2, "drop": 2, "graft": 3, "ins": 1, "field": 2},
            {"random": 5, "semi": 5, "field": 1},
            {"field": 5, "fieldtear": 2, "flip": 1},
        ])
        kinds = sorted(profile)
        kw = [profile[k] for k in kinds]
        ncases = max(4, int(r.choice([100, 150, 200, 300]) * scale))
        cases = []
        for _ in range(ncases):
            k = r.choices(kinds, kw)[0]
            c = self.make_case(k, r, data, odata, fields, weights, extents, oextents)
            c["lk"] = 1 if r.random() < (0.9 if dct else 0.5) else 0
            c["mask"] = r.choice([ALL_MASK, ALL_MASK & ~256]) if r.random() < 0.9 else r.randrange(512) | 16
            c["aseed"] = r.randrange(1000)
            cases.append(c)
        return {"property": "C10", "leg": "unmarshal", "bases": [name], "cases": cases, "knobs": knobs}

    def sweep_cases(self, f, data, dct):
        out = []
        for j, v in enumerate(img.sweep_values(f, len(data))):
            out.append({"k": "field", "b": 0, "lk": 1 if dct else j & 1, "mask": ALL_MASK if j % 3 else ALL_MASK & ~256,
                        "aseed": (f.off + j) % 997, "p": [[f.off, f.size, v.hex()]],
                        "d": "%s@%d:%r->%s" % (f.role, f.off, f.val, v.hex())})
        if f.role == "envref.index" and "onstack" in f.ctx:
            # a second, separate on-stack environment on the same fiber with a geometry of its own, in place of the
            # reference to the frame's environment: it matches no frame (or a frame that already has another one)
            e = f.ctx["onstack"]
            a, b = f.ctx["site"]
            j = len(out)
            for off in sorted({e["offset"], e["offset"] - 1, e["offset"] + 1, e["offset"] + 4, 4, e["offset"] + e["length"]}):
                for ln in sorted({e["length"], e["length"] + 1, max(0, e["length"] - 1), 1, 250}):
                    if off <= 0:
                        continue
                    blob = img.enc_int(off) + img.enc_int(ln) + bytes([img.LB_REFERENCE]) + img.enc_int(e["fiber"])
                    j += 1
                    out.append({"k": "field", "b": 0, "lk": 1 if dct else j & 1, "mask": ALL_MASK, "aseed": (a + j) % 997,
                                "p": [[a, b - a, blob.hex()]],
                                "d": "envref@%d -> separate on-stack env {offset %d length %d} on fiber #%d (was %d/%d)"
                                     % (a, off, ln, e["fiber"], e["offset"], e["length"])})
        if f.role == "fiber.flags" and "toppc" in f.ctx:
            # status and program counter changed together: every status that can still be resumed (or is said to be
            # finished) with the top frame's pc moved towards and past the end of its function
            po, ps, pv = f.ctx["toppc"]
            j = len(out)
            for st in (3, 9, 10, 11, 12, 13, 4, 8):
                for dpc in (1, 2, 3, 4, 5, 6, 8, 12):
                    j += 1
                    fv = (f.val & ~0x3F0000) | (st << 16)
                    out.append({"k": "field", "b": 0, "lk": 1 if dct else j & 1, "mask": ALL_MASK, "aseed": (f.off + j) % 997,
                                "p": [[f.off, f.size, img.enc_int(fv).hex()], [po, ps, img.enc_int(pv + dpc).hex()]],
                                "d": "fiber.flags@%d status -> %d and top frame pc %d -> %d" % (f.off, st, pv, pv + dpc)})
        if f.role == "frameenv.site":
            # the frame names, as its own environment, an on-stack environment that says it lives on another fiber
            a, b = f.ctx["site"]
            j = len(out)
            for other in f.ctx["others"][:3]:
                for off, ln in ((f.ctx["stack"], f.ctx["slots"]), (f.ctx["stack"], f.ctx["slots"] + 200), (f.ctx["stack"] + 1, f.ctx["slots"])):
                    blob = img.enc_int(off) + img.enc_int(ln) + bytes([img.LB_REFERENCE]) + img.enc_int(other)
                    j += 1
                    out.append({"k": "field", "b": 0, "lk": 1 if dct else j & 1, "mask": ALL_MASK, "aseed": (a + j) % 997,
                                "p": [[a, b - a, blob.hex()]],
                                "d": "frame env@%d of fiber #%d -> on-stack env {offset %d length %d} of fiber #%d"
                                     % (a, f.ctx["fiber"], off, ln, other)})
        if f.role == "func.envcount" and "envs" in f.ctx:
            # the count and the payload changed together: fewer environments with the last ones removed, one more
            # with a reference to an earlier environment / a detached empty one appended
            envs = f.ctx["envs"]
            n = len(envs)
            j = len(out)
            for k in range(1, n + 1):
                ps = [[f.off, f.size, img.enc_int(n - k).hex()], [envs[n - k][0], envs[-1][1] - envs[n - k][0], ""]]
                out.append({"k": "field", "b": 0, "lk": 1 if dct else (j + k) & 1, "mask": ALL_MASK, "aseed": (f.off + j + k) % 997,
                            "p": norm_patches(ps), "d": "func.envcount@%d:%d->%d with the last %d environment(s) removed" % (f.off, n, n - k, k)})
            end = f.ctx["envs_end"]
            for extra, what in ((bytes([img.LB_FUNCENV_REF]) + img.enc_int(0), "envref 0"), (img.enc_int(0) + img.enc_int(0), "empty detached env")):
                ps = [[f.off, f.size, img.enc_int(n + 1).hex()], [end, 0, extra.hex()]]
                out.append({"k": "field", "b": 0, "lk": 1 if dct else 0, "mask": ALL_MASK, "aseed": (f.off + j) % 997,
                            "p": norm_patches(ps), "d": "func.envcount@%d:%d->%d with %s appended" % (f.off, n, n + 1, what)})
        return out

    def gen_sweep(self, r, knobs, scale, name, data, dct, hot):
        """one image, a few trusted fields, every candidate value of each"""
        want = max(20, int(r.choice([150, 200, 300]) * scale))
        cases = []
        w = [img.field_weight(f) for f in hot]
        picked = set()
        while len(cases) < want and len(picked) < len(hot):
            f = r.choices(hot, w)[0]
            if f.off in picked:
                continue
            picked.add(f.off)
            cases += self.sweep_cases(f, data, dct)
        return {"property": "C10", "leg": "unmarshal", "bases": [name], "cases": cases[:want + 80], "knobs": knobs, "sweep": 1}

    def make_case(self, k, r, data, odata, fields, weights, extents, oextents):
        n = len(data)

        def field_patch():
            f = r.choices(fields, weights)[0]
            vals = img.field_values(f, r, n)
            v = r.choice(vals) if vals else b"\xff"
            return [f.off, f.size, v.hex()], "%s@%d:%r->%s" % (f.role, f.off, f.val if f.enc != "real" else "real", v.hex())

        if k == "field" and fields:
            p, d = field_patch()
            return {"k": "field", "b": 0, "p": [p], "d": d}
        if k == "field2" and fields:
            p1, d1 = field_patch()
            p2, d2 = field_patch()
            return {"k": "field", "b": 0, "p": norm_patches([p1, p2]), "d": d1 + " + " + d2}
        if k == "fieldtear" and fields:
            p, d = field_patch()
            t = r.randrange(p[0] + p[1], n + 1) if p[0] + p[1] <= n else n
            return {"k": "field", "b": 0, "p": norm_patches([p, [t, n - t, ""]]), "d": d + " + tear@%d" % t}
        if k == "flip":
            off = r.randrange(n)
            v = r.choice(flip_values(data[off]))
            return {"k": "flip", "b": 0, "p": [[off, 1, "%02x" % v]], "d": "flip@%d:%02x->%02x" % (off, data[off], v)}
        if k == "flip2":
            ps = []
            for _ in range(r.randrange(2, 4)):
                off = r.randrange(n)
                ps.append([off, 1, "%02x" % r.choice(flip_values(data[off]))])
            return {"k": "flip", "b": 0, "p": norm_patches(ps), "d": "flips"}
        if k == "tear":
            t = r.randrange(n + 1)
            return {"k": "tear", "b": 0, "p": [[t, n - t, ""]], "d": "tear@%d" % t}
        if k == "splice":
            src = data if r.random() < 0.5 else odata
            ln = r.choice([1, 2, 3, 4, 8, 16, 32, 64, 128])
            a = r.randrange(len(src))
            b = r.randrange(n)
            blk = src[a:a + ln]
            return {"k": "splice", "b": 0, "p": [[b, len(blk), blk.hex()]], "d": "splice(%d,%d,%d)" % (a, b, len(blk))}
        if k == "dup":
            ln = r.choice([1, 2, 4, 8, 16, 32])
            a = r.randrange(n)
            blk = data[a:a + ln]
            return {"k": "dup", "b": 0, "p": [[a + len(blk), 0, blk.hex()]], "d": "dup(%d,%d)" % (a, len(blk))}
        if k == "drop":
            ln = r.choice([1, 2, 4, 8, 16, 32])
            a = r.randrange(n)
            return {"k": "drop", "b": 0, "p": [[a, min(ln, n - a), ""]], "d": "drop(%d,%d)" % (a, ln)}
        if k == "ins":
            a = r.randrange(n + 1)
            blk = bytes(r.choice(FLIP_SET) if r.random() < 0.7 else r.randrange(256) for _ in range(r.choice([1, 1, 2, 4, 8])))
            return {"k": "splice", "b": 0, "p": [[a, 0, blk.hex()]], "d": "insert(%d,%s)" % (a, blk.hex())}
        if k == "graft" and extents:
            # a whole value replaced by another whole value of the same or another image (type / reference confusion)
            dst = r.choice(extents)
            pool = extents if (r.random() < 0.5 or not oextents) else oextents
            sdata = data if pool is extents else odata
            s = r.choice(pool)
            blk = sdata[s[0]:s[1]][:600]
            return {"k": "splice", "b": 0, "p": [[dst[0], dst[1] - dst[0], blk.hex()]],
                    "d": "graft(%s@%d <- %s@%d)" % (dst[2], dst[0], s[2], s[0])}
        if k == "semi":
            ln = r.choice([1, 2, 3, 4, 6, 8, 12, 16, 24, 33, 64])
            blk = bytes(r.choice(img.LEAD_BYTES) if r.random() < 0.4 else (r.randrange(8) if r.random() < 0.5 else r.randrange(256))
                        for _ in range(ln))
            return {"k": "random", "b": -1, "p": [[0, 0, blk.hex()]], "d": "semi-random %d bytes" % ln}
        ln = r.choice([1, 2, 4, 8, 16, 33, 64, 128, 300])
        blk = bytes(r.randrange(256) for _ in range(ln))
        return {"k": "random", "b": -1, "p": [[0, 0, blk.hex()]], "d": "random %d bytes" % ln}

    def gen_asm(self, r, knobs, scale=1.0):
        bi = r.randrange(len(ASM_SOURCES))
        ncases = max(4, int(r.choice([60, 100, 150]) * scale))
        style = r.choice(["mutate", "mutate", "random", "mixed"])
        cases = []
        for _ in range(ncases):
            if style == "random" or (style == "mixed" and r.random() < 0.5):
                cases.append({"k": "asm-random", "b": -1, "m": ["(:raw %s)" % a_desc(random.Random(r.getrandbits(48)), 0, [])]})
            else:
                ms = [self.asm_mutation(r)]
                if r.random() < 0.15:
                    ms.append(self.asm_mutation(r))
                cases.append({"k": "asm-field", "b": 0, "m": ms})
            cases[-1].update({"lk": 0, "mask": r.choice([ALL_MASK, ALL_MASK & ~256]) if r.random() < 0.9 else r.randrange(512) | 16,
                              "aseed": r.randrange(1000)})
        return {"property": "C10", "leg": "asm", "bases": [bi], "cases": cases, "knobs": knobs}

    def asm_mutation(self, r):
        path = "[%s]" % " ".join(str(r.randrange(3)) for _ in range(r.choice([0, 0, 0, 1, 1, 2])))
        u = r.random()
        i = r.randrange(64)
        if u < 0.12:      # opcode name
            v = r.choice(A_OPS) if r.random() < 0.8 else r.choice(["nosuch", ":kw", "1", '"ret"', "nil", "()", "RET", "ret "])
            return "(:instr %s %d 0 %s)" % (path, i, v)
        if u < 0.42:      # one operand: slot / constant index / jump / closure / environment index
            return "(:instr %s %d %d %s)" % (path, i, r.randrange(1, 4), a_val(r))
        if u < 0.52:      # tuple shapes
            j = r.choice([-1, -2, -3])
            v = a_val(r) if j != -3 else r.choice(["()", "(ret)", "(ret 0 0)", "1", '"s"', "nil", "[]", "@[ret 0]", "(nosuch 1)",
                                                   "(jmp)", "(jmp :nolabel)", "(ldc 0)", "(clo 0)", "(ldu 0 0)", "(0 1 2)"])
            return "(:instr %s %d %d %s)" % (path, i, j, v)
        if u < 0.60:
            ctx = {"hostile": 0.3, "slots": 4, "labels": [], "slotnames": [], "ndefs": 1, "defnames": [], "nconst": 1,
                   "envnames": [], "name": "f", "n": 8}
            return "(:insert %s %d %s)" % (path, i, a_instr(r, ctx))
        if u < 0.65:
            return "(:drop %s %d)" % (path, i if r.random() < 0.5 else 0)
        if u < 0.80:      # top-level keys
            key = r.choice(A_KEYS)
            v = a_val(r)
            if key == ":arity" and not img.HUGE_VALUES and re.fullmatch(r"\d{8,}", v):
                v = "65536"     # the arity becomes the frame size when the function is called (see c10_image.HUGE_VALUES)
            return "(:key %s %s %s)" % (path, key, v)
        if u < 0.85:
            return "(:elem %s :constants %d %s)" % (path, i, a_val(r))
        if u < 0.89:
            return "(:elem %s :environments %d %s)" % (path, i, r.choice(A_ENVS))
        if u < 0.93:
            return "(:elem %s :sourcemap %d %s)" % (path, i, r.choice(A_SRCMAP))
        if u < 0.97:
            return "(:elem %s :symbolmap %d %s)" % (path, i, r.choice(A_SYMMAP))
        return "(:elem %s %s %d %s)" % (path, r.choice([":defs", ":closures"]), i, r.choice(A_DEFS))

    # ---- rendering -------------------------------------------------------------------------------
    def render(self, plan, subset=None):
        cases = plan["cases"]
        ids = range(len(cases)) if subset is None else subset
        L = [PRELUDE]
        if plan["leg"] == "unmarshal":
            L.append("(def bases [%s])" % " ".join(jstr(self.image(n)[0]) for n in plan["bases"]))
            L.append("(def origs (map (fn [b] (try (unmarshal b lk) ([e] nil))) bases))")
            L.append("(def cases '[")
            for i in ids:
                c = cases[i]
                L.append("[%d %d %d %d %d %s]" % (i, c["b"], c["lk"], c["mask"], c["aseed"],
                                                  " ".join("%d %d %s" % (p[0], p[1], jstr(bytes.fromhex(p[2]))) for p in c["p"])))
            L.append("])")
            L.append("(defn main [] (sandbox :all) (sim/gc :on) (each c cases (run-unmarshal-case c bases origs)) (finish))")
        else:
            L.append("(def origs [%s])" % " ".join(ASM_SOURCES[b] for b in plan["bases"]))
            L.append("(def descs (map disasm origs))")
            L.append("(def cases '[")
            for i in ids:
                c = cases[i]
                L.append("[%d %d 0 %d %d [%s]]" % (i, c["b"], c["mask"], c["aseed"], " ".join(c["m"])))
            L.append("])")
            L.append("(defn main [] (sandbox :all) (sim/gc :on) (each c cases (run-asm-case c descs origs)) (finish))")
        L.append("(ev/go main)")
        return make_request(plan["knobs"], "\n".join(L))

    # ---- oracle ----------------------------------------------------------------------------------
    def case_text(self, plan, i):
        """human readable description of case i incl. the exact bytes handed to the loader"""
        c = plan["cases"][i]
        if plan["leg"] == "unmarshal":
            base = self.image(plan["bases"][c["b"]])[0] if c["b"] >= 0 else b""
            data = apply_patches(base, c["p"])
            return "case %d [%s] %s image=%s lookup=%d bytes(%d)=%s" % (
                i, c["k"], c.get("d", ""), plan["bases"][c["b"]] if c["b"] >= 0 else "-", c["lk"], len(data), data.hex())
        return "case %d [%s] base=%s mutations=%s" % (i, c["k"], ASM_SOURCES[plan["bases"][c["b"]]] if c["b"] >= 0 else "-",
                                                      " ".join(c["m"]))

    def judge(self, plan, res, info):
        """-> (verdict, Violation|None); verdict in ok | benign | violation"""
        out = res.outcome
        phase, idx = info["phase"], info["idx"]
        log = res.log or ""
        if out == "harness":
            raise RuntimeError("jsim harness failure: %s" % log[-500:])
        if out == "ok":
            if not info["done"]:
                raise RuntimeError("plan ended without finishing its cases (harness script error?):\n%s" % log[-3000:])
            return "ok", None
        if phase is None or idx is None:
            if phase == "D":
                # all cases ran; something went wrong during teardown (collector sweeping what the cases left behind)
                idx = -1
            else:
                raise RuntimeError("run died before the first case (%s):\n%s" % (out, log[-3000:]))
        where = "load" if phase == "L" else ("teardown" if phase == "D" else "exercise")
        leg = plan["leg"]
        fault = plan["cases"][idx]["k"].split("-")[0] if idx >= 0 else "any"
        fault = {"dup": "splice", "drop": "splice"}.get(fault, fault)
        tail = "/phase=%s/fault=%s" % (where, fault)
        what = self.case_text(plan, idx) if idx >= 0 else "after the last case"

        def V(sig, text):
            return "violation", Violation(sig + tail, "%s || %s" % (what, text))

        if out == "sanitizer":
            cls, kind, top, text = sanitizer_facts(log)
            if cls == "resource" or kind.startswith("out-of-memory") or kind.startswith("allocation-size-too-big"):
                if where != "load":
                    return "benign", None
                return V("C10/resource/%s/in=%s" % (kind, leg), text[:1500])
            if cls == "ubsan" and where != "load" and ARITH_UB_RE.search(kind + "/" + top):
                # undefined arithmetic on numbers picked by the loaded code or by our arguments (shift counts, int/s64
                # methods): ordinary source code reaches it too; it is neither a memory error nor the loader's business
                return "benign-arith", None
            if kind.startswith("stack-overflow") and where != "load":
                # unbounded recursion of loaded code on the C stack is reported separately from memory errors
                return V("C10/%s/%s/in=%s" % (cls, kind, top), text[:2500])
            return V("C10/%s/%s/in=%s" % (cls, kind, top), text[:2500])
        if out.startswith("crash:"):
            if out == "crash:9":
                return "benign", None      # killed from outside (memory pressure): no verdict
            a = ABORT_RE.search(log)
            if out == "crash:6" and a:     # janet_assert / JANET_EXIT that the sanitizer runtime did not intercept
                am = re.search(r"janet internal error at line (\d+) in file (\S+?):", log)
                return V("C10/abort/%s/in=%s" % (norm_msg(a.group(2)), function_at(am.group(2), int(am.group(1)))), a.group(0))
            return V("C10/signal/%s" % out.split(":")[1], log[-1500:])
        if out.startswith("exit:"):
            m = OOM_RE.search(log)
            if m:
                if where != "load":
                    return "benign", None
                return V("C10/exit/out-of-memory/in=%s" % function_at(m.group(1), int(m.group(3))), m.group(0))
            return V("C10/exit/%s" % out.split(":")[1], log[-1500:])
        if out in ("deadlock", "livelock", "timeout", "unsupported"):
            if where == "load":
                return V("C10/hang/%s/in=%s" % (out, leg), "the loader did not return")
            return "benign", None
        return V("C10/run/%s" % out, log[-1500:])

    def check(self, plan, res):
        v = self.judge(plan, res, read_log(res.log or ""))[1]
        return [v] if v else []

    def batch_timeout(self, n):
        return 3000 + 8 * n

    def execute(self, plan):
        """run the batch; when a case ends the child (violation, or loaded code that loops/blocks/exhausts memory) note
        it and run the rest of the batch in a new child.  The returned Result is a synthetic per-case history (load status
        and fate of every case), so that it does not depend on where a wall-clock kill happened to fall."""
        cases = plan["cases"]
        pending = list(range(len(cases)))
        vs = []
        stats = {}
        fate = {}             # case -> text
        reruns = 0
        benign = {}
        killer = None
        first_bad = None
        wall = 0
        logs = []
        r = runner("asan")
        while pending:
            res = r.run(self.render(plan, pending), self.batch_timeout(len(pending)))
            wall += res.wall_us
            info = read_log(res.log or "")
            for _ in range(2):
                if not (res.outcome == "timeout" and info["idx"] is None and info["phase"] is None):
                    break
                # killed before the first case even started: a stalled machine, not a property of the plan - once more
                # with a generous limit
                res = r.run(self.render(plan, pending), 4 * self.timeout_ms)
                wall += res.wall_us
                info = read_log(res.log or "")
            verdict, v = self.judge(plan, res, info)
            idx = info["idx"]
            if res.outcome == "timeout" and idx is not None:
                # a wall-clock kill: is it this case (a loop in loaded code, or a hang of the loader) or just a slow
                # machine?  run the case alone with a generous limit
                res2 = r.run(self.render(plan, [idx]), 2 * self.timeout_ms if info["phase"] == "L" else 3000)
                wall += res2.wall_us
                info2 = read_log(res2.log or "")
                if res2.outcome == "timeout" and info2["phase"] == "L" and info["phase"] != "L":
                    # the short limit ran out while the case was still loading: only the generous limit may say "hang"
                    res2 = r.run(self.render(plan, [idx]), 2 * self.timeout_ms)
                    wall += res2.wall_us
                    info2 = read_log(res2.log or "")
                if res2.outcome == "ok":
                    # slow machine: the case is fine; what was done before it counts, go on after it
                    verdict, v = "slow", None
                    info["loaded"].update(info2["loaded"])
                    for k, n in info2["stats"].items():
                        stats[k] = stats.get(k, 0) + n
                else:
                    verdict, v = self.judge(plan, res2, info2)
                    res = res2
            for k, n in info["stats"].items():
                stats[k] = stats.get(k, 0) + n
            for i, ok in info["loaded"].items():
                fate.setdefault(i, "loaded" if ok else "rejected")
            if verdict == "ok":
                break
            if verdict == "violation":
                vs.append(v)
                fate[idx if idx is not None and idx >= 0 else len(cases)] = "violation " + v.sig
                if killer is None:
                    killer = idx
                    first_bad = res
                logs.append(res.log or "")
            elif verdict == "benign-arith":
                benign["arith_ub_in_exercise"] = benign.get("arith_ub_in_exercise", 0) + 1
                fate[idx] = fate.get(idx, "") + " ended:arith"
            elif verdict != "slow":
                tag = "case_%s_in_exercise" % res.outcome.split(":")[0]
                benign[tag] = benign.get(tag, 0) + 1
                fate[idx] = fate.get(idx, "") + " ended:" + res.outcome
            if idx is None or idx not in pending:
                break
            pending = pending[pending.index(idx) + 1:]
            reruns += 1
            if reruns > MAX_RERUNS:
                break
        executed = sum(1 for i in range(len(cases)) if i in fate)
        self._killer[self.plan_key(plan)] = killer
        stats.update(benign)
        stats["cases_executed"] = executed
        stats["cases_skipped"] = len(cases) - executed
        # (whether a long-running case was cut by the wall clock depends on how busy the machine is: that is counted
        # in the statistics, not written into the history that the determinism gate compares)
        events = [Event(i, 0, 0, "case", "%d %s" % (i, fate.get(i, "skipped").replace(" ended:timeout", "").strip() or "loaded"))
                  for i in range(len(cases) + 1) if i in fate or i < len(cases)]
        if first_bad is not None:
            primary = Result(first_bad.how, first_bad.code, wall, events, "\n".join(logs)[:200000])
        else:
            primary = Result("exit", 0, wall, events, "")
        primary.c10 = {"stats": stats, "enum": plan.get("enum"), "complete": executed == len(cases), "ncases": len(cases),
                       "leg": plan["leg"]}
        seen = set()
        out = []
        for v in vs:
            if v.sig not in seen:
                seen.add(v.sig)
                out.append(v)
        return primary, out

    @staticmethod
    def plan_key(plan):
        return hashlib.sha256(json.dumps(plan, sort_keys=True).encode()).hexdigest()

    # ---- evidence --------------------------------------------------------------------------------
    def nontrivial(self, plan, res):
        return getattr(res, "c10", {}).get("stats", {}).get("loaded_ok", 0) > 0

    def sample(self, plan, res):
        return {"leg": plan["leg"], "bases": plan["bases"], "ncases": len(plan["cases"]), "outcome": res.outcome}

    def extra(self, plan, res):
        return getattr(res, "c10", None)

    def aggregate(self, extras):
        probes = {}
        legs = {}
        enum_done = {}
        for x in extras:
            if not x:
                continue
            for k, n in x["stats"].items():
                probes[k] = probes.get(k, 0) + n
            legs[x["leg"]] = legs.get(x["leg"], 0) + x["ncases"]
            if x.get("enum") and x["complete"]:
                enum_done[x["enum"]["chunk"]] = x["ncases"]
        if "case_timeout_in_exercise" not in probes:
            probes["case_timeout_in_exercise"] = 0
        out = {"probes": probes, "loads_by_leg": legs}
        try:
            chunks = self.enum_chunks()
            ex = {}
            for kind in ("tear", "flip", "field"):
                ids = [i for i, c in enumerate(chunks) if c[0] == kind]
                done = [i for i in ids if i in enum_done]
                offsets = sum(chunks[i][3] - chunks[i][2] for i in ids)
                ex[kind] = {
                    "exhaustive": len(done) == len(ids) and len(ids) > 0, "chunks_total": len(ids), "chunks_done": len(done),
                    "over": {"tear": "every offset of every seed image",
                             "flip": "every offset of every seed image x substitution set {00,01,7F,80,BF,C0,C7,C8..E8 (lead "
                                     "bytes),E9,F0,F1,F8,F9,FE,FF,orig+1,orig-1}",
                             "field": "every trusted field (fiber/frame layout, environment geometry, reference numbers, "
                                      "function header counts, PEG/channel headers) of every seed image x its boundary "
                                      "value list"}[kind],
                    "seed_images": len(self.corpus()), "positions_total": offsets,
                    "positions_covered": sum(chunks[i][3] - chunks[i][2] for i in done),
                    "cases_executed": sum(enum_done[i] for i in done),
                }
            out["enumeration"] = ex
            # the claim of this level: tear and flip visited at every offset of every seed image in this run
            out["exhaustive"] = bool(ex["tear"]["exhaustive"] and ex["flip"]["exhaustive"])
            out["seed_corpus"] = {n: len(b) for n, b, _ in self.corpus()}
        except Exception as e:  # evidence only
            out["enumeration"] = {"error": str(e)}
            out["exhaustive"] = False
        return out

    # ---- shrinking -------------------------------------------------------------------------------
    def shrink(self, plan):
        """candidates in order of expected gain; the total number of candidates tried along one minimisation is bounded by
        the `_sb` counter carried in the plan (every run costs ~0.1 s of start-up)"""
        left = plan.get("_sb", SHRINK_BUDGET)
        for q in self.shrink1(plan):
            left -= 1
            if left < 0:
                return
            q["_sb"] = left
            yield q

    def shrink1(self, plan):
        P = json.loads(json.dumps(plan))
        P.pop("enum", None)
        cases = P["cases"]
        n = len(cases)
        if n > 1:
            k = self._killer.get(self.plan_key(plan))
            if k is not None and 0 <= k < n:
                q = dict(P)
                q["cases"] = [cases[k]]
                yield q
            size = n // 2
            while size >= 1:
                for a in range(0, n, size):
                    q = dict(P)
                    q["cases"] = cases[:a] + cases[a + size:]
                    if q["cases"]:
                        yield q
                size //= 2
            return
        c = cases[0]

        def with_case(c2, **kw):
            q = dict(P)
            q["cases"] = [c2]
            q.update(kw)
            return q

        if P["leg"] == "asm":
            if len(c["m"]) > 1:
                for i in range(len(c["m"])):
                    yield with_case(dict(c, m=c["m"][:i] + c["m"][i + 1:]))
            yield from self.shrink_env(P, c, with_case)
            return
        # unmarshal: make the corruption explicit bytes, then cut them down
        if c["b"] >= 0:
            base = self.image(P["bases"][c["b"]])[0]
            if len(c["p"]) > 1:
                for i in range(len(c["p"])):
                    yield with_case(dict(c, p=c["p"][:i] + c["p"][i + 1:]))
            data = apply_patches(base, c["p"])
            yield with_case(dict(c, b=-1, p=[[0, 0, data.hex()]]), bases=[])
            yield from self.shrink_env(P, c, with_case)
            return
        data = bytes.fromhex(c["p"][0][2])
        n = len(data)
        size = n // 2
        while size >= 1:
            for a in range(n - size, -1, -size):    # cut from the end first: what follows the fault rarely matters
                d2 = data[:a] + data[a + size:]
                yield with_case(dict(c, p=[[0, 0, d2.hex()]]))
            size //= 2
        yield from self.shrink_env(P, c, with_case)
        for i in range(n):
            if data[i] not in (0, 0xC9):
                for v in (0, 0xC9):
                    yield with_case(dict(c, p=[[0, 0, (data[:i] + bytes([v]) + data[i + 1:]).hex()]]))

    @staticmethod
    def shrink_env(P, c, with_case):
        """fewer exercise steps, no lookup table, quiet collector"""
        if c["mask"]:
            yield with_case(dict(c, mask=0))
        for bit in (1, 2, 4, 8, 16, 32, 64, 128, 256):
            if c["mask"] & bit and c["mask"] != bit:
                yield with_case(dict(c, mask=c["mask"] & ~bit))
        if c.get("lk"):
            yield with_case(dict(c, lk=0))
        if P["knobs"].get("gc") != "never":
            q = with_case(c)
            q["knobs"] = dict(P["knobs"], gc="never")
            yield q
        if c["aseed"]:
            yield with_case(dict(c, aseed=0))


DRIVER = C10
