"""C09 plan generator and renderer: value graphs, closure sets, fibers, channels, PEGs, boxed
integers, the continuation (ops) and the asm/disasm leg.  Everything is a pure function of
the `random.Random` passed in (generation) or of the plan (rendering).

Plan layout (JSON):
  items : [{"id", "k" (kind), "b" (Janet builder expression, evaluated inside `build`),
            "needs": "none"|"core" (does the marshalled code reference C functions, i.e. need a
            lookup table), "gnodes": [graph node ids the builder names], "tags": [...]} ...]
          item 0 is always the value graph: {"k": "graph", "nodes": [...]}
  ops   : the continuation: [{"id", "seg" (1..restarts: the VM generation it runs in), "it" (item),
            "cls" (id-free class used in signatures), "e" (Janet expression; X = the item,
            `(R n)` = item n of the root), "nodes"/"gnodes": graph node ids the op names}]
  asm   : [{"src", "calls": [arg-list source...], "fiber": bool}]     second leg
  neg   : [kind...]      things documented as not marshalable (must not crash)
  nocycles : source of a value without sharing, marshalled with the no-cycles flag
  dict  : none | core (make-image-dict/load-image-dict) | env ((env-lookup root-env) built in each
          VM) | custom (core + two external values registered under names)
  live_env : the image is taken while `build` is still running (closure environments on the
          stack of the alive fiber are copied out by marshal) instead of after it returned

Soundness notes for whoever extends this: the continuation must not depend on table iteration
order (unmarshal builds tables with another capacity), addresses, hashes, the default RNG or
gensym; at most ONE key with identity per dictionary and such key nodes hold atoms only (the
harness printer sorts entries by the stand-alone text of their keys); a string literal never
contains a capital X (it is the placeholder); `build` stays below 256 slots.
"""
import json

# ----------------------------------------------------------------------------
# Janet source helpers


def jstr(b):
    """bytes -> Janet string literal (ASCII only)"""
    out = ['"']
    for c in b:
        if c in (0x22, 0x5C):
            out.append("\\" + chr(c))
        elif 32 <= c < 127 and c != 0x58:  # never a literal X: it is the item placeholder of ops
            out.append(chr(c))
        else:
            out.append("\\x%02X" % c)
    out.append('"')
    return "".join(out)


NUMS = ["0", "1", "-1", "2", "7", "127", "128", "129", "-127", "-128", "-129", "255", "256",
        "8191", "8192", "8193", "-8191", "-8192", "-8193", "16383", "16384", "-16384", "-16385",
        "65535", "65536", "2147483647", "2147483646", "2147483648", "2147483649", "-2147483647",
        "-2147483648", "-2147483649", "-2147483650", "4294967295", "4294967296",
        "9007199254740991", "9007199254740992", "-9007199254740992", "1e15", "123456789012345",
        "0.5", "-0.5", "0.1", "1e-300", "1.7976931348623157e308", "5e-324", "3.141592653589793",
        "1e100", "-1e100", "math/inf", "(- math/inf)", "math/nan"]

NONFINITE = ("1.7976931348623157e308", "1e100", "-1e100", "math/inf", "(- math/inf)", "math/nan")

S64 = ["0", "1", "-1", "127", "128", "239", "240", "241", "255", "256", "65535", "65536", "16777216",
       "2147483647", "2147483648", "-2147483648", "-2147483649", "4294967295", "4294967296",
       "1099511627776", "281474976710656", "72057594037927936", "9007199254740993",
       "9223372036854775807", "-9223372036854775808", "-240", "-241", "123456789012"]
U64 = ["0", "1", "239", "240", "241", "255", "256", "65536", "4294967295", "4294967296",
       "9223372036854775807", "9223372036854775808", "18446744073709551615", "18446744073709551614",
       "72057594037927935", "72057594037927936"]


def rnd_bytes(r, n, alphabet=None):
    if alphabet is None:
        return bytes(r.randrange(256) for _ in range(n))
    return bytes(r.choice(alphabet) for _ in range(n))


def atom(r, opts):
    """-> Janet source of a value without identity"""
    u = r.random()
    if u < 0.40:
        if r.random() < 0.25:
            base = r.choice([0, 127, 128, 8191, 8192, -8192, -8193, 2 ** 31 - 1, -2 ** 31, 2 ** 31, 2 ** 32, 2 ** 53])
            return str(base + r.randint(-3, 3))
        s = r.choice(NUMS)
        if opts.get("finite") and s in NONFINITE:
            s = "0.25"
        return s
    if u < 0.43 and opts.get("negzero"):
        return "(* -1 0)"
    if u < 0.60:
        n = r.choice([0, 1, 2, 3, 5, 8, 17, 127, 128, 129]) if r.random() < 0.8 else r.randint(0, 300)
        if r.random() < 0.5:
            return jstr(rnd_bytes(r, n))
        return jstr(rnd_bytes(r, n, b"abcxyz 01"))
    if u < 0.75:
        if r.random() < 0.8:
            return ":" + r.choice(["a", "b", "key", "k9", "x-y", "long-keyword-name", "A", "z/q"])
        return "(keyword %s)" % jstr(rnd_bytes(r, r.choice([0, 1, 3, 130])))
    if u < 0.83:
        if r.random() < 0.8:
            return "'" + r.choice(["s", "sym", "foo/bar", "x1", "+", "a-b"])
        return "(symbol %s)" % jstr(rnd_bytes(r, r.choice([1, 2, 4, 129])))
    if u < 0.90:
        return r.choice(["true", "false", "nil"])
    if u < 0.95:
        return '(int/s64 "%s")' % r.choice(S64)
    return '(int/u64 "%s")' % r.choice(U64)


KEY_POOL = [":a", ":b", ":c", ":key", ":k9", ":proto-key", ":x", ":y", ":z", "0", "1", "2", "-1", "127", "128",
            "8192", "-8193", "2147483648", "0.5", '"s"', '"str"', '""', '"\\x00\\xFF"', "'sym", "'s", "true", "false",
            "[1 2]", "[:t \"u\"]", "{:sk 1}", "(tuple/brackets 3 4)", "math/inf", ":m", ":n", ":o", ":p", ":q"]


def all_bytes_string():
    return jstr(bytes(range(256)))


# ----------------------------------------------------------------------------
# value graph

MUT = ("array", "table", "buffer")


def gen_graph(r, size, opts):
    """nodes: mutable ones are created empty, immutable ones afterwards (children: atoms, any
    mutable node, earlier immutable nodes), then the mutable ones are filled (children: any node)"""
    nodes = []
    nm = max(1, r.randint(1, max(1, size * 2 // 3)))
    ni = max(0, size - nm)
    for i in range(nm):
        t = r.choice(["array", "array", "table", "table", "table", "buffer"])
        nd = {"id": i, "t": t}
        if t == "table":
            nd["weak"] = r.choice(["k", "v", "kv"]) if r.random() < 0.06 and opts.get("weak") else None
        if t == "array":
            nd["weak"] = bool(r.random() < 0.04 and opts.get("weak"))
        nodes.append(nd)
    ext = opts.get("ext")
    # nodes that may serve as dictionary KEYS get atoms as children only: the harness printer renders
    # keys stand-alone (to sort entries), which must not lead back into the dictionary
    keyable = [n["id"] for n in nodes if n["t"] == "buffer" or r.random() < 0.25]

    depth = {}    # nesting depth of immutable nodes (they are printed at every occurrence)
    budget = [0]

    def ref(limit_imm, allow_imm=True):
        """child reference: atom or node.  An immutable node names at most two earlier immutable
        nodes and nests at most four deep, so the canonical text stays small."""
        u = r.random()
        cands = [n["id"] for n in nodes if n["t"] in MUT or
                 (allow_imm and n["id"] < limit_imm and (limit_imm >= total_n or (budget[0] < 2 and depth.get(n["id"], 1) < 4)))]
        if u < 0.55 and cands:
            c = r.choice(cands)
            if nodes[c]["t"] not in MUT and limit_imm < total_n:
                budget[0] += 1
                cur[0] = max(cur[0], depth.get(c, 1) + 1)
            return {"n": c}
        if u < 0.58 and ext:
            return {"a": r.choice(["ext-tab", "ext-fn"])}
        return {"a": atom(r, opts)}

    def keys(n, limit_imm, allow_ref):
        pool = [k for k in KEY_POOL if k != "math/inf"] if opts.get("finite") else KEY_POOL
        ks = [{"a": k} for k in r.sample(pool, min(n, len(pool)))]
        if allow_ref and ks and r.random() < 0.2:
            # at most ONE key with identity per dictionary (canonical order of such keys is by text)
            if keyable:
                ks[0] = {"n": r.choice(keyable)}
        return ks

    total_n = nm + ni
    cur = [1]
    for j in range(ni):
        i = nm + j
        t = r.choice(["tuple", "tuple", "btuple", "struct", "struct", "pstruct"])
        nd = {"id": i, "t": t}
        budget[0] = 0
        cur[0] = 1
        if t in ("tuple", "btuple"):
            n = r.choice([0, 1, 2, 3, 4, 6]) if r.random() < 0.95 else r.choice([127, 128, 130])
            nd["items"] = [ref(i) for _ in range(n)]
        else:
            n = r.choice([0, 1, 2, 3, 5])
            ks = keys(n, i, True)
            nd["kv"] = [[k, ref(i)] for k in ks]
            if t == "pstruct":
                protos = [m["id"] for m in nodes if m["t"] in ("struct", "pstruct") and m["id"] < i]
                protos = [q for q in protos if depth.get(q, 1) < 4]
                if protos:
                    nd["proto"] = r.choice(protos)
                    cur[0] = max(cur[0], depth.get(nd["proto"], 1) + 1)
                else:
                    nd["t"] = "struct"
        depth[i] = cur[0]
        nodes.append(nd)
    total = len(nodes)

    def fref(nd):
        if nd["id"] in keyable:
            return {"a": atom(r, opts)}
        return ref(total)

    for nd in nodes[:nm]:
        if nd["t"] == "array":
            if nd.get("weak"):
                nd["items"] = [{"a": str(r.choice([1, 128, -8193]))} for _ in range(r.randint(0, 3))]
                continue
            n = r.choice([0, 1, 2, 3, 4, 7]) if r.random() < 0.93 else r.choice([127, 128, 129, 200])
            nd["items"] = [fref(nd) for _ in range(n)]
        elif nd["t"] == "table":
            if nd.get("weak"):
                # only numbers in weak containers: what the collector may drop is not part of the statement
                nd["kv"] = [[{"a": str(k)}, {"a": str(r.choice([1, 127, 8192]))}] for k in r.sample(range(10), r.randint(0, 3))]
                nd["proto"] = None
                continue
            n = r.choice([0, 1, 2, 3, 5, 8]) if r.random() < 0.95 else r.choice([127, 128, 140])
            if n > len(KEY_POOL):
                ks = [{"a": str(1000 + q)} for q in range(n)]
            else:
                ks = keys(n, total, nd["id"] not in keyable)
            kv = []
            for k in ks:
                v = fref(nd)
                if v.get("a") == "nil":
                    v = {"a": "false"}
                kv.append([k, v])
            nd["kv"] = kv
            protos = [m["id"] for m in nodes[:nm] if m["t"] == "table" and m["id"] < nd["id"] and not m.get("weak")]
            nd["proto"] = r.choice(protos) if protos and r.random() < 0.45 and nd["id"] not in keyable else None
        else:
            n = r.choice([0, 1, 4, 16, 127, 128, 129]) if r.random() < 0.9 else r.choice([8191, 8192, 8193])
            nd["len"] = n
            nd["fill"] = r.randrange(1 << 30)
    return nodes


def node_children(nd):
    out = []
    for c in nd.get("items", []):
        if "n" in c:
            out.append(c["n"])
    for k, v in nd.get("kv", []):
        if "n" in k:
            out.append(k["n"])
        if "n" in v:
            out.append(v["n"])
    if nd.get("proto") is not None:
        out.append(nd["proto"])
    return out


def graph_facts(nodes):
    """-> (has_cycle, has_sharing, kinds in cycles)"""
    by = {n["id"]: n for n in nodes if n.get("t") != "gone"}
    indeg = {}
    for n in by.values():
        for c in node_children(n):
            indeg[c] = indeg.get(c, 0) + 1
    sharing = any(v > 1 for v in indeg.values())
    color = {}
    cyc = [False]

    def dfs(u):
        stack = [(u, iter(node_children(by[u])))]
        color[u] = 1
        while stack:
            v, it = stack[-1]
            adv = False
            for w in it:
                if w not in by:
                    continue
                if color.get(w, 0) == 1:
                    cyc[0] = True
                elif color.get(w, 0) == 0:
                    color[w] = 1
                    stack.append((w, iter(node_children(by[w]))))
                    adv = True
                    break
            if not adv:
                color[v] = 2
                stack.pop()

    for u in by:
        if color.get(u, 0) == 0:
            dfs(u)
    return cyc[0], sharing


def ref_src(c):
    return "n%d" % c["n"] if "n" in c else c["a"]


def render_graph(nodes):
    """-> Janet forms (inside `build`) defining n<i> for every node, and the item expression"""
    L = []
    for nd in nodes:
        i, t = nd["id"], nd["t"]
        if t == "gone":
            L.append("(def n%d nil)" % i)
        elif t == "array":
            L.append("(def n%d %s)" % (i, "(array/weak 4)" if nd.get("weak") else "@[]"))
        elif t == "table":
            w = nd.get("weak")
            L.append("(def n%d %s)" % (i, {"k": "(table/weak-keys 4)", "v": "(table/weak-values 4)",
                                           "kv": "(table/weak 4)"}.get(w, "@{}")))
        elif t == "buffer":
            n = nd["len"]
            L.append("(def n%d (sim/fill %d 0 %d))" % (i, nd["fill"], n))
        elif t in ("tuple", "btuple"):
            fn = "tuple" if t == "tuple" else "tuple/brackets"
            L.append("(def n%d (%s %s))" % (i, fn, " ".join(ref_src(c) for c in nd["items"])))
        elif t == "struct":
            L.append("(def n%d (struct %s))" % (i, " ".join(ref_src(k) + " " + ref_src(v) for k, v in nd["kv"])))
        elif t == "pstruct":
            L.append("(def n%d (struct/with-proto n%d %s))" % (i, nd["proto"], " ".join(ref_src(k) + " " + ref_src(v) for k, v in nd["kv"])))
    for nd in nodes:
        i, t = nd["id"], nd["t"]
        if t == "array":
            its = nd.get("items", [])
            for s in range(0, len(its), 40):
                L.append("(array/push n%d %s)" % (i, " ".join(ref_src(c) for c in its[s:s + 40])))
        elif t == "table":
            for k, v in nd.get("kv", []):
                L.append("(put n%d %s %s)" % (i, ref_src(k), ref_src(v)))
            if nd.get("proto") is not None:
                L.append("(table/setproto n%d n%d)" % (i, nd["proto"]))
    expr = "(tuple %s)" % " ".join("n%d" % nd["id"] for nd in nodes)
    return L, expr


def graph_ops(r, nodes, nops):
    """continuation over the graph; X = tuple of all nodes"""
    ops = []
    live = [n for n in nodes if n["t"] != "gone"]
    big = any(n.get("len", 0) > 1000 for n in live)
    whole = "[(length (sim/canon X)) (sim/hash (sim/canon X))]" if big else "X"
    ops.append({"cls": "shape", "e": whole, "nodes": []})
    for _ in range(nops):
        nd = r.choice(live)
        i, t = nd["id"], nd["t"]
        u = r.random()
        if t == "array" and not nd.get("weak"):
            if u < 0.6:
                ops.append({"cls": "shape/after-mutation", "e": "(do (put (X %d) (length (X %d)) :m%d) %s)" % (i, i, len(ops), whole), "nodes": [i]})
            else:
                ops.append({"cls": "shape/length", "e": "(length (X %d))" % i, "nodes": [i]})
        elif t == "table" and not nd.get("weak"):
            if u < 0.4:
                ops.append({"cls": "shape/after-mutation", "e": "(do (put (X %d) :m%d %d) %s)" % (i, len(ops), len(ops), whole), "nodes": [i]})
            elif u < 0.8:
                # lookup through the prototype chain
                ks = []
                p = nd
                seen = 0
                while p is not None and seen < 6:
                    ks += [ref_src(k) for k, _ in p.get("kv", []) if "a" in k]
                    p = next((m for m in nodes if m["id"] == p.get("proto")), None) if p.get("proto") is not None else None
                    seen += 1
                k = r.choice(ks) if ks else ":none"
                ops.append({"cls": "shape/table-proto-lookup", "e": "[(get (X %d) %s) (table/rawget (X %d) %s) (not (nil? (table/getproto (X %d))))]" % (i, k, i, k, i), "nodes": [i]})
            else:
                ops.append({"cls": "shape/length", "e": "(length (X %d))" % i, "nodes": [i]})
        elif t == "table":
            ops.append({"cls": "shape/weak-table", "e": "(do (drop-garbage (X %d)) (gccollect) [(length (X %d)) (get (X %d) 9999)])" % (i, i, i), "nodes": [i]})
        elif t == "array":
            ops.append({"cls": "shape/weak-array", "e": "(do (drop-garbage-arr (X %d)) (gccollect) [(length (X %d)) (last (X %d))])" % (i, i, i), "nodes": [i]})
        elif t == "buffer":
            if u < 0.5:
                ops.append({"cls": "shape/after-mutation", "e": "(do (buffer/push (X %d) \"m%d\") %s)" % (i, len(ops), whole), "nodes": [i]})
            else:
                ops.append({"cls": "shape/buffer", "e": "[(length (X %d)) (sim/hash (X %d)) (sim/match %d 0 (X %d))]" % (i, i, nd["fill"], i), "nodes": [i]})
        elif t in ("tuple", "btuple"):
            ops.append({"cls": "shape/tuple-bracket", "e": "[(tuple/type (X %d)) (length (X %d))]" % (i, i), "nodes": [i]})
        elif t in ("struct", "pstruct"):
            ks = [ref_src(k) for k, _ in nd.get("kv", []) if "a" in k]
            p = nd
            seen = 0
            while p.get("proto") is not None and seen < 6:
                p = next(m for m in nodes if m["id"] == p["proto"])
                if p["t"] == "gone":
                    break
                ks += [ref_src(k) for k, _ in p.get("kv", []) if "a" in k]
                seen += 1
            k = r.choice(ks) if ks else ":none"
            ops.append({"cls": "shape/struct-proto-lookup", "e": "[(get (X %d) %s) (struct/getproto (X %d)) (length (X %d))]" % (i, k, i, i), "nodes": [i]})
        if r.random() < 0.15 and len(live) > 1:
            a, b = r.choice(live)["id"], r.choice(live)["id"]
            ops.append({"cls": "shape/equality", "e": "(= (X %d) (X %d))" % (a, b), "nodes": [a, b]})
    if r.random() < 0.7:
        ops.append({"cls": "shape", "e": whole, "nodes": []})
    return ops


# ----------------------------------------------------------------------------
# closures, fibers, channels, PEGs, boxed integers: (builder, ops) templates

def num(r):
    return str(r.choice([0, 1, 2, 3, 5, 7, 10, 127, 128, 8191, 8192, -1, -129, 2147483647, 0.5]))


def small(r):
    return str(r.choice([1, 2, 3, 4, 5, 7, 11]))


def any_node(r, nodes):
    live = [n["id"] for n in nodes if n["t"] != "gone"]
    return r.choice(live) if live else None


def it_counter(r, ctx):
    init = num(r)
    b = ("((fn [] (var x %s) (var calls 0) (def pad :unused)\n"
         "   {:inc (fn inc [d] (++ calls) (set x (+ x d))) :get (fn [] [x calls]) :reset (fn [v] (set x v) pad)}))" % init)
    ops = []
    for _ in range(r.randint(2, 6)):
        u = r.random()
        if u < 0.5:
            ops.append({"cls": "behaviour/closure-shared-var", "e": "[((X :inc) %s) ((X :get))]" % num(r)})
        elif u < 0.8:
            ops.append({"cls": "behaviour/closure-shared-var", "e": "((X :get))"})
        else:
            ops.append({"cls": "behaviour/closure-shared-var", "e": "[((X :reset) %s) ((X :get))]" % num(r)})
    ops.append({"cls": "behaviour/closure-shared-var", "e": "[((X :inc) 1) ((X :get))]"})
    return {"k": "counter", "b": b, "needs": "none", "tags": ["shared_env"]}, ops


def it_loop(r, ctx):
    n = r.choice([2, 3, 4, 6])
    b = ("((fn [] (var acc %s) (def fs @[])\n"
         "   (for i 0 %d (put fs i (fn [d] (set acc (+ acc (* d (+ i 1)))) [i acc])))\n"
         "   (put fs %d (fn [] acc)) fs))" % (num(r), n, n))
    ops = []
    for _ in range(r.randint(2, 6)):
        ops.append({"cls": "behaviour/loop-closures-shared-var", "e": "[((X %d) %s) ((X %d))]" % (r.randrange(n), small(r), n)})
    return {"k": "loop", "b": b, "needs": "none", "tags": ["shared_env"]}, ops


def it_rec(r, ctx):
    v = r.randrange(3)
    if v == 0:
        b = "(fn fact [n] (if (< n 2) 1 (* n (fact (- n 1)))))"
        ops = [{"cls": "behaviour/recursive-function", "e": "[(X %d) (X %d)]" % (r.randint(0, 20), r.randint(0, 20))}]
    elif v == 1:
        b = ("((fn [] (var od nil) (def ev (fn ev [n] (if (= n 0) true (od (- n 1)))))\n"
             "   (set od (fn od [n] (if (= n 0) false (ev (- n 1))))) [ev od]))")
        ops = [{"cls": "behaviour/recursive-function", "e": "[((X 0) %d) ((X 1) %d)]" % (r.randint(0, 30), r.randint(0, 30))}]
    else:
        b = ("((fn [] (def memo @{}) [(fn fib [n] (or (get memo n) (let [v (if (< n 2) n (+ (fib (- n 1)) (fib (- n 2))))] (put memo n v) v)))\n"
             "   (fn [] (length memo))]))")
        ops = [{"cls": "behaviour/recursive-function", "e": "[((X 0) %d) ((X 1))]" % r.randint(0, 40)} for _ in range(2)]
    ops.append({"cls": "shape/funcdef", "e": "(fdef %s)" % ("X" if v == 0 else "(X 0)")})
    return {"k": "rec", "b": b, "needs": "none", "tags": []}, ops


def it_args(r, ctx):
    v = r.randrange(4)
    if v == 0:
        b = "(fn va [a &opt b & more] [a b (length more) more])"
        calls = ["(X)", "(X 1)", "(X 1 2)", "(X 1 2 3)", "(X 1 nil 3 4 5)", "(X ;(range 20))"]
    elif v == 1:
        b = "(fn kw [a &keys {:x x :y y}] [a x y])"
        calls = ["(X 1)", "(X 1 :x 2)", "(X 1 :y 3 :x 2)", "(X 1 :x)", "(X 1 :z 9)"]
    elif v == 2:
        b = "(fn nm [a &named x y] [a x y])"
        calls = ["(X 1)", "(X 1 :x 2)", "(X 1 :y 3 :x 2)", "(X)"]
    else:
        b = "(fn df [a &opt b c] (default b 8192) (default c [a b]) [a b c])"
        calls = ["(X 1)", "(X 1 2)", "(X 1 2 3)", "(X 1 nil 3)", "(X 1 2 3 4)"]
    ops = [{"cls": "behaviour/function-arguments", "e": r.choice(calls)} for _ in range(r.randint(2, 4))]
    ops.append({"cls": "shape/funcdef", "e": "(fdef X)"})
    return {"k": "args", "b": b, "needs": "none", "tags": []}, ops


def it_nested(r, ctx):
    b = ("((fn [] (def mk (fn mk [a0] (var a a0) (fn mid [b] (fn in [c] (set a (+ a b c)) [a b c]))))\n"
         "   (def m1 (mk %s)) [mk m1 (m1 %s) (m1 %s) ((mk %s) %s)]))" % (num(r), num(r), num(r), num(r), num(r)))
    ops = []
    for _ in range(r.randint(2, 5)):
        ops.append({"cls": "behaviour/nested-closure-envs", "e": "[((X %d) %s) ((X %d) 0)]" % (r.choice([2, 3, 4]), small(r), r.choice([2, 3]))})
    ops.append({"cls": "behaviour/nested-closure-envs", "e": "((((X 0) 1) 2) 3)"})
    ops.append({"cls": "behaviour/nested-closure-envs", "e": "[(((X 1) 5) 1) ((X 2) 0) ((X 3) 0)]"})
    return {"k": "nested", "b": b, "needs": "none", "tags": ["shared_env"]}, ops


def it_corefn(r, ctx):
    cands = [
        ("(fn [xs] (map (fn [x] (* 2 x)) xs))", ["(X [1 2 3])", "(X @[127 128 8192])", "(X [])"]),
        ("(fn [& a] (string/join (map string a) \",\"))", ["(X 1 :a \"b\")", "(X)", "(X 8192 -129)"]),
        ("(fn [s] (string/format \"%d|%s\" (length s) (string/ascii-upper s)))", ["(X \"abc\")", "(X \"\")"]),
        ("(fn [xs] (reduce + 0 xs))", ["(X [1 2 3])", "(X (range 200))"]),
        ("(fn [xs] (sorted xs))", ["(X [3 1 2])", "(X [\"b\" \"a\"])"]),
        ("(comp inc inc (partial * 3))", ["(X 1)", "(X 8191)"]),
        ("(juxt inc dec (partial + 127))", ["(X 1)", "(X -129)"]),
        ("(complement even?)", ["(X 1)", "(X 2)"]),
        ("(fn [t] (def b @\"\") (each k (sort (keys t)) (buffer/push b (string k) \"=\" (string (t k)) \";\")) (string b))",
         ["(X {:a 1 :b 2})", "(X @{:z 1 :y 8192})"]),
        ("(fn [s] (peg/match ~(some (capture :d)) s))", ["(X \"123\")", "(X \"x\")"]),
    ]
    b, calls = r.choice(cands)
    ops = [{"cls": "behaviour/closure-over-core-functions", "e": r.choice(calls)} for _ in range(r.randint(1, 3))]
    return {"k": "corefn", "b": b, "needs": "core", "tags": []}, ops


def it_capnode(r, ctx):
    """closures created directly in `build`: their environment is build's own frame (alive while
    the image is taken when plan.live_env), and they capture a node of the value graph"""
    nid = any_node(r, ctx["nodes"])
    if nid is None:
        return None
    nd = next(n for n in ctx["nodes"] if n["id"] == nid)
    gid = ctx["graph_id"]
    b = "(tuple (fn [] n%d) (fn [v] (def g n%d) [v (= g n%d)]))" % (nid, nid, nid)
    ops = [{"cls": "sharing/closure-captured-node", "e": "(do (def v ((X 0))) [(= v ((R %d) %d)) [((R %d) %d) v]])" % (gid, nid, gid, nid), "gnodes": [nid]},
           {"cls": "sharing/closure-captured-node", "e": "((X 1) 5)", "gnodes": [nid]}]
    if nd["t"] == "array" and not nd.get("weak"):
        ops.append({"cls": "sharing/closure-captured-node", "e": "(do (put ((X 0)) (length ((X 0))) :via-closure) (length ((R %d) %d)))" % (gid, nid), "gnodes": [nid]})
    return {"k": "capnode", "b": b, "needs": "none", "tags": ["build_env"], "gnodes": [nid]}, ops


def it_bigfn(r, ctx):
    n = r.choice([3, 130, 130, 2800]) if r.random() < 0.3 else r.choice([3, 130])
    body = " ".join("(put a %d \"s%d\")" % (i, i) for i in range(n))
    b = "(fn big [i] (def a @[]) %s (get a i))" % body
    ops = [{"cls": "behaviour/large-function", "e": "[(X 0) (X %d) (X %d)]" % (n - 1, n)},
           {"cls": "shape/funcdef", "e": "(do (def d (fdef X)) [(length (d :bytecode)) (length (d :constants)) (sim/hash (sim/canon d))])"}]
    return {"k": "bigfn", "b": b, "needs": "none", "tags": []}, ops


DRAIN = ("(do (def out @[]) (var n 0) (while (and (< n 60) (fiber/can-resume? %s)) (++ n) (put out (length out) (resume %s n)))"
         " [out (fiber/status %s) (fiber/last-value %s)])")


def drain(x="X"):
    return DRAIN % (x, x, x, x)


def fiber_ops(r, n, cls="fiber/resume", x="X"):
    ops = []
    for _ in range(n):
        u = r.random()
        if u < 0.65:
            ops.append({"cls": cls, "e": "[(resume %s %s) (fiber/status %s)]" % (x, small(r), x)})
        elif u < 0.85:
            ops.append({"cls": "fiber/status", "e": "[(fiber/status %s) (fiber/last-value %s) (fiber/can-resume? %s) (fiber/maxstack %s)]" % (x, x, x, x)})
        else:
            ops.append({"cls": cls, "e": "(resume %s)" % x})
    ops.append({"cls": cls + "-to-completion", "e": drain(x)})
    return ops


def pre_resumes(r, k):
    return " ".join(["(resume f)"] + ["(resume f %s)" % small(r) for _ in range(k - 1)]) if k > 0 else ""


def it_fgen(r, ctx):
    n = r.choice([2, 3, 5, 8])
    pre = r.randint(0, n + 1)
    loc = "[:loc %s]" % num(r)
    deps = []
    gn = []
    nid = any_node(r, ctx["nodes"])
    if nid is not None and r.random() < 0.5:
        loc = "n%d" % nid
        gn = [nid]
    flags = r.choice(["", " :y", " :yi" if ctx["dict"] != "none" else " :y", " :yp" if ctx["dict"] != "none" else ""])
    needs = "core" if ("i" in flags or "p" in flags) else "none"
    b = ("(let [f (fiber/new (fn gen [] (var acc %s) (def loc %s) (var i 0)\n"
         "        (while (< i %d) (set acc (+ acc (yield [i acc loc]))) (++ i)) [:done acc loc])%s)] %s f)"
         % (num(r), loc, n, flags, pre_resumes(r, pre)))
    ops = fiber_ops(r, r.randint(1, 4))
    if gn:
        ops.insert(0, {"cls": "sharing/fiber-local-node", "e": "(do (def v (resume X 1)) [((R %d) %d) v])" % (ctx["graph_id"], nid), "gnodes": gn})
    tags = ["fiber"]
    if 0 < pre <= n:
        tags.append("fiber_suspended")
    return {"k": "fgen", "b": b, "needs": needs, "tags": tags, "gnodes": gn}, ops


def it_fdefer(r, ctx):
    v = r.randrange(4)
    if v == 0:
        body = ("(def log @[]) (defer (put log (length log) :cleanup) (put log (length log) :a) (yield log)"
                " (put log (length log) :b) (yield 2) (put log (length log) :c)) (yield log) log")
        nin = 2
        ntot = 3
    elif v == 1:
        body = ("(def log @[]) (defer (put log (length log) :outer) (defer (put log (length log) :inner) (yield 1) (yield log))"
                " (yield 3)) (yield log) log")
        nin = 3
        ntot = 4
    elif v == 2:
        body = "(def r (try (do (yield 1) (yield 2) (error \"boom\")) ([e] (yield [:caught e]) :handled))) (yield r) :end"
        nin = 3
        ntot = 4
    else:
        body = "(def r (with-dyns [:k 1] (yield (dyn :k)) (setdyn :k 2) (yield (dyn :k)) (dyn :k))) (yield [r (dyn :k)]) :end"
        nin = 2
        ntot = 3
    pre = r.randint(0, ntot)
    b = "(let [f (fiber/new (fn dfr [] %s))] %s f)" % (body, pre_resumes(r, pre))
    tags = ["fiber"]
    if 0 < pre <= nin:
        tags += ["fiber_child", "fiber_suspended"]
    elif pre > 0:
        tags.append("fiber_suspended")
    return {"k": "fdefer", "b": b, "needs": "core", "tags": tags}, fiber_ops(r, r.randint(1, 3), "fiber/resume-with-pending-defer")


def it_fchild(r, ctx):
    v = r.randrange(3)
    if v == 0:
        # explicit child, held in a captured variable
        b0 = ("(def ch (fiber/new (fn chd [] (var s %s) (set s (+ s (yield [:c1 s]))) (set s (+ s (yield [:c2 s]))) [:c3 s])))\n"
              "   (def f (fiber/new (fn par [] (yield (resume ch 1)) (yield (resume ch 2)) (yield (resume ch 3)) :pend)))" % num(r))
        nin, ntot = 0, 3
    elif v == 1:
        # the child's yields are not trapped by its mask: they pass through the parent, which
        # is then suspended with a suspended child
        b0 = ("(def ch (fiber/new (fn chd [] (var s %s) (set s (+ s (yield [:c1 s]))) (set s (+ s (yield [:c2 s]))) [:c3 s]) :e))\n"
              "   (def f (fiber/new (fn par [] (def v (resume ch)) (yield [:after v]) :pend)))" % num(r))
        nin, ntot = 2, 3
    else:
        b0 = ("(def g (fiber/new (fn gch [] (yield :g1) (yield :g2) :g3) :e))\n"
              "   (def ch (fiber/new (fn chd [] (def a (resume g)) (yield [:c a]) :c3) :e))\n"
              "   (def f (fiber/new (fn par [] (def v (resume ch)) (yield [:after v]) :pend)))")
        nin, ntot = 3, 4
    pre = r.randint(0, ntot)
    b = "((fn [] %s\n   %s [f ch]))" % (b0, pre_resumes(r, pre))
    tags = ["fiber"]
    if 0 < pre <= nin:
        tags += ["fiber_child", "fiber_suspended"]
    elif pre > 0:
        tags.append("fiber_suspended")
    ops = fiber_ops(r, r.randint(1, 3), "fiber/resume-with-child", "(X 0)")
    ops.append({"cls": "fiber/status", "e": "[(fiber/status (X 1)) (fiber/last-value (X 1))]"})
    return {"k": "fchild", "b": b, "needs": "none", "tags": tags}, ops


def it_fenv(r, ctx):
    """a closure whose environment is still on the stack of a suspended fiber; in the image either the
    fiber comes first (the closure's environment is a back reference) or the closure does (the fiber,
    and the frame that owns the environment, are unmarshalled while the environment is under construction)"""
    n = r.choice([2, 3, 5])
    pre = r.randint(1, n + 1)
    closure_first = r.random() < 0.5
    F, C = ("(X 1)", "(X 0)") if closure_first else ("(X 0)", "(X 1)")
    b = ("((fn [] (def box @[nil])\n"
         "   (def f (fiber/new (fn es [] (var c %s) (def pad %s) (put box 0 (fn bump [d] (set c (+ c d)))) (var i 0)\n"
         "      (while (< i %d) (set c (+ c (yield c))) (++ i)) c)))\n"
         "   %s %s))" % (num(r), num(r), n, pre_resumes(r, pre), "[(box 0) f]" if closure_first else "[f (box 0)]"))
    ops = []
    for _ in range(r.randint(2, 5)):
        if r.random() < 0.5:
            ops.append({"cls": "behaviour/closure-env-on-fiber-stack", "e": "(%s %s)" % (C, small(r))})
        else:
            ops.append({"cls": "behaviour/closure-env-on-fiber-stack", "e": "(do (def before (%s 0)) [before (resume %s %s) (fiber/status %s) (%s 0)])" % (C, F, small(r), F, C)})
    ops.append({"cls": "behaviour/closure-env-on-fiber-stack", "e": "[%s (%s 1)]" % (drain(F), C)})
    tags = ["fiber", "shared_env"]
    if pre <= n:
        tags += ["fiber_suspended", "env_on_stack"]
        if closure_first:
            tags.append("env_before_its_fiber")
    return {"k": "fenv", "b": b, "needs": "none", "tags": tags}, ops


def it_fstate(r, ctx):
    v = r.randrange(5)
    needs = "none"
    if v == 0:
        b = "(fiber/new (fn nw [x] (yield [:got x]) [:end x]))"
    elif v == 1:
        b = "(let [f (fiber/new (fn dd [] (yield 1) :finished))] (resume f) (resume f) f)"
    elif v == 2:
        b = "(let [f (fiber/new (fn er [] (yield 1) (error [:bad %s])) :ye)] (resume f) (resume f) f)" % num(r)
    elif v == 3:
        b = "(let [f (fiber/new (fn db [] (def a %s) (debug) [:after a]) :yd)] (resume f) f)" % num(r)
    else:
        n = r.choice([3, 40, 40, 1200])
        b = "(let [f (fiber/new (fn deep [n] (if (= n 0) (yield :bottom) (+ 1 (deep (- n 1))))))] (resume f %d) f)" % n
    if r.random() < 0.3:
        # (never below the stack already in use: such a fiber marshals but is refused by unmarshal)
        b = "(let [f %s] (fiber/setmaxstack f %d) f)" % (b, r.choice([20000, 70000] if v == 4 else [4096, 20000, 70000]))
    ops = [{"cls": "fiber/status", "e": "[(fiber/status X) (fiber/last-value X) (fiber/can-resume? X) (fiber/maxstack X)]"}]
    ops += fiber_ops(r, r.randint(0, 2))
    tags = ["fiber"] + (["fiber_suspended"] if v in (3, 4) else [])
    return {"k": "fstate", "b": b, "needs": needs, "tags": tags}, ops


def it_fdyn(r, ctx):
    v = r.randrange(2)
    if v == 0:
        b = ("(let [f (fiber/new (fn dy [] (setdyn :k %s) (yield (dyn :k)) (setdyn :k2 [(dyn :k)]) (yield (dyn :k2)) [(dyn :k) (dyn :k2) (dyn :zz)]) :y @{:zz %s})]"
             " (resume f) f)" % (num(r), num(r)))
    else:
        b = ("(let [f (fiber/new (fn dy [] (setdyn :k %s) (yield (dyn :k)) (yield (dyn :k)) (dyn :k)) :yp)] (resume f) f)" % num(r))
    ops = fiber_ops(r, r.randint(1, 2), "fiber/resume-with-env")
    ops.append({"cls": "fiber/env", "e": "(do (def e (fiber/getenv X)) [(get e :k) (get e :zz) (table? e)])"})
    return {"k": "fdyn", "b": b, "needs": "core", "tags": ["fiber", "fiber_suspended"]}, ops


def chan_value(r, ctx):
    u = r.random()
    nid = any_node(r, ctx["nodes"])
    if u < 0.3 and nid is not None:
        return "n%d" % nid, [nid]
    if u < 0.4:
        return "(fn [] :from-channel)", []
    return atom(r, ctx["opts"]), []


def it_chan(r, ctx):
    cap = r.choice([1, 2, 3, 5, 8, 17, 130])
    L = ["(def c (ev/chan %d))" % cap]
    cnt = 0
    gn = []
    model = []
    for _ in range(r.randint(1, min(cap + 3, 12))):
        if cnt < cap and r.random() < 0.75:
            v, g = chan_value(r, ctx)
            if r.random() < 0.05:
                v, g = "c", []
            gn += g
            L.append("(ev/give c %s)" % v)
            model.append(v)
            cnt += 1
        elif cnt > 0:
            L.append("(ev/take c)")
            model.pop(0)
            cnt -= 1
    closed = r.random() < 0.1
    if not closed and r.random() < 0.3:
        # givers blocked on the full channel when the image is taken: their items are in the queue beyond the capacity
        while cnt < cap:
            L.append("(ev/give c [:fill %d])" % cnt)
            model.append("fill")
            cnt += 1
        nb = r.randint(1, 3)
        for j in range(nb):
            L.append("(ev/spawn (protect (ev/with-deadline 0.05 (ev/give c [:blocked %d]))))" % j)
            model.append("blocked")
        L.append("(ev/sleep 0)")
        cnt += nb
        cap_over = True
    else:
        cap_over = False
    if closed:
        L.append("(ev/chan-close c)")
    b = "((fn [] %s c))" % " ".join(L)
    ops = [{"cls": "channel/count", "e": "[(ev/count X) (ev/capacity X) (ev/full X)]"}]
    k = 0
    take = "[(ev/take X) (ev/count X)]"
    if gn and len(ctx["nodes"]) <= 30:
        take = "[(ev/take X) (ev/count X) (R %d)]" % ctx["graph_id"]
    for _ in range(r.randint(1, 5)):
        if closed:
            ops.append({"cls": "channel/queued-items", "e": take, "gnodes": gn})
        elif cnt > 0 and r.random() < 0.7:
            ops.append({"cls": "channel/queued-items", "e": take, "gnodes": gn})
            cnt -= 1
        elif cnt < cap and not cap_over:
            k += 1
            ops.append({"cls": "channel/give-after-restore", "e": "(do (ev/give X [:late %d]) (ev/count X))" % k})
            cnt += 1
    while cnt > 0 and not closed:
        ops.append({"cls": "channel/queued-items", "e": take, "gnodes": gn})
        cnt -= 1
    tags = ["channel"] + (["channel_items"] if model else [])
    return {"k": "chan", "b": b, "needs": "none", "tags": tags, "gnodes": gn}, ops


PEGS = [
    ("~{:main (sequence (capture (some :d)) (any (sequence \",\" (capture (some :d)))))}", "0123456789,,x"),
    ("~(replace (sequence (capture :a+) \"=\" (number :d+)) ,(fn [k v] [k (* 2 v)]))", "ab=129x"),
    ("~{:ws (any (set \" \\t\")) :tok (group (sequence (constant :tok) (position) (capture (some (range \"az\" \"AZ\"))))) :main (some (sequence :ws :tok))}", "ab Cd\t e"),
    ("~(sequence (capture (some :w) :tag) \":\" (backmatch :tag))", "ab:ab:ac"),
    ("~(accumulate (some (choice (replace \"a\" \"1\") (replace \"b\" \"22\") (capture 1))))", "abcab"),
    ("~(sequence (lenprefix (number :d) (capture :a)) (position))", "3abcd2"),
    ("~(sequence (uint 2) (int-be 4) (uint-be 1) (position))", None),
    ("~(sequence (between 1 %(N)d \"a\") (capture (at-most 3 \"b\")) (if-not \"c\" (capture 1)) (line) (column))", "aaabbbd\na"),
    ("~(sequence (thru \"x\") (capture (to \"y\")) (argument 0) (constant %(C)s))", "aaxbbbyc"),
    ("~(cmt (sequence (capture :d+) \"+\" (capture :d+)) ,(fn [a b] (+ (length a) (length b))))", "12+345;"),
    ("~(split \",\" (capture (any :w)))", "ab,c,,d"),
    ("~(sequence (unref (sequence (capture :a :t) (backref :t))) (nth 1 (sequence (capture :d) (capture :d) (capture :d))) (only-tags (sequence (capture :w :u) (capture :w))) (backref :u))", "a123xy"),
    ("~{:main (sequence (sub (capture (to \";\")) :inner) \";\" (capture 1)) :inner (some (group (sequence (capture :a) (capture :d))))}", "a1b2;z"),
    ("~(sequence (some (choice (sequence (look 1 \"b\") (capture \"a\")) (drop (capture \"a\")) (capture \"b\" :bs))) (backref :bs) (error (capture \"!\")))", "aab!aab"),
    ("~(any (choice (capture %(L)s) (replace (capture 1) {\"x\" :ex \"y\" :why})))", "xyz"),
    ("~(some (number (some (set \"0123456789abcdefx\")) nil :n))", "0x1f 12"),
    ("~(repeat %(R)d (capture (range \"09\")))", "0123456789012"),
]


def it_peg(r, ctx):
    src, alpha = r.choice(PEGS)
    lit = jstr(rnd_bytes(r, r.choice([1, 2, 130]), b"xyz"))
    src = src % {"N": r.choice([3, 127, 128, 8192, 70000]), "C": atom(r, ctx["opts"]), "L": lit, "R": r.choice([1, 3, 12])} if "%(" in src else src
    b = "(peg/compile %s)" % src
    ops = []
    for _ in range(r.randint(2, 5)):
        if alpha is None:
            text = jstr(rnd_bytes(r, r.choice([6, 7, 8, 12])))
        else:
            al = alpha.encode()
            text = jstr(rnd_bytes(r, r.randint(0, 14), al)) if r.random() < 0.6 else jstr(al)
        ops.append({"cls": "peg/match", "e": "(peg/match X %s %d :arg0)" % (text, r.choice([0, 0, 0, 1, 2]))})
    return {"k": "peg", "b": b, "needs": "none", "tags": ["peg"]}, ops


def it_int64(r, ctx):
    vals = []
    for _ in range(r.randint(1, 5)):
        if r.random() < 0.55:
            vals.append('(int/s64 "%s")' % (r.choice(S64) if r.random() < 0.8 else str(r.randint(-2 ** 63, 2 ** 63 - 1))))
        else:
            vals.append('(int/u64 "%s")' % (r.choice(U64) if r.random() < 0.8 else str(r.randint(0, 2 ** 64 - 1))))
    shared = r.random() < 0.3
    b = "(let [z %s] (tuple %s%s))" % (vals[0], " ".join(vals), " z z" if shared else "")
    n = len(vals)
    ops = [{"cls": "int64/value", "e": "X"}]
    for _ in range(r.randint(1, 4)):
        i = r.randrange(n)
        e = r.choice(["(+ (X %d) 1)", "(* (X %d) 3)", "(- (X %d) 1)", "(/ (X %d) 7)", "(%% (X %d) 1000)", "(string (X %d))",
                      "(int/to-number (X %d))", "(compare (X %d) 240)", "(int/to-bytes (X %d))", "(= (X %d) (X 0))"]) % i
        ops.append({"cls": "int64/arithmetic", "e": e})
    return {"k": "int64", "b": b, "needs": "none", "tags": ["int64"]}, ops


def it_rng(r, ctx):
    b = "(let [g (math/rng %d)] %s g)" % (r.randrange(1 << 31), " ".join("(math/rng-int g 100)" for _ in range(r.randint(0, 3))))
    ops = [{"cls": "rng/stream", "e": r.choice(["(math/rng-int X 1000000)", "(math/rng-buffer X 9)", "(math/rng-uniform X)"])} for _ in range(r.randint(1, 3))]
    return {"k": "rng", "b": b, "needs": "none", "tags": []}, ops


def it_atoms(r, ctx):
    """all codec width boundaries and one string holding every byte"""
    nums = [x for x in NUMS if not (ctx["opts"].get("finite") and x in NONFINITE)]
    picks = r.sample(nums, r.randint(5, len(nums)))
    extra = []
    for base in r.sample([0, 127, 128, 8191, 8192, -8192, -8193, 2 ** 31 - 1, -2 ** 31, 2 ** 31, 2 ** 32, 2 ** 53], 4):
        for d in range(-3, 4):
            extra.append(str(base + d))
    strs = [all_bytes_string(), jstr(rnd_bytes(r, r.choice([127, 128, 129]))), "(string/repeat \"ab\" %d)" % r.choice([64, 4095, 4096, 4097]),
            "(symbol (string/repeat \"s\" %d))" % r.choice([127, 128, 8192]), "(keyword (string/repeat \"k\" %d))" % r.choice([127, 128, 8193])]
    b = "(tuple (tuple %s) @[%s] (tuple %s))" % (" ".join(picks), " ".join(extra), " ".join(strs))
    ops = [{"cls": "shape/numbers", "e": "(X 0)"}, {"cls": "shape/numbers", "e": "(X 1)"},
           {"cls": "shape/strings", "e": "(map (fn [s] [(type s) (length s) (sim/hash s)]) (X 2))"},
           {"cls": "shape/strings", "e": "((X 2) 0)"},
           {"cls": "shape/numbers", "e": "(map (fn [x] [(+ x 1) (* x 2) (math/floor x)]) (X 1))"}]
    return {"k": "atoms", "b": b, "needs": "none", "tags": []}, r.sample(ops, r.randint(2, len(ops)))


def it_ext(r, ctx):
    b = "@[ext-tab ext-fn [ext-tab] (fn [x] (ext-fn [x (ext-tab :n)]))]"
    ops = [{"cls": "lookup/external-values", "e": "[(X 0) ((X 1) 3) ((X 3) 4) (= (X 0) ((X 2) 0))]"}]
    return {"k": "ext", "b": b, "needs": "none", "tags": ["ext"]}, ops


def it_selfdef(r, ctx):
    """a closure whose definition holds, in its constants, a table that contains *another closure of the same
    definition*: while the image is read, that inner closure is created when its definition is still
    incomplete (funcdef back-reference from inside the definition's own constants).  With and without
    captured variables (a count check against the unfinished definition rejected such images: finding 37)."""
    n = r.randrange(1 << 30)
    ups = r.choice([0, 1, 1, 2, 3])
    params = " ".join("u%d" % i for i in range(ups))
    uvals = lambda: " ".join(num(r) for _ in range(ups))
    body = "[%s y (length selfdef-t-%d) (if (> y 0) ((get selfdef-t-%d :a) (- y 1)))]" % (" ".join("u%d" % i for i in range(ups)), n, n)
    # separate top-level forms: a top-level def is embedded in later functions as a constant
    b = ("(do (eval '(def selfdef-t-%d @{:pad %s})) (eval '(def selfdef-mk-%d (fn mk [%s] (fn inner [y] %s))))\n"
         "   (eval '(put selfdef-t-%d :a (selfdef-mk-%d %s))) %s(eval '(selfdef-mk-%d %s)))"
         % (n, num(r), n, params, body, n, n, uvals(),
            "(eval '(put selfdef-t-%d :b (selfdef-mk-%d %s))) " % (n, n, uvals()) if r.random() < 0.4 else "", n, uvals()))
    ops = [{"cls": "behaviour/closure-of-a-definition-reachable-from-its-own-constants", "e": "(X %d)" % r.randint(0, 4)}
           for _ in range(r.randint(1, 3))]
    ops.append({"cls": "shape/funcdef", "e": "(do (def d (fdef X)) [(length (d :bytecode)) (length (d :constants)) (d :environments)])"})
    return {"k": "selfdef", "b": b, "needs": "none", "tags": ["shared_env"] if ups else []}, ops


ITEM_KINDS = {
    "selfdef": it_selfdef,
    "counter": it_counter, "loop": it_loop, "rec": it_rec, "args": it_args, "nested": it_nested, "corefn": it_corefn,
    "capnode": it_capnode, "bigfn": it_bigfn, "fgen": it_fgen, "fdefer": it_fdefer, "fchild": it_fchild, "fenv": it_fenv,
    "fstate": it_fstate, "fdyn": it_fdyn, "chan": it_chan, "peg": it_peg, "int64": it_int64, "rng": it_rng,
    "atoms": it_atoms, "ext": it_ext,
}
WEIGHTS = {"selfdef": 2, "counter": 3, "loop": 3, "rec": 2, "args": 2, "nested": 2, "corefn": 2, "capnode": 3, "bigfn": 0.5, "fgen": 4,
           "fdefer": 3, "fchild": 3, "fenv": 3, "fstate": 2, "fdyn": 1.5, "chan": 4, "peg": 3, "int64": 3, "rng": 1, "atoms": 2,
           "ext": 1}

# ----------------------------------------------------------------------------
# asm/disasm leg: functions that capture nothing

ASM_FNS = [
    ("(fn [a b] (+ (* a b) (- a b) (% a 7)))", ["1 2", "127 128", "-8193 8192", "0.5 3"], False),
    ("(fn fact [n] (if (< n 2) 1 (* n (fact (- n 1)))))", ["0", "5", "20"], False),
    ("(fn [a &opt b & more] [a b (length more) more])", ["1", "1 2", "1 2 3 4", ""], False),
    ("(fn [a &keys {:x x :y y}] [a x y])", ["1", "1 :x 2", "1 :y 3 :x 2"], False),
    ("(fn [a &named x y] [a x y])", ["1", "1 :x 2 :y 3"], False),
    ("(fn [n] (var s 0) (for i 0 n (+= s (* i i))) s)", ["0", "10", "200"], False),
    ("(fn [xs] (def out @[]) (each x xs (when (> x 2) (array/push out (* x x)))) out)", ["[1 2 3 4]", "[]"], False),
    ("(fn [n] (def fs @[]) (for i 0 n (array/push fs (fn [] (* i 10)))) (map (fn [f] (f)) fs))", ["0", "3"], False),
    ("(fn [x] (def add (fn [y] (+ x y))) (def twice (fn [f v] (f (f v)))) (twice add 5))", ["1", "8192"], False),
    ("(fn [t] (string/join (map string (sort (keys t))) \",\"))", ["{:a 1 :b 2}", "@{}"], False),
    ("(fn [s] (match s [a b] (+ a b) {:k v} v (x (string? x)) (length x) _ :other))", ["[1 2]", "{:k 5}", "\"abc\"", ":zz"], False),
    ("(fn [x] (case x 1 :one 2 :two 128 :b 8192 :c \"s\" :str :default))", ["1", "128", "8192", "\"s\"", "nil"], False),
    ("(fn [x] (try (if (> x 5) (error [:too-big x]) x) ([e] [:caught e])))", ["1", "9"], False),
    ("(fn [x] (error (string \"bad \" x)))", ["1"], False),
    ("(fn [a] (def {:p p :q [q1 q2]} a) [p q1 q2])", ["{:p 1 :q [2 3]}", "{}"], False),
    ("(fn [& xs] (+ ;xs 2147483647 -2147483648 0.25 1e100))", ["", "1 2 3"], False),
    ("(fn [x] [x @[x] {:k x} @{:k x} \"const\" :kw 'sym 123456789012 -8193 (tuple/brackets x)])", ["1", ":v"], False),
    ("(fn [n] (var i 0) (while (< i n) (yield [i (* i i)]) (++ i)) [:done i])", ["3", "0"], True),
    ("(fn [x] (defer (yield :cleanup) (yield [:body x])) :end)", ["1"], True),
    ("(fn [x] (band (bor x 0xF0) (bxor x 255) (blshift x 3) (brshift x 1) (bnot x)))", ["5", "240", "8191"], False),
    ("(fn [a b] [(< a b) (<= a b) (= a b) (not= a b) (> a b) (>= a b) (compare a b)])", ["1 2", "2 2", "\"a\" \"b\""], False),
    ("(fn [b] (def buf @\"\") (buffer/push buf b) (put buf 0 65) (string buf (length buf)))", ["\"xyz\"", "\"\""], False),
    ("(fn long-name-of-a-function-that-goes-on-and-on [] (+ 1 2))", [""], False),
    # operands at the edges of the immediate fields of the instruction encoding
    ("(fn [x] [(+ x -128) (+ x 127) (+ x -129) (+ x 128) (* x -128) (* x 127) (- x -128) (- x 127) (/ x -128)])", ["0", "1", "-3.5"], False),
    ("(fn [x] [(= x -128) (= x 127) (< x -128) (> x 127) (<= x -128) (>= x 127) (not= x -128) (= x 128) (= x -129)])", ["-128", "127", "0"], False),
    ("(fn [] [-32768 32767 -32769 32768 -128 127 -129 128 -1 0 255 256 65535 65536])", [""], False),
    ("(fn [x] [(blshift x 0) (blshift x 31) (brshift x 127) (brushift x 1) (band x -128) (bor x 127)])", ["1", "-1", "255"], False),
]


def gen_tree(r, opts, depth=0):
    """source of a value without any sharing (fresh containers only)"""
    u = r.random()
    if depth >= 3 or u < 0.4:
        a = atom(r, opts)
        return a
    n = r.randint(0, 4)
    kids = [gen_tree(r, opts, depth + 1) for _ in range(n)]
    k = r.choice(["tuple", "btuple", "array", "table", "struct"])
    if k == "tuple":
        return "(tuple %s)" % " ".join(kids)
    if k == "btuple":
        return "(tuple/brackets %s)" % " ".join(kids)
    if k == "array":
        return "(array %s)" % " ".join(kids)
    ks = r.sample([q for q in KEY_POOL if q != "math/inf"], n)
    kv = " ".join("%s %s" % (a, "false" if b == "nil" else b) for a, b in zip(ks, kids))
    return "(%s %s)" % ("table" if k == "table" else "struct", kv)


def gen_asm(r, n, finite=False):
    out = []
    for _ in range(n):
        src, calls, fib = r.choice(ASM_FNS)
        if finite and "1e100" in src:
            src = src.replace("1e100", "1e10")
        out.append({"src": src, "calls": r.sample(calls, r.randint(1, len(calls))), "fiber": fib})
    return out


# ----------------------------------------------------------------------------

def wchoice(r, weights):
    tot = sum(w for _, w in weights)
    u = r.random() * tot
    for k, w in weights:
        u -= w
        if u <= 0:
            return k
    return weights[-1][0]


def gen_plan(r, seed, tier):
    mode = wchoice(r, [("tiny", 3), ("small", 5), ("medium", 2), ("large", 0.4)])
    gsize = {"tiny": r.randint(1, 4), "small": r.randint(3, 12), "medium": r.randint(10, 40), "large": r.randint(60, 200)}[mode]
    nitems = {"tiny": r.randint(0, 2), "small": r.randint(1, 5), "medium": r.randint(3, 9), "large": r.randint(6, 16)}[mode]
    dict_mode = wchoice(r, [("none", 3), ("core", 4), ("env", 1.5), ("custom", 1.5), ("layered", 1.5)])
    restarts = wchoice(r, [(1, 6), (2, 2.5), (3, 1.5)])
    flavour = "asan" if r.random() < 0.1 else "plain"
    # asan flavour = ASan+UBSan: the harness's canonical printer and Janet's compiler cast doubles to
    # integers, which UBSan rejects for non-finite/huge values; those atoms are left to the plain flavour
    opts = {"negzero": r.random() < 0.03, "weak": r.random() < 0.3, "ext": r.random() < 0.3, "finite": flavour == "asan"}
    nodes = gen_graph(r, gsize, opts)
    if any(nd.get("len", 0) > 1000 for nd in nodes):
        for nd in nodes:
            for c in nd.get("items", []) + [x for kv in nd.get("kv", []) for x in kv]:
                if c.get("a") == "(* -1 0)":
                    c["a"] = "0.25"
    # swarm: a random subset of item kinds is enabled per plan
    kinds = [k for k in sorted(ITEM_KINDS) if r.random() < 0.6]
    if not kinds:
        kinds = [r.choice(sorted(ITEM_KINDS))]
    items = [{"id": 0, "k": "graph", "nodes": nodes, "needs": "none", "tags": []}]
    ctx = {"nodes": nodes, "graph_id": 0, "dict": dict_mode, "opts": {"finite": opts["finite"]}}
    per_item_ops = [(0, graph_ops(r, nodes, r.randint(0, 3 + gsize // 3)))]
    nfib = 0
    for _ in range(nitems):
        k = wchoice(r, [(k, WEIGHTS[k]) for k in kinds])
        if k.startswith("f") and nfib >= 4:
            continue
        res = ITEM_KINDS[k](r, ctx)
        if res is None:
            continue
        it, ops = res
        if it["needs"] == "core" and dict_mode == "none":
            continue
        if k.startswith("f"):
            nfib += 1
        it["id"] = len(items)
        items.append(it)
        per_item_ops.append((it["id"], ops))
    # segments: each item's ops keep their order, segment numbers are non-decreasing per item
    ops = []
    for iid, lst in per_item_ops:
        segs = sorted(r.randint(1, restarts) for _ in lst)
        for o, s in zip(lst, segs):
            o["it"] = iid
            o["seg"] = s
            o["ord"] = r.random()
        # keep per-item order inside a segment
        for s in set(segs):
            grp = [o for o in lst if o["seg"] == s]
            ords = sorted(o["ord"] for o in grp)
            for o, q in zip(grp, ords):
                o["ord"] = q
        ops += lst
    ops.sort(key=lambda o: (o["seg"], o["ord"]))
    for i, o in enumerate(ops):
        o["id"] = i
        del o["ord"]
    for s in range(1, restarts + 1):
        if r.random() < 0.3:
            ops.append({"id": len(ops), "it": -1, "seg": s, "cls": "gc", "e": "(do (gccollect) :gc)", "first": r.random() < 0.7})
    neg = [k for k in ("cfun", "alive", "cframe", "stream", "sleeping") if r.random() < 0.12]
    asm = gen_asm(r, r.choice([0, 0, 1, 2, 4]), opts["finite"])
    nocycles = gen_tree(r, {"finite": opts["finite"]}) if r.random() < 0.15 else None
    gcmode = wchoice(r, [("default", 6), ("bern 0.02", 2), ("bern 0.2", 1), ("every", 0.3 if mode in ("tiny", "small") else 0)])
    knobs = {"seed": seed}
    if gcmode != "default":
        knobs["gc"] = gcmode
    return {"property": "C09", "knobs": knobs, "flavour": flavour, "dict": dict_mode,
            "restarts": restarts, "live_env": r.random() < 0.4, "pad": r.choice([0, 0, 3, 9, 14, 17, 22, 30, 35, 47]), "items": items, "ops": ops,
            "asm": asm, "neg": neg, "mode": mode, "nocycles": nocycles}


# ----------------------------------------------------------------------------
# rendering

PRELUDE = r"""
(def ext-tab @{:ext "tab" :n 42})
(defn ext-fn [x] [:ext x])
(def MODE %(mode)s)
(defn dicts []
  (case MODE
    :none [nil nil]
    :core [make-image-dict load-image-dict]
    :env (let [f (env-lookup root-env)] [(invert f) f])
    :custom (let [f (merge load-image-dict {'ext/tab ext-tab 'ext/fn ext-fn})] [(invert f) f])
    # the program's own entries in a table of their own that inherits the core's entries through its prototype
    :layered (let [own @{'ext/tab ext-tab 'ext/fn ext-fn}]
               [(table/setproto (invert own) make-image-dict) (table/setproto own load-image-dict)])))
(defn save [key r]
  (def rev ((dicts) 0))
  (sim/persist key (if rev (marshal r rev) (marshal r))))
(defn load [key]
  (def fwd ((dicts) 1))
  (if fwd (unmarshal (sim/restore key) fwd) (unmarshal (sim/restore key))))
(defn drop-garbage [t] (put t 9999 @[1 2 3]) nil)
(defn drop-garbage-arr [a] (array/push a @[1 2 3]) nil)
(defn fdef [f]
  (def d (disasm f))
  (defn strip [d] (struct ;(mapcat (fn [k] [k (if (= k :defs) (map strip (d k)) (d k))])
     [:arity :min-arity :max-arity :vararg :structarg :slotcount :bytecode :constants :environments :defs :name])))
  (strip d))
(defn opx [tag seg idx f]
  (def res (try [:ok (f)] ([e] [:err e])))
  (sim/ev tag seg idx (res 0) (res 1)))
"""


def subst(e, iid):
    return e.replace("X", "(R %d)" % iid)


def render_segments(plan):
    L = []
    for s in range(1, plan["restarts"] + 1):
        L.append("(defn seg%d [tag R]" % s)
        sops = [o for o in plan["ops"] if o["seg"] == s]
        first = [o for o in sops if o.get("cls") == "gc" and o.get("first")]
        rest = [o for o in sops if not (o.get("cls") == "gc" and o.get("first"))]
        for o in first + rest:
            L.append("  (opx tag %d %d (fn [] %s))" % (s, o["id"], subst(o["e"], o["it"])))
        L.append("  nil)")
    return "\n".join(L)


def render_build(plan):
    # the graph is built by its own function: `build` must stay below 256 slots, because closures
    # cannot capture locals that live in far slots (they read nil; a compiler limit outside C09)
    L = []
    used = set()
    for it in plan["items"]:
        used.update(it.get("gnodes", []))
    for it in plan["items"]:
        if it["k"] == "graph":
            forms, expr = render_graph(it["nodes"])
            L.append("(defn build-graph []")
            L += ["  " + f for f in forms]
            L.append("  %s)" % expr)
    L.append("(defn build [k]")
    # padding locals move the captured variables of the closure items to other frame slots
    # (the on-stack environment encoding works on 32-slot words)
    for i in range(plan.get("pad", 0)):
        L.append("  (def pad%d %d)" % (i, i))
    for it in plan["items"]:
        if it["k"] == "graph":
            L.append("  (def item%d (build-graph))" % it["id"])
            for nid in sorted(used):
                L.append("  (def n%d (item%d %d))" % (nid, it["id"], nid))
        else:
            L.append("  (def item%d %s)" % (it["id"], it["b"]))
    L.append("  (def root @{%s})" % " ".join("%d item%d" % (it["id"], it["id"]) for it in plan["items"]))
    if plan.get("live_env"):
        L.append("  (def res (k root))")
        L.append("  res)")
    else:
        L.append("  root)")
    return "\n".join(L)


NEG = {
    "cfun": "sim/ev",
    "alive": "(fiber/current)",
    "cframe": "(let [f (fiber/new (fn [] (string/repeat \"a\" -1)) :e)] (resume f) f)",
    "stream": "(first (os/pipe))",
    "sleeping": "(let [f (ev/go (fn [] (ev/sleep 5)))] (ev/sleep 0) f)",
}


def render(plan):
    K = plan["restarts"]
    pre = PRELUDE % {"mode": ":" + plan["dict"]} + render_segments(plan) + "\n"
    segcalls = " ".join("(seg%d :ref r)" % s for s in range(1, K + 1))
    p0 = [pre, render_build(plan)]
    m = ["(defn main []"]
    gc_on = "(sim/gc :on)" if plan["knobs"].get("gc") else ""
    saveb = "(fn [r] %s (sim/ev :save 0 ;(try (do (save :img r) [:ok]) ([e] [:err e]))) (sim/gc :off))" % gc_on
    refb = "(fn [r] %s %s (sim/gc :off))" % (gc_on, segcalls)
    if plan.get("live_env"):
        m.append("  (build %s)" % refb)
        m.append("  (build %s)" % saveb)
    else:
        m.append("  (%s (build nil))" % refb)
        m.append("  (%s (build nil))" % saveb)
    for i, k in enumerate(plan.get("neg", [])):
        m.append("  (sim/ev :neg %d %s ;(try (do (save :neg %s) [:marshalled]) ([e] [:err e])))" % (i, ":" + k, NEG[k]))
    for i, a in enumerate(plan.get("asm", [])):
        m.append("  (def af%d %s)" % (i, a["src"]))
        m.append("  (def ag%d (try (asm (disasm af%d)) ([e] (sim/ev :asm-error %d e) nil)))" % (i, i, i))
        m.append("  (when ag%d" % i)
        for j, c in enumerate(a["calls"]):
            for tag, fn in (("asmf", "af%d" % i), ("asmg", "ag%d" % i)):
                if a["fiber"]:
                    m.append("    (opx :%s %d %d (fn [] (def fb (fiber/new (fn [] (%s %s)))) %s))" % (tag, i, j, fn, c, drain("fb")))
                else:
                    m.append("    (opx :%s %d %d (fn [] (%s %s)))" % (tag, i, j, fn, c))
        m.append("  )")
    if plan.get("nocycles"):
        m.append("  (def nc %s)" % plan["nocycles"])
        m.append("  (sim/ev :ncref :ok nc)")
        m.append("  (sim/persist :nc (marshal nc (or ((dicts) 0) @{}) @\"\" true))")
    m.append("  (sim/ev :phase-done 0))")
    p0.append("\n".join(m))
    p0.append("(ev/go main)")
    phases = ["\n".join(p0)]
    for s in range(1, K + 1):
        p = [pre, "(defn main []",
             "  (def r (try (load :img) ([e] (sim/ev :load-error %d e) nil)))" % s,
             "  (when r",
             "    (sim/ev :loaded %d)" % s,
             "    %s" % gc_on,
             "    (seg%d :img r)" % s]
        if s < K:
            p.append("    (sim/ev :save %d ;(try (do (save :img r) [:ok]) ([e] [:err e])))" % s)
        p.append("    (sim/gc :off))")
        if s == 1 and plan.get("nocycles"):
            p.append("  (sim/ev :ncimg ;(try [:ok (let [fwd ((dicts) 1)] (if fwd (unmarshal (sim/restore :nc) fwd) (unmarshal (sim/restore :nc))))] ([e] [:err e])))")
        p.append("  (sim/ev :phase-done %d))" % s)
        p.append("(ev/go main)")
        phases.append("\n".join(p))
    return phases


# ----------------------------------------------------------------------------
# shrinking

def clone(p):
    return json.loads(json.dumps(p))


def shrink(plan):
    P = plan
    if P.get("flavour") != "plain":
        q = clone(P)
        q["flavour"] = "plain"
        yield q
    if P["knobs"].get("gc"):
        q = clone(P)
        del q["knobs"]["gc"]
        yield q
    if P.get("asm"):
        q = clone(P)
        q["asm"] = []
        yield q
        if len(P["asm"]) > 1:
            for i in range(len(P["asm"])):
                q = clone(P)
                del q["asm"][i]
                yield q
        for i, a in enumerate(P["asm"]):
            if len(a["calls"]) > 1:
                for j in range(len(a["calls"])):
                    q = clone(P)
                    del q["asm"][i]["calls"][j]
                    yield q
    if P.get("neg"):
        q = clone(P)
        q["neg"] = []
        yield q
    if P.get("nocycles"):
        q = clone(P)
        q["nocycles"] = None
        yield q
    if P["restarts"] > 1:
        q = clone(P)
        q["restarts"] = 1
        for o in q["ops"]:
            o["seg"] = 1
        yield q
    if P.get("live_env"):
        q = clone(P)
        q["live_env"] = False
        yield q
    # drop items (never the graph; its nodes are shrunk below)
    for it in P["items"]:
        if it["k"] == "graph":
            continue
        q = clone(P)
        q["items"] = [x for x in q["items"] if x["id"] != it["id"]]
        q["ops"] = [o for o in q["ops"] if o["it"] != it["id"]]
        yield q
    # drop ops: halves, then single ops
    n = len(P["ops"])
    size = n // 2
    while size >= 2:
        for start in range(0, n, size):
            q = clone(P)
            del q["ops"][start:start + size]
            yield q
        size //= 2
    for i in range(n):
        q = clone(P)
        del q["ops"][i]
        yield q
    # dictionary mode
    if P["dict"] in ("env", "custom", "layered"):
        q = clone(P)
        q["dict"] = "core"
        yield q
    if P["dict"] != "none" and all(it.get("needs", "none") == "none" for it in P["items"]):
        q = clone(P)
        q["dict"] = "none"
        yield q
    # graph nodes: remove a node nobody else names; its uses become nil / disappear
    g = P["items"][0]
    live = [nd for nd in g["nodes"] if nd["t"] != "gone"]
    used = set()
    for it in P["items"][1:]:
        used.update(it.get("gnodes", []))
    for o in P["ops"]:
        used.update(o.get("gnodes", []))

    def remove_nodes(q, ids):
        gq = q["items"][0]
        for nd in gq["nodes"]:
            if nd["id"] in ids:
                for key in ("items", "kv", "proto", "weak", "len", "fill"):
                    nd.pop(key, None)
                nd["t"] = "gone"
        for nd in gq["nodes"]:
            if "items" in nd:
                nd["items"] = [c for c in nd["items"] if c.get("n") not in ids]
            if "kv" in nd:
                nd["kv"] = [[k, v] for k, v in nd["kv"] if k.get("n") not in ids and v.get("n") not in ids]
            if nd.get("proto") in ids:
                nd["proto"] = None
                if nd["t"] == "pstruct":
                    nd["t"] = "struct"
        q["ops"] = [o for o in q["ops"] if not (o["it"] == 0 and set(o.get("nodes", [])) & ids)]

    cands = [nd["id"] for nd in live if nd["id"] not in used]
    size = len(cands) // 2
    while size >= 2:
        for start in range(0, len(cands), size):
            q = clone(P)
            remove_nodes(q, set(cands[start:start + size]))
            yield q
        size //= 2
    for nid in cands:
        q = clone(P)
        remove_nodes(q, {nid})
        yield q
    # children of the remaining nodes
    for nd in live:
        for key in ("items", "kv"):
            lst = nd.get(key, [])
            if len(lst) > 4:
                q = clone(P)
                tgt = next(x for x in q["items"][0]["nodes"] if x["id"] == nd["id"])
                tgt[key] = tgt[key][:len(lst) // 2]
                yield q
            for ci in range(len(lst)):
                if len(lst) > 12:
                    break
                q = clone(P)
                tgt = next(x for x in q["items"][0]["nodes"] if x["id"] == nd["id"])
                del tgt[key][ci]
                yield q
        if nd.get("proto") is not None and nd["t"] == "table":
            q = clone(P)
            tgt = next(x for x in q["items"][0]["nodes"] if x["id"] == nd["id"])
            tgt["proto"] = None
            yield q
        if nd.get("len", 0) > 4:
            q = clone(P)
            tgt = next(x for x in q["items"][0]["nodes"] if x["id"] == nd["id"])
            tgt["len"] = nd["len"] // 2
            yield q
