"""C08 - threads and thread channels deliver every message exactly once, race-free.

Real OS threads run under the simulator's serialising scheduler: every libc seam call and
every H2 point inside Janet's cross-thread code is a yield point, and a seeded scheduler
(random walk or PCT priorities) decides who runs next.  Workload: topologies of threads and
thread channels (producers, consumers, selects across thread channels, close while blocked,
receivers that give up on a deadline and retry, ev/thread with and without :n, supervisor
channels, locks).  Oracle over the global history: exactly-once, structural equality,
per-(sender, channel, receiver) order, join-after-finish, supervisor events, mutual
exclusion, no lost wake-up at quiescence, lock discipline at H2 points, allocation balance
after the last VM is torn down; ThreadSanitizer on the seeded schedule (tsan flavour) and
AddressSanitizer (asan flavour) on a share of the plans."""
import json
import random

from common import Driver, Violation, make_request

SHAPES = [
    "{ID}", '"s-{ID}"', '"nul\\0byte-{ID}"', ":kw-{ID}", "[{ID} [1 2 [3]] \"x\"]", "{{:id {ID} :t [1 2] :s {{:a 1}}}}",
    "@[{ID} @[1 @{{:k :v}}] @\"buf\"]", "@{{:id {ID} :arr @[1 2 3]}}", "(int/s64 \"{ID}\")", "(int/u64 \"18446744073709551615\")",
    "(let [sh @[{ID}]] [sh sh])", "(string/repeat \"x\" (+ 100 (% {ID} 1000)))", "1e300", "-0.5", "127", "128", "-129", "8191", "8192",
    "2147483647", "2147483648", "9007199254740992", "(fn [] {ID})", "(buffer/new-filled 300 (% {ID} 256))",
    # shared abstracts the receiving thread already holds, in the middle of a message whose later parts repeat
    # earlier ones (back-references are numbered across the whole message, abstracts included)
    "[(chans 0) \"a\" \"b\" \"c\" \"b\" {ID}]", "(let [s (string \"q\" {ID})] [L s [s s] (chans 0) s RW [s :k :k]])",
]


class C08(Driver):
    prop = "C08"
    level = "exploration"
    flavours = ["plain", "asan", "tsan"]
    budgets = {"quick": 60, "thorough": 1200}
    rule = ("plan = threads x ops (give/take/select/take-with-deadline/close/sleep/lock sections) over thread channels with "
            "seeded capacities and message shapes, scheduler mode (random walk with seeded preemption probability or PCT "
            "with d change points) and clock tick; the interleaving is decided by the seeded serialising scheduler at every "
            "libc seam call and H2 point; non-trivial = at least one context switch was taken; distinct = distinct switch-"
            "sequence hash x plan")
    assumptions = ["one thread runs at a time (serialised): true parallel memory effects are judged by ThreadSanitizer's "
                   "happens-before graph on the executed schedule, which contains only Janet's own synchronisation",
                   "ev/deadline with the interrupt flag and os/sigaction are out of scope"]
    required_probes = ["context_switches", "message_received", "reader_gave_up_on_deadline", "select_across_threads"]
    # runs that contain a stale pending entry go through a dangling VM pointer (recorded finding): what happens then
    # depends on freed memory and reused descriptors, so such a run need not recur exactly
    unstable_prefixes = ("C08/stale-thread-chan-entry/",)
    timeout_ms = 30000

    # ---------------- generation ----------------
    def gen(self, seed, tier):
        r = random.Random(seed)
        nch = r.randint(1, 3)
        caps = [r.choice([0, 0, 1, 2, 8]) for _ in range(nch)]
        nth = r.randint(1, 5)
        threads = []
        w_close = r.choice([0, 0, 0.05])
        w_sel = r.choice([0, 0, 0.15])
        w_dl = r.choice([0, 0, 0.2])
        w_lock = r.choice([0, 0, 0.15])
        balanced = r.random() < 0.5
        w_lend = r.choice([0, 0, 0.15])
        main_only_abandons = r.random() < 0.35
        if main_only_abandons:
            # (such a plan is about abandoned waits: make sure the main thread has some)
            w_sel, w_dl = max(w_sel, 0.2), max(w_dl, 0.15)
            if nch < 2:
                nch = 2
                caps.append(r.choice([0, 0, 1, 2, 8]))
        for t in range(nth + 1):          # thread 0 = the main thread
            bias = r.random()
            ops = []
            for k in range(r.randint(1, 8)):
                u = r.random()
                if main_only_abandons and t > 0 and 0.1 + w_close <= u < 0.1 + w_close + w_sel + w_dl:
                    u = 0.99     # (a plain give / take instead of an operation that can be abandoned)
                c = r.randrange(nch)
                mid = t * 1000 + k
                if u < 0.1:
                    ops.append({"op": "sleep", "ms": r.choice([0, 1, 2])})
                elif u < 0.1 + w_close:
                    ops.append({"op": "close", "ch": c})
                elif u < 0.1 + w_close + w_sel and nch > 1:
                    cs = r.sample(range(nch), 2)
                    ops.append({"op": "select", "chs": cs})
                elif u < 0.1 + w_close + w_sel + w_dl:
                    ops.append({"op": "take-dl", "ch": c, "ms": r.choice([1, 2, 5]), "tries": r.randint(1, 3)})
                elif u < 0.1 + w_close + w_sel + w_dl + w_lock:
                    ops.append({"op": r.choice(["lock", "lock", "rlock", "wlock"])})
                elif r.random() < bias:
                    ops.append({"op": "give", "ch": c, "mid": mid, "shape": r.randrange(len(SHAPES))})
                    if r.random() < 0.04:
                        # a value that cannot travel between threads: the give raises, and the channel stays usable
                        ops[-1]["bad"] = 1
                    elif r.random() < w_lend:
                        # the payload is a fresh thread channel: the receiver uses it once, drops it and collects,
                        # the lender goes on using it (shared abstract, reference counted across threads)
                        ops[-1]["lend"] = 1
                else:
                    ops.append({"op": "take", "ch": c})
            threads.append({"id": t, "ops": ops, "mode": r.choice(["join", "join", "n", "sup"]) if t else "main"})
            if t:
                # the value handed to ev/thread and the value the body returns travel like messages; a supervised
                # or joined body may also end by raising
                threads[-1]["arg"] = r.randrange(len(SHAPES))
                threads[-1]["retv"] = r.randrange(len(SHAPES))
                threads[-1]["raises"] = threads[-1]["mode"] in ("join", "sup") and r.random() < 0.15
        if balanced:
            # top up with takes/gives so that every channel has as many takes as gives (plans that can run to completion)
            for c in range(nch):
                g = sum(1 for th in threads for op in th["ops"] if op["op"] == "give" and op["ch"] == c)
                k = sum(1 for th in threads for op in th["ops"] if op["op"] in ("take",) and op["ch"] == c)
                while k < g:
                    th = threads[r.randrange(len(threads))]
                    th["ops"].append({"op": "take", "ch": c})
                    k += 1
                while g < k:
                    th = threads[r.randrange(len(threads))]
                    th["ops"].append({"op": "give", "ch": c, "mid": th["id"] * 1000 + len(th["ops"]), "shape": r.randrange(len(SHAPES))})
                    g += 1
        burst = None
        if r.random() < 0.12:
            # many fibers of the main thread parked on one thread channel; a producer thread serves them all while
            # the main thread is away from its event loop (blocking sleep): the hand-offs arrive in one burst
            n = r.choice([5, 17, 18, 33, 40, 65, 70, 100, 129, 257, 300])
            caps.append(r.choice([0, 0, 1, 8]))
            bch = len(caps) - 1
            threads[0]["ops"].insert(r.randint(0, len(threads[0]["ops"])), {"op": "burst-take", "ch": bch, "n": n, "away_ms": r.choice([5, 20])})
            pt = len(threads)
            threads.append({"id": pt, "mode": r.choice(["join", "n"]),
                            "ops": [{"op": "burst-give", "ch": bch, "n": n, "base": pt * 1000}]})
            burst = {"ch": bch, "n": n}
        sched = r.choice(["random", "random", "pct1", "pct2", "pct3"])
        knobs = {"seed": seed, "p": {"switch": r.choice([0.02, 0.1, 0.3, 0.6])}, "sched": sched,
                 "tick_ns": r.choice([0, 0, 20000, 200000]), "max_yields": 600000}
        u = r.random()
        flavour = "tsan" if u < 0.12 else ("asan" if u < 0.24 else "plain")
        if r.random() < 0.3:
            for k in ("eintr_r", "eintr_w", "eagain_r", "epoll_eintr", "epoll_delay"):
                if r.random() < 0.4:
                    knobs["p"][k] = r.choice([0.05, 0.2])
        plan = {"property": "C08", "knobs": knobs, "caps": caps, "threads": threads, "flavour": flavour}
        if main_only_abandons:
            # every stale entry then belongs to the main thread, whose VM outlives the run: nothing dangles, and the
            # re-dispatch of messages that reach a stale entry has to conserve them
            plan["strict"] = 1
            if r.random() < 0.5:
                plan["collector"] = r.choice([5, 20, 60])
            if r.random() < 0.5:
                # collections at seeded safepoints in every thread: a task parked on a thread channel is kept alive
                # only by the root its pending entry took
                knobs["gc"] = "bern %s" % r.choice([0.01, 0.05])
        if burst:
            plan["burst"] = burst
        return plan

    # ---------------- rendering ----------------
    def render(self, plan):
        L = []
        A = L.append
        A("(def chans [%s])" % " ".join("(ev/thread-chan %d)" % c for c in plan["caps"]))
        A("(def sup (ev/thread-chan 64))")
        A("(def L (ev/lock)) (def RW (ev/rwlock))")
        A("(defn cid [c] (find-index |(= $ c) chans))")
        A("(defn mk [shape id] (case shape %s))" % " ".join("%d %s" % (i, s.replace("{ID}", "id").replace("{{", "{").replace("}}", "}")
                                                             .replace('"s-id"', '(string "s-" id)').replace('"nul\\0byte-id"', '(string "nul\\0byte-" id)')
                                                             .replace(":kw-id", '(keyword "kw-" id)').replace('(int/s64 "id")', "(int/s64 (string id))"))
                                                  for i, s in enumerate(SHAPES)))
        A("(defn unabs [v] (cond (= (type v) :core/channel) [:chan (cid v)] (= (type v) :core/lock) :a-lock (= (type v) :core/rwlock) :a-rwlock (tuple? v) (tuple/slice (map unabs v)) v))")
        A("(defn show [v] (cond (function? v) [:fn (v)] (= (type v) :core/channel) :lent-channel (sim/canon (unabs v))))")
        A("(defn borrow [v] (when (= (type v) :core/channel) (ev/give v :echo)) nil)")
        A("(defn after-borrow [] (gccollect) (gccollect))")
        # what a plain take hands out must be the [id payload] pair that was given, nothing else
        A("(defn msg? [v] (and (tuple? v) (= 2 (length v)) (number? (v 0))))")
        for th in plan["threads"]:
            t = th["id"]
            A("(defn body%d [& args]" % t)
            A("  (sim/ev :tstart %d)" % t)
            if t:
                A("  (sim/ev :targ-got %d (show (get args 0)))" % t)
            A("  (def lent @[])")
            A("  (try (do")
            for k, op in enumerate(th["ops"]):
                o = op["op"]
                if o == "sleep":
                    A("  (ev/sleep %s)" % (op["ms"] / 1000.0))
                elif o == "give":
                    mk = "(mk %d %d)" % (op["shape"], op["mid"]) if not op.get("lend") else "(let [c (ev/thread-chan 1)] (array/push lent c) c)"
                    if op.get("bad"):
                        A("  (sim/ev :inv %d %d) (let [[ok v] (protect (ev/give (chans %d) [%d (parser/new)]))] (sim/ev :ret %d %d :badgive ok (if ok :accepted :refused)))"
                          % (t, k, op["ch"], op["mid"], t, k))
                        continue
                    A("  (let [m %s] (sim/ev :inv %d %d) (sim/ev :send %d %d %d (show m))" % (mk, t, k, t, op["ch"], op["mid"]))
                    A("    (let [[ok v] (protect (ev/give (chans %d) [%d m]))] (sim/ev :ret %d %d :give ok (if ok (if v :ok :closed) v))))"
                      % (op["ch"], op["mid"], t, k))
                elif o == "take":
                    A("  (sim/ev :inv %d %d)" % (t, k))
                    A("  (let [[ok v] (protect (ev/take (chans %d)))] (if (and ok v) (if (msg? v) (do (sim/ev :got %d %d (v 0) (show (v 1))) (borrow (v 1))) (sim/ev :badshape %d %d :take (show v)))) (sim/ev :ret %d %d :take ok (if ok (if v :msg :nil) v)))"
                      % (op["ch"], t, op["ch"], t, op["ch"], t, k))
                    A("  (after-borrow)")
                elif o == "burst-give":
                    # (a loop, not n unrolled forms: a function body with hundreds of captured locals does not compile)
                    A("  (for k 0 %d (let [mid (+ %d k) m (mk (in [0 1 4] (%% k 3)) mid)] (sim/ev :inv %d (+ 2000 k)) (sim/ev :send %d %d mid (show m))"
                      % (op["n"], op["base"], t, t, op["ch"]))
                    A("    (let [[ok v] (protect (ev/give (chans %d) [mid m]))] (sim/ev :ret %d (+ 2000 k) :give ok (if ok (if v :ok :closed) v)))))" % (op["ch"], t))
                elif o == "burst-take":
                    A("  (for j 0 %d (ev/spawn (sim/ev :inv %d (+ 1000 j))" % (op["n"], t))
                    A("    (let [[ok v] (protect (ev/take (chans %d)))] (if (and ok v) (if (msg? v) (sim/ev :got %d %d (v 0) (show (v 1))) (sim/ev :badshape %d %d :take (show v))))"
                      % (op["ch"], t, op["ch"], t, op["ch"]))
                    A("      (sim/ev :ret %d (+ 1000 j) :take ok (if ok (if v :msg :nil) v)))))" % t)
                    A("  (ev/sleep 0) (os/sleep %s) (ev/sleep 0)" % (op["away_ms"] / 1000.0))
                elif o == "select":
                    A("  (sim/ev :inv %d %d)" % (t, k))
                    A("  (let [[ok r] (protect (ev/select (chans %d) (chans %d)))]" % (op["chs"][0], op["chs"][1]))
                    A("    (if (and ok (tuple? r) (= (r 0) :take)) (if (and (= 3 (length r)) (cid (r 1)) (msg? (r 2))) (sim/ev :got %d (cid (r 1)) ((r 2) 0) (show ((r 2) 1))) (sim/ev :badshape %d -1 :select (show r))))" % (t, t))
                    A("    (if (and ok (not (tuple? r))) (sim/ev :badshape %d -1 :select (show r)))" % t)
                    A("    (sim/ev :ret %d %d :select ok (if (and ok (tuple? r)) (r 0) r) (if (and ok (tuple? r)) (cid (r 1)))))" % (t, k))
                elif o == "take-dl":
                    A("  (sim/ev :inv %d %d)" % (t, k))
                    A("  (var got false) (var tries 0)")
                    A("  (while (and (not got) (< tries %d)) (++ tries)" % op["tries"])
                    A("    (let [[ok v] (protect (ev/with-deadline %s (ev/take (chans %d))))]" % (op["ms"] / 1000.0, op["ch"]))
                    A("      (cond (and ok v (not (msg? v))) (do (set got true) (sim/ev :badshape %d %d :take (show v)))" % (t, op["ch"]))
                    A("            (and ok v) (do (set got true) (sim/ev :got %d %d (v 0) (show (v 1))))" % (t, op["ch"]))
                    A("            ok (set got :closed)")
                    A("            (sim/ev :gaveup %d %d v))))" % (t, op["ch"]))
                    A("  (sim/ev :ret %d %d :take-dl true got)" % (t, k))
                elif o == "close":
                    A("  (sim/ev :inv %d %d) (ev/chan-close (chans %d)) (sim/ev :closed %d %d) (sim/ev :ret %d %d :close true nil)"
                      % (t, k, op["ch"], t, op["ch"], t, k))
                elif o == "lock":
                    A("  (ev/acquire-lock L) (sim/ev :crit-enter %d :x) (sim/ev :crit-exit %d :x) (ev/release-lock L)" % (t, t))
                elif o == "wlock":
                    A("  (ev/acquire-wlock RW) (sim/ev :crit-enter %d :w) (sim/ev :crit-exit %d :w) (ev/release-wlock RW)" % (t, t))
                elif o == "rlock":
                    A("  (ev/acquire-rlock RW) (sim/ev :crit-enter %d :r) (sim/ev :crit-exit %d :r) (ev/release-rlock RW)" % (t, t))
            if any(op.get("lend") for op in th["ops"]):
                # keep using what was lent out, after the borrowers may have dropped it, collected and exited
                A("  (ev/sleep 0.003) (gccollect)")
                A("  (each c lent (ev/count c) (when (> (ev/count c) 0) (ev/take c) (sim/ev :echo)) (ev/give c :again) (ev/take c) (ev/capacity c))")
            A("  ) ([e] (sim/ev :terror %d e)))" % t)
            if th.get("raises"):
                A("  (sim/ev :tend %d) (error \"raised-by-%d\"))" % (t, t))
            elif "retv" in th:
                A("  (let [rv (mk %d %d)] (sim/ev :tret-sent %d (show rv)) (sim/ev :tend %d) rv))" % (th["retv"], 7000 + t, t, t))
            else:
                A("  (sim/ev :tend %d) %d)" % (t, 7000 + t))
        for th in plan["threads"]:
            t = th["id"]
            if th["mode"] == "main":
                if plan.get("collector"):
                    # another fiber of the main thread collects while the body is parked: a task parked on a thread
                    # channel is kept alive only by the roots its pending entries took
                    A("(ev/spawn (repeat %d (ev/sleep 0.001) (gccollect)))" % plan["collector"])
                A("(ev/go body0)")
            elif th["mode"] == "join":
                A("(ev/spawn (sim/ev :spawn %d) (let [a (mk %d %d)] (sim/ev :targ-sent %d (show a)) (let [[ok v] (protect (ev/thread body%d a))] (sim/ev :joined %d ok (show v)))))"
                  % (t, th.get("arg", 0), 8000 + t, t, t, t))
            elif th["mode"] == "n":
                A("(ev/spawn (sim/ev :spawn %d) (let [a (mk %d %d)] (sim/ev :targ-sent %d (show a)) (ev/thread body%d a :n)))" % (t, th.get("arg", 0), 8000 + t, t, t))
            else:
                # (with :t the value is also the task id that names the thread in supervisor events)
                A("(ev/spawn (sim/ev :spawn %d) (sim/ev :targ-sent %d (show %d)) (ev/thread body%d %d :nt sup))" % (t, t, t, t, t))
        # after everything has settled (simulated time only advances when every thread is blocked) the
        # main thread marks quiescence and drains what is still queued, so that "still in the channel" is observable
        A("(ev/spawn (ev/sleep 1) (sim/ev :quiescent)")
        A("  (var progress true) (var rounds 0)")
        A("  (while (and progress (< rounds %d)) (set progress false) (++ rounds)" % (60 + 2 * (plan.get("burst") or {}).get("n", 0)))
        A("    (each c chans (while (> (ev/count c) 0)")
        A("      (let [[ok v] (protect (ev/with-deadline 0.5 (ev/take c)))] (if (and ok v) (do (set progress true) (sim/ev :got 99 (cid c) (v 0) (show (v 1)))) (break)))))")
        A("    (ev/sleep 1))")
        A("  (sim/ev :drained))")
        nsup = sum(1 for th in plan["threads"] if th["mode"] == "sup")
        if nsup:
            A("(ev/spawn (repeat %d (let [m (ev/take sup)] (sim/ev :sup (get m 2) (m 0) (show (get m 1))))))" % nsup)
        return make_request(plan["knobs"], "\n".join(L))

    # ---------------- oracle ----------------
    @staticmethod
    def sanitizer_sig(log):
        """(tool, error type, first function of Janet's own code in the first stack)"""
        tool = "tsan" if "ThreadSanitizer" in log else ("asan" if "AddressSanitizer" in log else "ubsan")
        typ, fn = "report", "unknown"
        lines = log.splitlines()
        for i, line in enumerate(lines):
            if "WARNING: ThreadSanitizer:" in line or "ERROR: AddressSanitizer:" in line:
                typ = line.split("Sanitizer:")[1].strip().split(" (")[0].split(" on ")[0].strip().replace(" ", "-")
                for l2 in lines[i + 1:i + 40]:
                    if "/src/core/" in l2 and " in " not in l2 and "#" in l2:
                        toks = l2.split()
                        if len(toks) > 2:
                            fn = toks[2] if toks[1].startswith("0x") is False else toks[3]
                        break
                    if "/src/core/" in l2 and " in " in l2:
                        fn = l2.split(" in ")[1].split()[0]
                        break
                break
            if "runtime error:" in line:
                typ = "undefined-behaviour"
                fn = line.split(":")[0].split("/")[-1]
                break
        return tool, typ, fn

    def check(self, plan, res):
        vs = []
        V = lambda sig, d="": vs.append(Violation(sig, d))
        oc = res.outcome
        log = res.log or ""
        evs = res.events
        # abandoned waits leave their pending entry in the thread channel (known finding): remember where
        stale = {}          # channel -> first seq at which a wait on it was abandoned
        ops = {(th["id"], i): op for th in plan["threads"] for i, op in enumerate(th["ops"])}
        for th in plan["threads"]:
            for op in th["ops"]:
                if op["op"] == "burst-take":
                    for j in range(op["n"]):
                        ops[(th["id"], 1000 + j)] = {"op": "take", "ch": op["ch"]}
                if op["op"] == "burst-give":
                    for j in range(op["n"]):
                        ops[(th["id"], 2000 + j)] = {"op": "give", "ch": op["ch"], "mid": op["base"] + j}
        for e in evs:
            if e.kind == "gaveup":
                t, c = e.payload.split(" ")[:2]
                stale.setdefault(int(c), e.seq)
            elif e.kind == "ret":
                toks = e.payload.split(" ")
                if toks[2] == ":select" and toks[3] == "true" and len(toks) > 5 and toks[5].isdigit():
                    op = ops.get((int(toks[0]), int(toks[1])))
                    if op:
                        for c in op["chs"]:
                            if c != int(toks[5]):
                                stale.setdefault(c, e.seq)
        if plan.get("strict"):
            stale_for_crash = {}
        else:
            stale_for_crash = stale
        if oc == "sanitizer" or oc.startswith("crash") or (oc.startswith("exit") and "internal error" in log):
            stale, stale_all = stale_for_crash, stale
            if "failed to write event to self-pipe" in log:
                cls = "C08/stale-thread-chan-entry/post-to-exited-thread" if stale else "C08/crash/failed-to-write-event-to-self-pipe"
                return [Violation(cls, log[-600:])]
            tool, typ, fn = self.sanitizer_sig(log)
            if stale:
                # use-after-free of the waiter's fiber / VM, close() of a self-pipe racing with a write to it, ...:
                # every memory error or race in a run that contains a stale pending entry goes through the dangling
                # pointers of that entry (recorded finding)
                return [Violation("C08/stale-thread-chan-entry/memory-error-or-race", "%s %s in %s: %s" % (tool, typ, fn, log[-1200:]))]
            if oc.startswith("crash") and "Sanitizer" not in log:
                return [Violation("C08/crash/%s%s" % (oc, "/after-abandoned-thread-chan-wait" if stale else ""), log[-800:])]
            if tool == "tsan" and typ.startswith("lock-order-inversion") and "cfun_channel_choice" in log:
                return [Violation("C08/tsan/lock-order-inversion/ev-select-locks-channels-in-clause-order", log[-1500:])]
            return [Violation("C08/%s/%s/in=%s%s" % (tool, typ, fn, "/after-abandoned-thread-chan-wait" if stale else ""), log[-1500:])]
        if oc not in ("ok", "deadlock"):
            return [Violation("C08/run/%s" % oc.split(":")[0], log[-500:])]
        sent, got = {}, {}
        inv, ret = {}, {}
        tstart, tend, joined, spawned, supev = {}, {}, {}, {}, []
        tvals = {}
        closed_at = {}
        crit = []
        q_seq = None
        drained = False
        for e in evs:
            k = e.kind
            p = e.payload
            if k == "send":
                t, c, mid, shape = p.split(" ", 3)
                sent[int(mid)] = (int(t), int(c), shape, e.seq)
            elif k == "got":
                t, c, mid, shape = p.split(" ", 3)
                mid = int(mid)
                if mid in got:
                    V("C08/exactly-once/message-received-twice", "message %d received by thread %s and %d" % (mid, t, got[mid][0]))
                got[mid] = (int(t), int(c) if c != "nil" else -1, shape, e.seq)
            elif k == "inv":
                t, i = p.split(" ")
                inv[(int(t), int(i))] = e.seq
            elif k == "ret":
                toks = p.split(" ")
                ret[(int(toks[0]), int(toks[1]))] = (e.seq, toks[2:])
            elif k == "tstart":
                tstart[int(p)] = e.seq
            elif k == "tend":
                tend[int(p)] = e.seq
            elif k == "joined":
                toks = p.split(" ", 2)
                joined[int(toks[0])] = (e.seq, toks[1:])
            elif k in ("targ-sent", "targ-got", "tret-sent"):
                t_, shape_ = p.split(" ", 1)
                tvals.setdefault(int(t_), {})[k] = shape_
            elif k == "spawn":
                spawned[int(p)] = e.seq
            elif k == "sup":
                supev.append((e.seq, p))
            elif k == "closed":
                t, c = p.split(" ")
                closed_at.setdefault(int(c), e.seq)
            elif k in ("crit-enter", "crit-exit"):
                t, m = p.split(" ")
                crit.append((k, int(t), m, e.seq))
            elif k == "quiescent":
                q_seq = e.seq
            elif k == "drained":
                drained = True
            elif k == "badshape":
                toks = p.split(" ", 3)
                V("C08/shape/%s-resumed-with-a-value-of-the-wrong-kind" % toks[2].lstrip(":"),
                  "thread %s channel %s: %s" % (toks[0], toks[1], toks[3][:120] if len(toks) > 3 else ""))
            elif k == "!lock-discipline":
                V("C08/lock-discipline/channel-state-touched-without-its-lock", p)
            elif k == "terror":
                V("C08/thread-body/unexpected-error", p[:200])
            elif k == "!deadlock" and p.count("=mutex") >= 2:
                # every other verdict of this run is a consequence of the threads being stuck
                return [Violation("C08/deadlock/threads-blocked-on-each-others-channel-locks", p)]
        for key, (seq, toks) in ret.items():
            if toks[0] == ":badgive" and toks[1] == "true":
                V("C08/equality/unmarshallable-value-accepted-by-a-thread-channel", " ".join(toks))
        for key, (seq, toks) in ret.items():
            if toks[0] == ":select" and toks[1] == "true" and toks[2] not in (":take", ":close", ":give"):
                V("C08/select/result-is-not-a-clause-tuple", " ".join(toks))

        strict = bool(plan.get("strict"))

        def tainted(c, seq=None, order=False):
            if strict and not order:
                return False
            return c in stale and (seq is None or stale[c] < seq)
        # ---- every received message was sent, on that channel, with the same structure ----
        for mid, (t, c, shape, seq) in got.items():
            if mid not in sent:
                V("C08/exactly-once/received-message-never-sent", "message %d" % mid)
                continue
            st, sc, sshape, sseq = sent[mid]
            if c != sc:
                V("C08/exactly-once/message-received-on-another-channel", "message %d sent on %d received on %d" % (mid, sc, c))
            if shape != sshape:
                V("C08/equality/received-value-differs-from-sent", "message %d sent %s received %s" % (mid, sshape[:80], shape[:80]))
        # ---- per (sender, channel, receiver) order ----
        seqs = {}
        for mid, (t, c, shape, seq) in sorted(got.items(), key=lambda kv: kv[1][3]):
            if mid in sent:
                seqs.setdefault((sent[mid][0], c, t), []).append(mid)
        bch = (plan.get("burst") or {}).get("ch")
        for key, mids in seqs.items():
            if key[1] == bch and key[2] == 0:
                # the burst takers are distinct fibers of the main thread, one message each: the order in which
                # *they* run says nothing about the order of delivery (a late taker may find a buffered item
                # while earlier hand-offs are still waiting in the main thread's event queue)
                continue
            if mids != sorted(mids):
                if tainted(key[1], order=True):
                    V("C08/stale-thread-chan-entry/message-forwarded-late-out-of-order", "sender %d channel %d receiver %d: %r" % (key[0], key[1], key[2], mids))
                else:
                    V("C08/order/per-sender-order-violated", "sender %d channel %d receiver %d: %r" % (key[0], key[1], key[2], mids))
        tdesc = {th["id"]: th for th in plan["threads"]}
        # ---- ev/thread resumes its caller only after the thread body has finished ----
        for t, (seq, toks) in joined.items():
            if t not in tend or tend[t] > seq:
                if toks[0] == "true":
                    V("C08/join/ev-thread-returned-before-the-thread-body-finished", "thread %d" % t)
            elif toks[0] != "true":
                V("C08/join/ev-thread-raised-although-the-body-finished", "thread %d: %s" % (t, " ".join(toks)))
            elif len(toks) > 1 and toks[1] != '"nil"':
                # documented: ev/thread returns nil; what the body returned or raised goes to the supervisor channel
                V("C08/join/ev-thread-returned-a-value", "thread %d: %s" % (t, " ".join(toks)[:100]))
        for t, d_ in tvals.items():
            if "targ-sent" in d_ and "targ-got" in d_ and d_["targ-sent"] != d_["targ-got"]:
                V("C08/equality/value-handed-to-ev-thread-differs-in-the-thread", "thread %d: sent %s got %s" % (t, d_["targ-sent"][:80], d_["targ-got"][:80]))
        # ---- supervisor: exactly one completion event per supervised thread that finished ----
        sup_threads = [th["id"] for th in plan["threads"] if th["mode"] == "sup"]
        seen_sup = {}
        # a supervisor event is [status value task-id]: what the body returned (:ok) or raised (:error)
        for seq, p in supev:
            toks = p.split(" ", 2)
            tid = toks[0]
            seen_sup[tid] = seen_sup.get(tid, 0) + 1
            d_ = tdesc.get(int(tid)) if tid.isdigit() else None
            if d_ is None or d_["mode"] != "sup":
                V("C08/supervisor/unexpected-event", p[:160])
            elif d_.get("raises"):
                if toks[1] != ":error" or ("raised-by-%s" % tid) not in toks[2]:
                    V("C08/supervisor/event-differs-from-what-the-body-raised", p[:160])
            elif toks[1] != ":ok" or (int(tid) in tvals and "tret-sent" in tvals[int(tid)] and toks[2] != tvals[int(tid)]["tret-sent"]):
                V("C08/supervisor/event-differs-from-what-the-body-returned",
                  "%s (body returned %s)" % (p[:120], tvals.get(int(tid), {}).get("tret-sent", "?")[:80]))
        for t in sup_threads:
            n = seen_sup.get(str(t), 0)
            if n > 1:
                V("C08/supervisor/event-delivered-twice", "thread %d" % t)
            if n == 0 and t in tend and drained:
                V("C08/supervisor/event-lost", "thread %d finished, no event on the supervisor channel" % t)
        # ---- mutual exclusion ----
        holders = []
        for k, t, m, seq in crit:
            if k == "crit-enter":
                for (t2, m2) in holders:
                    if m == ":x" and m2 == ":x":
                        V("C08/lock/two-threads-inside-ev-lock", "threads %d and %d" % (t, t2))
                    if (m == ":w" and m2 in (":w", ":r")) or (m == ":r" and m2 == ":w"):
                        V("C08/lock/rwlock-writer-not-exclusive", "threads %d(%s) and %d(%s)" % (t, m, t2, m2))
                holders.append((t, m))
            else:
                if (t, m) in holders:
                    holders.remove((t, m))
        # ---- no lost wake-up: at quiescence nobody waits on a channel that holds an undelivered message ----
        if q_seq is not None:
            pend_take = {}
            for (t, i), seq in inv.items():
                if seq > q_seq or ((t, i) in ret and ret[(t, i)][0] < q_seq):
                    continue
                op = ops[(t, i)]
                if op["op"] == "take":
                    pend_take.setdefault(op["ch"], []).append(t)
                elif op["op"] == "select":
                    for c in op["chs"]:
                        pend_take.setdefault(c, []).append(t)
            for mid, (t, c, shape, seq) in sent.items():
                if seq > q_seq or c in closed_at:
                    continue
                if mid in got and got[mid][3] < q_seq:
                    continue
                if pend_take.get(c):
                    sig = ("C08/stale-thread-chan-entry/message-undelivered-while-a-receiver-waits" if tainted(c, q_seq)
                           else "C08/lost-wakeup/message-undelivered-while-a-receiver-waits")
                    V(sig, "message %d on channel %d is undelivered at quiescence; thread(s) %r wait on it" % (mid, c, pend_take[c]))
        # ---- a giver whose message has been received must be resumed ----
        if q_seq is not None:
            for mid, (t, c, shape, seq) in got.items():
                if mid not in sent or seq > q_seq or c in closed_at:
                    continue
                k = [key for key, op in ops.items() if op.get("mid") == mid]
                if k and k[0] in inv and k[0] not in ret:
                    sig = ("C08/stale-thread-chan-entry/other-consequence" if tainted(c, q_seq)
                           else "C08/lost-wakeup/giver-not-resumed-although-its-message-was-received")
                    V(sig, "message %d on channel %d was received by thread %d but the give of thread %d never returned" % (mid, c, t, k[0][0]))
        # ---- exactly once: after the drain every completed give has been received by somebody ----
        if drained:
            for mid, (t, c, shape, seq) in sent.items():
                if mid in got or c in closed_at:
                    continue
                k = [key for key, op in ops.items() if op.get("mid") == mid][0]
                if k in ret and ret[k][1][1] == "true" and ret[k][1][2] == ":ok":
                    sig = ("C08/stale-thread-chan-entry/message-lost" if tainted(c) else "C08/exactly-once/message-lost")
                    V(sig, "give of message %d on channel %d completed but nobody received it and it is not in the channel" % (mid, c))
            # A rendezvous channel (capacity 0) hands a message to a reader that is already waiting, or keeps the giver
            # parked until somebody takes it: a give that returned before the channel was closed has been matched, and
            # closing the channel afterwards does not unmatch it. (Channels that ever held an abandoned entry are left
            # out: a hand-off that meets one goes back into the queue, which a close then discards.)
            for mid, (t, c, shape, seq) in sent.items():
                if mid in got or c not in closed_at or c in stale or plan["caps"][c] != 0:
                    continue
                k = [key for key, op in ops.items() if op.get("mid") == mid][0]
                if k in ret and ret[k][1][1] == "true" and ret[k][1][2] == ":ok" and ret[k][0] < closed_at[c]:
                    V("C08/exactly-once/message-handed-over-before-the-close-was-lost",
                      "give of message %d on rendezvous channel %d returned before the channel was closed, nobody received it" % (mid, c))
        # ---- teardown ----
        fin = res.stats.get("final")
        if fin and oc == "ok" and all(th["id"] in tend for th in plan["threads"]):
            if int(fin.get("vms", 0)) != 0:
                V("C08/teardown/vm-not-torn-down", str(fin))
        if stale and not strict:
            # once a stale pending entry exists, a message can be written through the dangling VM pointer into
            # another thread's self-pipe (descriptor and thread-local storage get reused): its loop then sees a
            # foreign event. Verdicts about delivery and thread life-cycle in such a run are consequences.
            for v in vs:
                if any(v.sig.startswith(pfx) for pfx in ("C08/join/", "C08/supervisor/", "C08/thread-body/", "C08/exactly-once/",
                                                         "C08/order/", "C08/lost-wakeup/", "C08/teardown/", "C08/select/")):
                    v.detail = v.sig + ": " + v.detail
                    v.sig = "C08/stale-thread-chan-entry/other-consequence"
        seen, out = set(), []
        for v in vs:
            if v.sig not in seen:
                seen.add(v.sig)
                out.append(v)
        return out

    # ---------------- evidence ----------------
    def nontrivial(self, plan, res):
        return any(f[0] == "switch" for f in res.faults)

    def extra(self, plan, res):
        sw = 0
        if res.end:
            for p in res.end.payload.split(" "):
                if p.startswith("switches="):
                    sw = int(p[9:])
        fin = res.stats.get("final", {})
        return {"sw": sw, "got": sum(1 for e in res.events if e.kind == "got"),
                "gaveup": sum(1 for e in res.events if e.kind == "gaveup"),
                "sel": sum(1 for th in plan["threads"] for op in th["ops"] if op["op"] == "select"),
                "flavour": plan["flavour"], "final_allocs": int(fin.get("allocs", -1)) if res.outcome == "ok" else -1,
                "lock": sum(1 for e in res.events if e.kind == "crit-enter")}

    def aggregate(self, extras):
        ex = [x for x in extras if x]
        fl, fa = {}, {}
        for x in ex:
            fl[x["flavour"]] = fl.get(x["flavour"], 0) + 1
            fa[x["final_allocs"]] = fa.get(x["final_allocs"], 0) + 1
        return {"probes": {"context_switches": sum(x["sw"] for x in ex), "message_received": sum(x["got"] for x in ex),
                           "reader_gave_up_on_deadline": sum(x["gaveup"] for x in ex),
                           "select_across_threads": sum(x["sel"] for x in ex), "critical_sections": sum(x["lock"] for x in ex)},
                "runs_by_flavour": fl, "final_live_allocations_histogram": {str(k): v for k, v in sorted(fa.items())}}

    # ---------------- shrinking ----------------
    def shrink(self, plan):
        cp = lambda: json.loads(json.dumps(plan))
        for ti in range(len(plan["threads"]) - 1, 0, -1):
            if ti == len(plan["threads"]) - 1:      # only the last thread can go without renumbering message ids
                q = cp()
                del q["threads"][ti]
                yield q
        for ti, th in enumerate(plan["threads"]):
            for k in range(len(th["ops"]) - 1, -1, -1):
                q = cp()
                # replace by a no-op to keep op indices and message ids stable
                if th["ops"][k]["op"] != "sleep" or th["ops"][k].get("ms"):
                    q["threads"][ti]["ops"][k] = {"op": "sleep", "ms": 0}
                    yield q
        if plan["knobs"].get("tick_ns"):
            q = cp()
            q["knobs"]["tick_ns"] = 0
            yield q
        if plan["knobs"].get("sched", "random") != "random":
            q = cp()
            q["knobs"]["sched"] = "random"
            yield q
        if plan.get("flavour") not in ("plain",) :
            pass


DRIVER = C08
