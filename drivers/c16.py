"""C16 - stream and subprocess I/O delivers every byte once, in order.

Fibers read and write real kernel pipes, AF_UNIX stream sockets and the stdio pipes of
simulated child actors on one event loop.  The simulator owns the byte count of every
transfer, would-block / EINTR outcomes, readiness delivery order and delay, buffer sizes
and child behaviour.  Every payload byte is tagged (byte i of tag stream w = f(w, i)), so
each byte read is attributable.  Oracle: byte-stream reference model per stream direction
(exactly once, in order, chunk/EOF/close rules, no orphaned operation, exit status)."""
import json
import random
import re

from common import Driver, Violation, make_request

PIPE_BUF = 4096
EMITS = ("emit", "emiterr", "killed", "chain")     # stream directions fed by a child actor
# "chain" = producer child | user-made blocking pipe (os/pipe :RW) | consumer child (cat) | :pipe to the parent
CHILD = ("cat",) + EMITS


class C16(Driver):
    prop = "C16"
    level = "exploration"
    flavours = ["plain", "asan"]
    budgets = {"quick": 60, "thorough": 1200}
    rule = ("plan = stream directions (os/pipe, unix socket, cat child, emitting child) x reader/writer fibers with "
            "seeded sizes around the configured buffer size, read kinds (read/chunk/:all), close positions, x seeded "
            "fault probabilities (EINTR, spurious EAGAIN, short counts, epoll delay/reorder) and buffer sizes; plus optional "
            "tasks: os/execute with/without :x, waits cut short, a bystander child, child chains, bursts of 5-40 child exits "
            "while the loop is away, a socket closed locally with reader and writer parked, half-close, tasks in other threads; "
            "non-trivial = at least one fault fired or an operation had to wait; distinct = sha256(plan, fired faults)")
    assumptions = ["child processes are in-process actors (stub) that hold duplicates of every tracked descriptor which was not close-on-exec at spawn time and is not closed by the file actions, until they exit",
                   "TCP loopback is out of scope (delivery is not synchronous with send); AF_UNIX shares the net.c stream paths",
                   "an injected EAGAIN/short count is always followed by a synthetic epoll edge; readiness may be "
                   "delayed or reordered but is never dropped"]
    required_probes = ["partial_write_resumed", "eagain_then_edge", "chunk_across_events", "op_waited", "datagram_received_and_attributed",
                       "os_execute_calls", "socket_half_closed"]
    timeout_ms = 20000

    # ---------------- generation ----------------
    def gen(self, seed, tier):
        r = random.Random(seed)
        cap = r.choice([4096, 4096, 8192, 16384, 65536])
        faulty = r.random() < 0.7
        p = {}
        if faulty:
            for k in ("eintr_r", "eintr_w", "eagain_r", "eagain_w", "short_r", "short_w", "epoll_eintr",
                      "epoll_delay", "epoll_reorder"):
                if r.random() < 0.5:
                    p[k] = r.choice([0.02, 0.1, 0.3])
        knobs = {"seed": seed, "p": p, "pipe_size": cap, "sock_buf": cap, "max_yields": 1500000}
        mode = r.choices(["single", "single", "single", "multi_r", "multi_w", "dgram"], k=1)[0]
        if mode == "dgram":
            return self.gen_dgram(seed, r, knobs)
        nsd = 1 if mode != "single" else r.randint(1, 3)
        sds, tasks = [], []
        tid = 0

        def size():
            u = r.random()
            if u < 0.25:
                return r.choice([0, 1, 2, 7, 10, 100, 511, 512])
            if u < 0.5:
                return r.choice([PIPE_BUF - 1, PIPE_BUF, PIPE_BUF + 1, cap - 1, cap, cap + 1, 2 * cap])
            if u < 0.9:
                return r.randint(1, 3 * cap)
            return r.randint(cap, 40 * cap)

        for s in range(nsd):
            kind = r.choice(["pipe", "pipe", "unix", "unix", "cat", "emit", "emiterr", "killed", "chain"]) if mode == "single" else r.choice(["pipe", "unix"])
            sd = {"id": s, "kind": kind, "w": 10 + s}
            if kind == "unix":
                sd["accepted_writes"] = r.random() < 0.5      # which end of the connection the writer holds
            if kind in EMITS:
                sd["emit"] = size() + r.choice([0, 1, 5000])
                sd["exit"] = r.choice([0, 0, 1, 3, 255])
                sd["sig"] = r.choice([0, 0, 0, 9, 15])
                if kind == "killed":
                    # the child writes, then sleeps "forever"; another fiber kills it at a seeded instant
                    sd["sig"] = r.choice([9, 9, 15, 2])
                    sd["kill_ms"] = r.choice([0, 1, 3, 10])
                    sd["emit"] = min(sd["emit"], 3 * cap)
                nchild = sum(2 if x["kind"] == "chain" else 1 for x in sds if x["kind"] in CHILD)
                if kind == "chain":
                    sd["exit"], sd["sig"] = 0, 0
                sd["w"] = 1000 + 4 * nchild + (2 if kind == "emiterr" else 1)   # actor index = spawn order, fd 1 or 2
            sds.append(sd)
            # writer task(s)
            if kind not in EMITS:
                nw = 1 if mode != "multi_w" else r.randint(2, 4)
                for wi in range(nw):
                    steps = []
                    for _ in range(r.randint(1, 5)):
                        n = size() if mode != "multi_w" else r.choice([16, 64, 100, 512, 1000, 4096])
                        if mode == "multi_r":
                            n = min(n, r.choice([100, 5000, 20000]))   # segments are located by search
                        steps.append({"op": "write", "n": n, "as": r.choice(["buffer", "string"])})
                        if r.random() < 0.3:
                            steps.append({"op": "sleep", "ms": r.choice([0, 1, 2])})
                    wtag = sd["w"] if nw == 1 else 100 + 10 * s + wi
                    tasks.append({"id": tid, "role": "w", "sd": s, "w": wtag, "steps": steps,
                                  "close": (wi == 0 and r.random() < 0.85) if nw == 1 else False})
                    if kind == "unix" and tasks[-1]["close"] and r.random() < 0.4:
                        # half-close with net/shutdown instead of closing; a later write must fail, not hang or succeed
                        tasks[-1]["shut"] = r.choice(["w", "w", "rw"])
                        tasks[-1]["write_after"] = r.random() < 0.6
                    tid += 1
                if mode == "multi_w":
                    # a closer task that closes the write end after every writer is done
                    sd["close_after_writers"] = True
            # reader task(s)
            nr = 1 if mode != "multi_r" else r.randint(2, 3)
            for ri in range(nr):
                steps = []
                if mode == "multi_w" or kind in CHILD:
                    if r.random() < 0.5:
                        steps.append({"op": "sleep", "ms": r.choice([0, 1, 3])})
                    if mode != "multi_w":
                        for _ in range(r.randint(0, 3)):
                            steps.append({"op": r.choice(["read", "chunk"]), "n": max(1, size() % (2 * cap))})
                    steps.append({"op": "drain", "n": r.choice([100, 1024, 4096, 65536])})
                else:
                    for _ in range(r.randint(1, 6)):
                        u = r.random()
                        if u < 0.4:
                            steps.append({"op": "read", "n": max(1, size() % (3 * cap)) if mode == "single" else r.choice([16, 64, 1000])})
                        elif u < 0.75:
                            steps.append({"op": "chunk", "n": max(1, size() % (3 * cap)) if mode == "single" else r.choice([16, 64, 1000])})
                        elif u < 0.85:
                            steps.append({"op": "sleep", "ms": r.choice([0, 1, 2, 5])})
                        elif mode == "single":
                            steps.append({"op": "all"})
                            break
                    if r.random() < 0.6:
                        steps.append({"op": "drain", "n": r.choice([10, 1024, 4096, 65536]) if mode == "single" else r.choice([64, 1024, 4096])})
                    elif r.random() < 0.3 and mode == "single":
                        steps.append({"op": "close"})
                        if kind == "unix":
                            # the writer then reads from its own end: a peer that closed with unread input is a
                            # reset (error), not a clean end of stream
                            for wt in tasks:
                                if wt["role"] == "w" and wt["sd"] == s and not wt.get("shut"):
                                    wt["ack"] = True
                tasks.append({"id": tid, "role": "r", "sd": s, "steps": steps})
                tid += 1
            if kind in CHILD:
                tasks.append({"id": tid, "role": "x", "sd": s, "steps": []})
                tid += 1
            if kind == "killed":
                tasks.append({"id": tid, "role": "k", "sd": s, "steps": []})
                tid += 1
        plan_by = None
        if mode == "single" and r.random() < 0.3:
            # a bystander child, spawned while the streams are open and alive until late: it must not keep
            # anything of theirs open (descriptors are close-on-exec), so end-of-stream is not delayed by it
            plan_by = {"spawn_ms": r.choice([0, 0, 1, 3]), "kill_ms": 200}
        if mode == "single" and r.random() < 0.35:
            # os/execute: spawn + wait in one call, with and without the :x flag, while the streams are busy
            for _ in range(r.randint(1, 2)):
                sig = r.choice([0, 0, 0, 9, 15])
                tasks.append({"id": tid, "role": "e", "sd": -1, "steps": [], "ms": r.choice([0, 1, 4]), "child_ms": r.choice([0, 2, 7]),
                              "code": r.choice([0, 0, 1, 3, 255]), "sig": sig, "x": r.random() < 0.5})
                if r.random() < 0.35:
                    # os/spawn + a wait that is cut short (deadline or cancel) before the child exits: the status is
                    # still reported exactly, through the process object, once the child has exited
                    tasks[-1]["cut"] = r.choice(["deadline", "cancel"])
                    tasks[-1]["child_ms"] = r.choice([4, 8])
                    tasks[-1]["x"] = False
                tid += 1
        if mode == "single" and r.random() < 0.12:
            # a burst of children that all exit while this thread is not in its loop (os/sleep): their statuses arrive
            # as one batch of completions, every waiter gets its own child's status
            tasks.append({"id": tid, "role": "b", "sd": -1, "steps": [], "n": r.choice([5, 17, 20, 24, 33, 40]), "child_ms": r.choice([1, 2, 5]),
                          "block_ms": r.choice([8, 12])})
            tid += 1
        if mode == "single" and r.random() < 0.1:
            # one socket with a reader parked and a writer parked behind a full buffer, closed locally by a third
            # fiber: both are woken
            tasks.append({"id": tid, "role": "d", "sd": -1, "steps": [], "ms": r.choice([0, 2, 5]), "who": r.choice(["accepted", "connected"]),
                          "how": r.choice([":close", "ev/close", "net/close"])})
            tid += 1
        flavour = "asan" if r.random() < 0.15 else "plain"
        if r.random() < 0.5:
            for t in tasks:
                for st in t["steps"]:
                    if st["op"] in ("read", "chunk", "all", "write") and r.random() < 0.5:
                        st["var"] = r.randrange(8)
        plan = {"property": "C16", "knobs": knobs, "mode": mode, "sds": sds, "tasks": tasks, "flavour": flavour}
        if mode == "single" and flavour == "plain" and r.random() < 0.2:
            for t in tasks:
                if t["role"] in ("r", "w") and sds[t["sd"]]["kind"] in ("pipe", "unix") and r.random() < 0.6:
                    t["thread"] = 1
            knobs["p"]["switch"] = r.choice([0.05, 0.3])
        if plan_by:
            plan["bystander"] = plan_by
        return plan

    def gen_dgram(self, seed, r, knobs):
        """unix datagram socket: 1-3 sender fibers, one receiver; every datagram is a distinct slice of the
        sender's tag stream, so a received datagram names the send it came from"""
        senders = []
        big = r.random() < 0.4      # datagrams beyond the 4096-byte chunk the stream reader works in
        if big:
            knobs = dict(knobs, sock_buf=262144)
        for w in range(r.randint(1, 3)):
            off, grams = 0, []
            for _ in range(r.randint(1, 8)):
                n = r.choice([0, 1, 2, 16, 100, 512, 1000, 2000] if not big else
                             [1, 100, 2000, 4095, 4096, 4097, 6000, 8192, 8193, 20000, 60000])
                grams.append({"off": off, "n": n, "sleep": r.choice([0, 0, 0, 1])})
                off += n + r.choice([0, 3])
            senders.append({"w": 100 + w, "grams": grams})
        total = sum(len(x["grams"]) for x in senders)
        return {"property": "C16", "knobs": knobs, "mode": "dgram", "senders": senders,
                "recv_buf": 65536 if big else r.choice([2048, 4096, 65536]), "recvs": total + r.choice([0, 0, 1]), "sds": [], "tasks": [],
                "empty_reply": r.random() < 0.4,
                "flavour": "plain"}

    def render_dgram(self, plan):
        L = []
        A = L.append
        A("(var srv nil) (var srv2 nil) (var name nil)")
        A("(defn rx []")
        A("  (for i 0 %d" % plan["recvs"])
        A("    (def b @\"\")")
        A("    (def [ok v] (protect (ev/with-deadline 0.5 (net/recv-from srv %d b))))" % plan["recv_buf"])
        A("    (if ok (sim/ev :dg (length b) %s)" % " ".join("(sim/locate %d b 0 600000)" % x["w"] for x in plan["senders"]))
        A("      (do (sim/ev :rxerr v) (break))))")
        if plan.get("empty_reply"):
            # an empty datagram sent with net/send-to is a message like any other: it arrives, before the next one
            A("  (def a2 (net/address :unix (string name \"-b\") :datagram))")
            A("  (try (do (net/send-to srv a2 \"\") (net/send-to srv a2 \"z\") (sim/ev :replies-sent)) ([e] (sim/ev :reply-err e)))")
        A("  (sim/ev :rxdone))")
        if plan.get("empty_reply"):
            A("(defn rx2 [] (for i 0 2 (def b @\"\") (def [ok v] (protect (ev/with-deadline 2 (net/recv-from srv2 64 b)))) (if ok (sim/ev :reply i (length b)) (do (sim/ev :reply-timeout i) (break)))))")
        for i, sn in enumerate(plan["senders"]):
            A("(defn tx%d []" % i)
            A("  (def c (net/connect :unix name :datagram))")
            for k, g in enumerate(sn["grams"]):
                if g["sleep"]:
                    A("  (ev/sleep %s)" % (g["sleep"] / 1000.0))
                A("  (sim/ev :inv %d %d)" % (i, k))
                A("  (try (do (ev/write c (sim/fill %d %d %d)) (sim/ev :ret %d %d :ok)) ([e] (sim/ev :ret %d %d :err e)))"
                  % (sn["w"], g["off"], g["n"], i, k, i, k))
            A("  (:close c) (sim/ev :txdone %d))" % i)
        A("(ev/go (fn [] (set name (string \"@jsim-dg-\" (os/getpid))) (set srv (net/listen :unix name :datagram))")
        if plan.get("empty_reply"):
            A("  (set srv2 (net/listen :unix (string name \"-b\") :datagram)) (ev/go rx2)")
        A("  (ev/go rx) %s))" % " ".join("(ev/go tx%d)" % i for i in range(len(plan["senders"]))))
        return make_request(plan["knobs"], "\n".join(L))

    def check_dgram(self, plan, res):
        vs = []
        if res.outcome not in ("ok", "deadlock"):
            return [Violation("C16/run/%s" % res.outcome.split(":")[0], (res.log or "")[-600:])]
        sent = {}
        for i, sn in enumerate(plan["senders"]):
            for k, g in enumerate(sn["grams"]):
                sent[(sn["w"], g["off"], g["n"])] = (i, k)
        invoked = {tuple(int(x) for x in e.payload.split(" ")) for e in res.events if e.kind == "inv"}
        seen = set()
        for e in res.events:
            if e.kind != "dg":
                continue
            toks = e.payload.split(" ")
            n = int(toks[0])
            offs = [int(float(x)) for x in toks[1:]]
            cands = [(sn["w"], off, n) for sn, off in zip(plan["senders"], offs) if off >= 0 and (sn["w"], off, n) in sent]
            # datagrams shorter than 8 bytes can match by chance at several places: accept any sent one of that length
            if n < 8:
                cands = [k for k in sent if k[2] == n and k not in seen] or cands
            if not cands:
                vs.append(Violation("C16/datagram/received-datagram-is-not-one-that-was-sent",
                                    "a datagram of %d bytes matches no sent datagram exactly (offsets %r)" % (n, offs)))
                continue
            key = cands[0]
            if key in seen and n >= 8:
                vs.append(Violation("C16/datagram/received-twice", "datagram %r" % (key,)))
            if sent[key] not in invoked:
                vs.append(Violation("C16/datagram/received-before-sent", "datagram %r" % (key,)))
            seen.add(key)
        # a unix datagram socket is reliable: a datagram whose send completed is there to be received
        okd = set()
        for e in res.events:
            if e.kind == "ret":
                toks = e.payload.split(" ")
                # (an empty payload written with ev/write to a connected socket need not become a datagram)
                if toks[2] == ":ok" and plan["senders"][int(toks[0])]["grams"][int(toks[1])]["n"] > 0:
                    okd.add((int(toks[0]), int(toks[1])))
        ndg = sum(1 for e in res.events if e.kind == "dg")
        rxerr = [e for e in res.events if e.kind == "rxerr"]
        if rxerr and ndg < len(okd) and ndg < plan["recvs"] and not vs:
            vs.append(Violation("C16/datagram/sent-datagram-never-arrived",
                                "%d sends completed, %d datagrams received before the receiver's 0.5 s deadline expired" % (len(okd), ndg)))
        if plan.get("empty_reply") and any(e.kind == "replies-sent" for e in res.events):
            reps = [e.payload for e in res.events if e.kind == "reply"]
            if reps[:2] != ["0 0", "1 1"]:
                vs.append(Violation("C16/datagram/empty-datagram-of-net-send-to-not-delivered-in-order",
                                    "replies received (index length): %r, expected an empty datagram, then one byte" % (reps,)))
        out, sg = [], set()
        for v in vs:
            if v.sig not in sg:
                sg.add(v.sig)
                out.append(v)
        return out

    # ---------------- rendering ----------------
    def render(self, plan):
        if plan["mode"] == "dgram":
            return self.render_dgram(plan)
        L = []
        A = L.append
        A("(def H @{})")   # handles: [:r sd] [:w sd] [:p sd]
        A("(def wdone @{})")
        A("""(defn attribute [data wids]
  # greedy longest-match attribution of received bytes to tag streams; returns per-writer totals or nil
  (def offs (table ;(mapcat |[$ 0] wids)))
  (var pos 0) (var ok true)
  (def n (length data))
  (while (and ok (< pos n))
    (var best nil) (var bestm 0)
    (def rest (buffer/slice data pos (min n (+ pos 4096))))
    (each w wids
      (def m (sim/match w (offs w) rest))
      (when (> m bestm) (set best w) (set bestm m)))
    (if best (do (put offs best (+ (offs best) bestm)) (+= pos bestm)) (set ok false)))
  [ok pos (map |(offs $) wids)])""")
        A("(defn setup []")
        for sd in plan["sds"]:
            s = sd["id"]
            if sd["kind"] == "pipe":
                A("  (let [[r w] (os/pipe)] (put H [:r %d] r) (put H [:w %d] w))" % (s, s))
            elif sd["kind"] == "unix":
                A("  (let [name (string \"@jsim-\" (os/getpid) \"-%d\") srv (net/listen :unix name)]" % s)
                A("    (def c (net/connect :unix name)) (def a (net/accept srv)) (:close srv)")
                if sd.get("accepted_writes"):
                    A("    (put H [:w %d] a) (put H [:r %d] c))" % (s, s))
                else:
                    A("    (put H [:w %d] c) (put H [:r %d] a))" % (s, s))
            elif sd["kind"] == "cat":
                A("  (let [p (os/spawn [\"sim-child\" \"C\"] :p {:in :pipe :out :pipe})] (put H [:p %d] p) (put H [:w %d] (p :in)) (put H [:r %d] (p :out)))" % (s, s, s))
            elif sd["kind"] == "chain":
                A("  (let [[pr pw] (os/pipe :RW) p1 (os/spawn [\"sim-child\" \"w%d\" \"x0\"] :p {:out pw}) p2 (os/spawn [\"sim-child\" \"C\"] :p {:in pr :out :pipe})]" % sd["emit"])
                A("    (:close pr) (:close pw) (put H [:p2 %d] p1) (put H [:p %d] p2) (put H [:r %d] (p2 :out)))" % (s, s, s))
            elif sd["kind"] == "killed":
                A("  (let [p (os/spawn [\"sim-child\" \"w%d\" \"s100000\"] :p {:out :pipe})] (put H [:p %d] p) (put H [:r %d] (p :out)))"
                  % (sd["emit"], s, s))
            elif sd["kind"] == "emiterr":
                tail = "k%d" % sd["sig"] if sd["sig"] else "x%d" % sd["exit"]
                A("  (let [p (os/spawn [\"sim-child\" \"e%d\" \"%s\"] :p {:err :pipe})] (put H [:p %d] p) (put H [:r %d] (p :err)))"
                  % (sd["emit"], tail, s, s))
            else:
                tail = "k%d" % sd["sig"] if sd["sig"] else "x%d" % sd["exit"]
                A("  (let [p (os/spawn [\"sim-child\" \"w%d\" \"%s\"] :p {:out :pipe})] (put H [:p %d] p) (put H [:r %d] (p :out)))"
                  % (sd["emit"], tail, s, s))
        A("  nil)")
        writers_of = {}
        for t in plan["tasks"]:
            if t["role"] == "w":
                writers_of.setdefault(t["sd"], []).append(t)
        for t in plan["tasks"]:
            T, s = t["id"], t["sd"]
            start_idx = len(L)
            A("(defn task%d []" % T)
            if t["role"] == "w":
                A("  (def h (H [:w %d])) (var off 0)" % s)
                for k, st in enumerate(t["steps"]):
                    if st["op"] == "sleep":
                        A("  (ev/sleep %s)" % (st["ms"] / 1000.0))
                    else:
                        conv = "(string b)" if st["as"] == "string" else "b"
                        A("  (sim/ev :inv %d %d)" % (T, k))
                        wvar = st.get("var", 0)
                        wfam = "net" if (wvar & 1) and plan["sds"][s]["kind"] == "unix" else "ev"
                        wtail = ""
                        A("  (try (do (def b (sim/fill %d off %d)) (%s/write h %s%s) (buffer/fill b 0) (+= off %d) (sim/ev :ret %d %d :ok)) ([e] (sim/ev :ret %d %d :err e)))"
                          % (t["w"], st["n"], wfam, conv, wtail, st["n"], T, k, T, k))
                A("  (put wdone %d true)" % T)
                if t.get("ack"):
                    A("  (sim/ev :inv %d 902) (try (let [b (ev/read h 10)] (sim/ev :ret %d 902 (if b :data :nil))) ([e] (sim/ev :ret %d 902 :err e)))" % (T, T, T))
                if t.get("close") and t.get("shut"):
                    A("  (sim/ev :inv %d 900) (net/shutdown h :%s) (sim/ev :ret %d 900 :closed)" % (T, t["shut"], T))
                    if t.get("write_after"):
                        A("  (sim/ev :inv %d 901) (try (do (ev/write h \"late\") (sim/ev :ret %d 901 :ok)) ([e] (sim/ev :ret %d 901 :err e)))" % (T, T, T))
                elif t.get("close"):
                    A("  (sim/ev :inv %d 900) (:close h) (sim/ev :ret %d 900 :closed)" % (T, T))
                elif plan["sds"][s].get("close_after_writers"):
                    ws = [w["id"] for w in writers_of[s]]
                    A("  (when (all |(wdone $) [%s]) (sim/ev :inv %d 900) (:close h) (sim/ev :ret %d 900 :closed))"
                      % (" ".join(str(x) for x in ws), T, T))
            elif t["role"] == "r":
                multi_w = plan["mode"] == "multi_w"
                multi_r = plan["mode"] == "multi_r"
                wids = [w["w"] for w in writers_of.get(s, [])] or [plan["sds"][s]["w"]]
                W = wids[0]
                A("  (def h (H [:r %d])) (var off 0)" % s)
                for k, st in enumerate(t["steps"]):
                    op = st["op"]
                    if op == "sleep":
                        A("  (ev/sleep %s)" % (st["ms"] / 1000.0))
                        continue
                    A("  (sim/ev :inv %d %d)" % (T, k))
                    if op == "close":
                        A("  (:close h) (sim/ev :ret %d %d :closed)" % (T, k))
                        continue
                    if op == "drain":
                        if multi_w:
                            A("  (try (do (def acc @\"\") (var nreads 0) (while (def b (ev/read h %d)) (++ nreads) (buffer/push acc b))"
                              % st["n"])
                            A("    (def [ok pos tots] (attribute acc [%s]))" % " ".join(str(w) for w in wids))
                            A("    (sim/ev :ret %d %d :drained (length acc) ok nreads tots)) ([e] (sim/ev :ret %d %d :err e)))" % (T, k, T, k))
                        elif multi_r:
                            A("  (try (do (var nreads 0) (while (def b (ev/read h %d)) (++ nreads) (def o (sim/locate %d b off 200000)) (when (>= o 0) (set off (+ o (length b)))) (sim/ev :seg %d o (length b)))"
                              % (st["n"], W, T))
                            A("    (sim/ev :ret %d %d :eof nreads)) ([e] (sim/ev :ret %d %d :err e)))" % (T, k, T, k))
                        else:
                            A("  (try (do (var tot 0) (var ok true) (var nreads 0) (while (def b (ev/read h %d)) (++ nreads)" % st["n"])
                            A("      (unless (= (sim/match %d off b) (length b)) (set ok false)) (+= off (length b)) (+= tot (length b)))" % W)
                            A("    (sim/ev :ret %d %d :drained tot ok nreads)) ([e] (sim/ev :ret %d %d :err e)))" % (T, k, T, k))
                        continue
                    # the same operation through its other spellings: the net/ aliases on sockets, a caller-supplied
                    # buffer, a timeout that never fires
                    var = st.get("var", 0)
                    fam = "net" if (var & 1) and plan["sds"][s]["kind"] == "unix" else "ev"
                    # (no timeouts here: when a plan deadlocks simulated time jumps, any finite timeout expires, and a
                    # read that times out may have consumed bytes it does not report - the byte accounting would be off)
                    tail = ["", " (buffer/new 16)", " @\"\"", " (buffer/new 0)"][(var >> 1) & 3]
                    call = {"read": "(%s/read h %d%s)" % (fam, st.get("n", 0), tail), "chunk": "(%s/chunk h %d%s)" % (fam, st.get("n", 0), tail),
                            "all": "(%s/read h :all%s)" % (fam, tail)}[op]
                    if multi_r:
                        A("  (try (let [b %s] (if b (let [o (sim/locate %d b off 200000)] (when (>= o 0) (set off (+ o (length b)))) (sim/ev :ret %d %d :seg o (length b))) (sim/ev :ret %d %d :nil))) ([e] (sim/ev :ret %d %d :err e)))"
                          % (call, W, T, k, T, k, T, k))
                    else:
                        A("  (try (let [b %s] (if b (do (sim/ev :ret %d %d :data (length b) (= (sim/match %d off b) (length b))) (+= off (length b))) (sim/ev :ret %d %d :nil))) ([e] (sim/ev :ret %d %d :err e)))"
                          % (call, T, k, W, T, k, T, k))
            elif t["role"] == "e":
                tail = "k%d" % t["sig"] if t["sig"] else "x%d" % t["code"]
                A("  (ev/sleep %s)" % (t["ms"] / 1000.0))
                A("  (sim/ev :inv %d 0)" % T)
                if t.get("cut"):
                    A("  (def p (os/spawn [\"sim-child\" \"s%d\" \"%s\"] :p))" % (t["child_ms"], tail))
                    if t["cut"] == "deadline":
                        A("  (protect (ev/with-deadline %s (os/proc-wait p)))" % (t["child_ms"] / 2000.0))
                    else:
                        A("  (let [w (ev/go (fn [] (protect (os/proc-wait p))))] (ev/sleep %s) (ev/cancel w :stop))" % (t["child_ms"] / 2000.0))
                    A("  (ev/sleep %s)" % (t["child_ms"] * 2 / 1000.0))
                    A("  (try (sim/ev :ret %d 0 :exit (get p :return-code)) ([e] (sim/ev :ret %d 0 :err e)))" % (T, T))
                else:
                    A("  (try (sim/ev :ret %d 0 :exit (os/execute [\"sim-child\" \"s%d\" \"%s\"] :p%s)) ([e] (sim/ev :ret %d 0 :err e)))"
                      % (T, t["child_ms"], tail, "x" if t["x"] else "", T))
            elif t["role"] == "d":
                A("  (def name (string \"@jsim-c16-d-\" (os/getpid) \"-%d\")) (def srv (net/listen :unix name)) (def c (net/connect :unix name)) (def a (net/accept srv)) (:close srv)" % T)
                A("  (def [mine other] %s) (def out @{})" % ("[a c]" if t["who"] == "accepted" else "[c a]"))
                A("  (ev/go (fn [] (put out :r (try (do (ev/read mine 10) :returned) ([e] :raised)))))")
                A("  (ev/go (fn [] (put out :w (try (do (ev/write mine (string/repeat \"x\" 1000000)) :returned) ([e] :raised)))))")
                A("  (ev/sleep %s)" % (t["ms"] / 1000.0))
                A("  (sim/ev :inv %d 0)" % T)
                A("  (%s mine)" % t["how"])
                A("  (ev/sleep 0.02)")
                A("  (sim/ev :ret %d 0 :duplex (get out :r :pending) (get out :w :pending))" % T)
                A("  (:close other)")
            elif t["role"] == "b":
                n = t["n"]
                A("  (sim/ev :inv %d 0)" % T)
                A("  (def ps (seq [i :range [0 %d]] (os/spawn [\"sim-child\" \"s%d\" (string \"x\" (+ 1 (%% i 100)))] :p)))" % (n, t["child_ms"]))
                A("  (def res (array/new-filled %d :pending))" % n)
                A("  (for i 0 %d (ev/go (fn [] (put res i (try (os/proc-wait (ps i)) ([e] :raised))))))" % n)
                A("  (ev/sleep 0) (os/sleep %s) (ev/sleep 0.05)" % (t["block_ms"] / 1000.0))
                A("  (sim/ev :ret %d 0 :burst (count |(= $ :pending) res) (sum (seq [i :range [0 %d]] (if (= (res i) (+ 1 (%% i 100))) 0 1))))" % (T, n))
            elif t["role"] == "k":
                sd = plan["sds"][s]
                signame = {9: ":kill", 15: ":term", 2: ":int"}[sd["sig"]]
                A("  (ev/sleep %s)" % (sd["kill_ms"] / 1000.0))
                A("  (sim/ev :inv %d 0)" % T)
                A("  (try (do (os/proc-kill (H [:p %d]) false %s) (sim/ev :ret %d 0 :killed)) ([e] (sim/ev :ret %d 0 :err e)))" % (s, signame, T, T))
            else:
                A("  (sim/ev :inv %d 0)" % T)
                if plan["sds"][s]["kind"] == "chain":
                    A("  (protect (os/proc-wait (H [:p2 %d])))" % s)
                A("  (try (sim/ev :ret %d 0 :exit (os/proc-wait (H [:p %d]))) ([e] (sim/ev :ret %d 0 :err e)))" % (T, s, T))
            A("  (sim/ev :done %d))" % T)
            if t.get("thread"):
                # the whole task runs in another OS thread: the stream travels there as a marshalled copy (duplicate
                # descriptor, registered with that thread's loop); this thread closes its own copy right away
                body = L[start_idx + 2:]
                del L[start_idx:]
                A("(defn task%d []" % T)
                A("  (def h (H [:%s %d]))" % (t["role"], s))
                A("  (ev/thread (fn [&] (var off 0)")
                L.extend(body[:-1])
                A("  (sim/ev :done %d)) nil :n)" % T)
                A("  (:close h))")
        by = ""
        if plan.get("bystander"):
            b = plan["bystander"]
            A("(defn bystander [] (ev/sleep %s) (def p (os/spawn [\"sim-child\" \"s100000\"] :p)) (sim/ev :by-spawned)"
              % (b["spawn_ms"] / 1000.0))
            A("  (ev/sleep %s) (os/proc-kill p true) (sim/ev :by-reaped))" % (b["kill_ms"] / 1000.0))
            by = " (ev/go bystander)"
        A("(ev/go (fn [] (setup)%s %s))" % (by, " ".join("(ev/go task%d)" % t["id"] for t in plan["tasks"])))
        return make_request(plan["knobs"], "\n".join(L))

    # ---------------- oracle ----------------
    def check(self, plan, res):
        if plan["mode"] == "dgram":
            return self.check_dgram(plan, res)
        vs = []
        V = lambda sig, d="": vs.append(Violation(sig, d))
        oc = res.outcome
        if oc not in ("ok", "deadlock"):
            tail = (res.log or "")[-600:]
            return [Violation("C16/run/%s" % oc.split(":")[0], tail)]
        tasks = {t["id"]: t for t in plan["tasks"]}
        sds = {s["id"]: s for s in plan["sds"]}
        mode = plan["mode"]
        inv, ret = {}, {}
        segs = {}
        order = []
        tof = {}
        done_seq = {}
        for e in res.events:
            tof[e.seq] = e.t
            if e.kind == "done":
                done_seq[int(e.payload)] = e.seq
            if e.kind == "inv":
                T, k = (int(x) for x in e.payload.split(" "))
                inv[(T, k)] = e.seq
                order.append(("inv", T, k, e.seq))
            elif e.kind == "ret":
                toks = e.payload.split(" ")
                T, k = int(toks[0]), int(toks[1])
                ret[(T, k)] = (e.seq, toks[2:])
                order.append(("ret", T, k, e.seq))
            elif e.kind == "seg":
                toks = e.payload.split(" ")
                segs.setdefault(int(toks[0]), []).append((int(float(toks[1])), int(toks[2]), e.seq))
        # per stream direction accounting
        for s, sd in sds.items():
            wts = [t for t in tasks.values() if t["role"] == "w" and t["sd"] == s]
            rts = [t for t in tasks.values() if t["role"] == "r" and t["sd"] == s]
            xts = [t for t in tasks.values() if t["role"] == "x" and t["sd"] == s]
            kind = sd["kind"]
            # bytes certainly written (completed writes) and possibly written (invoked)
            lower = upper = 0
            werr = False
            w_closed_seq = None
            pend_w = []
            per_writer_lower = {}
            for t in wts:
                for k, st in enumerate(t["steps"]):
                    if st["op"] != "write":
                        continue
                    if (t["id"], k) in inv:
                        upper += st["n"]
                        r_ = ret.get((t["id"], k))
                        if r_ is None:
                            pend_w.append((t, k, st))
                        elif r_[1][0] == ":ok":
                            lower += st["n"]
                            per_writer_lower[t["w"]] = per_writer_lower.get(t["w"], 0) + st["n"]
                        else:
                            werr = True
                c = ret.get((t["id"], 900))
                if c is not None:
                    w_closed_seq = c[0]
                elif t.get("thread") and t["id"] in done_seq:
                    # the writer's copy of the stream lived in its thread and went away with it (the spawning thread
                    # closed its own copy when it handed the stream over)
                    w_closed_seq = done_seq[t["id"]]
            if kind in EMITS:
                lower = upper = sd["emit"]
                if kind == "killed":
                    lower = 0       # the kill may land while the child is still writing: any prefix is legitimate
                w_closed_seq = -1  # the child closes its end when it exits (or is killed)
            r_closed_seq = None
            consumed = 0
            pend_r = []
            saw_nil = False
            drained = False
            rops = []
            nbusy = 0
            unaccounted = False
            for t in rts:
                for k, st in enumerate(t["steps"]):
                    if st["op"] == "sleep" or (t["id"], k) not in inv:
                        continue
                    r_ = ret.get((t["id"], k))
                    if r_ is None:
                        pend_r.append((t, k, st))
                        continue
                    rops.append((r_[0], t, k, st, r_[1]))
                for (off_, n_, seq_) in segs.get(t["id"], []):
                    rops.append((seq_, t, -1, {"op": "segment"}, [":seg", str(off_), str(n_)]))
            rops.sort(key=lambda x: x[0])
            for seq, t, k, st, toks in rops:
                    tag = toks[0]
                    if st["op"] == "close":
                        r_closed_seq = seq
                        continue
                    if tag == ":err":
                        # reading a stream that this very task closed earlier is an error by contract;
                        # with several fibers on one stream "completes or raises an error" is the contract
                        busy = "already waiting" in " ".join(toks)
                        timed_out = '"timeout"' in " ".join(toks) and ((st.get("var", 0) >> 1) & 3) >= 2
                        if timed_out:
                            # the (very long) timeout of this spelling of the call expired because nothing ever came:
                            # simulated time jumps when everything is blocked. Bytes it had consumed are unaccounted for.
                            unaccounted = True
                        elif busy and mode == "multi_r":
                            nbusy += 1
                        elif r_closed_seq is None:
                            V("C16/read/raised-error-on-open-stream/op=%s/kind=%s" % (st["op"], kind), " ".join(toks))
                        continue
                    if tag == ":seg":
                        consumed += int(toks[2])
                        if saw_nil and int(toks[2]) > 0:
                            V("C16/eof/data-after-nil/kind=%s" % kind, "")
                    elif tag == ":eof":
                        saw_nil = True
                        drained = True
                        if w_closed_seq is None and not werr:
                            V("C16/eof/nil-although-write-end-open/kind=%s/op=drain" % kind, "")
                        elif consumed < lower:
                            V("C16/eof/nil-before-all-bytes-delivered/kind=%s/op=drain" % kind, "consumed %d of %d" % (consumed, lower))
                    elif tag == ":data":
                        n = int(toks[1])
                        if toks[2] != "true":
                            V("C16/bytes/not-the-written-bytes-in-order/op=%s/kind=%s/mode=%s" % (st["op"], kind, mode),
                              "task %d step %d read %d bytes at offset %d that do not match the writer's stream" % (t["id"], k, n, consumed))
                        if st["op"] == "read" and not (1 <= n <= st["n"]):
                            V("C16/read/returned-count-out-of-range/kind=%s" % kind, "asked %d got %d" % (st["n"], n))
                        if st["op"] == "chunk" and n != st["n"]:
                            # fewer bytes only if the stream ended: all later reads must be nil and the writer closed
                            if n > st["n"]:
                                V("C16/chunk/returned-more-than-asked/kind=%s" % kind, "asked %d got %d" % (st["n"], n))
                            elif w_closed_seq is None and kind != "cat":
                                V("C16/chunk/short-count-although-stream-not-ended/kind=%s" % kind,
                                  "asked %d got %d, write end never closed" % (st["n"], n))
                            elif consumed + n < lower:
                                V("C16/chunk/short-count-although-bytes-remained/kind=%s" % kind,
                                  "asked %d got %d at offset %d, %d bytes written" % (st["n"], n, consumed, lower))
                        consumed += n
                        if saw_nil and n > 0:
                            V("C16/eof/data-after-nil/kind=%s" % kind, "")
                    elif tag == ":nil":
                        saw_nil = True
                        if st["op"] in ("read", "chunk", "all") and st.get("n", 1) != 0:
                            if w_closed_seq is None and kind != "cat" and not werr:
                                V("C16/eof/nil-although-write-end-open/kind=%s/op=%s" % (kind, st["op"]), "consumed %d written>=%d" % (consumed, lower))
                            elif consumed < lower:
                                V("C16/eof/nil-before-all-bytes-delivered/kind=%s/op=%s" % (kind, st["op"]),
                                  "consumed %d of %d" % (consumed, lower))
                    elif tag == ":drained":
                        n = int(toks[1])
                        drained = True
                        if mode == "multi_w":
                            if toks[2] != "true":
                                V("C16/bytes/unattributable-bytes-received/mode=multi_w/kind=%s" % kind, " ".join(toks))
                            else:
                                # per-writer totals: each writer's completed bytes arrived exactly once, in order
                                tots = [int(x) for x in re.findall(r"-?\d+", " ".join(toks[4:]).replace("#0=", ""))] if len(toks) > 4 else []
                                wids = [w["w"] for w in wts]
                                for w, got in zip(wids, tots):
                                    lo = per_writer_lower.get(w, 0)
                                    hi = sum(st2["n"] for t2 in wts if t2["w"] == w for k2, st2 in enumerate(t2["steps"])
                                             if st2["op"] == "write" and (t2["id"], k2) in inv)
                                    if not (lo <= got <= hi):
                                        V("C16/bytes/writer-bytes-lost-or-duplicated/mode=multi_w/kind=%s" % kind,
                                          "writer tag %d: %d bytes received, %d..%d written" % (w, got, lo, hi))
                        else:
                            if toks[2] != "true":
                                V("C16/bytes/not-the-written-bytes-in-order/op=drain/kind=%s/mode=%s" % (kind, mode),
                                  "drain from offset %d" % consumed)
                            consumed += n
                            if not (lower <= consumed <= upper) and not werr and not unaccounted:
                                V("C16/bytes/total-received-differs-from-written/kind=%s" % kind,
                                  "received %d, written between %d and %d" % (consumed, lower, upper))
                        if w_closed_seq is None and kind != "cat" and not werr:
                            V("C16/eof/nil-although-write-end-open/kind=%s/op=drain" % kind, "")
            # multi reader: segments partition a prefix of the stream
            if mode == "multi_r":
                allseg = [(off, n) for t in rts for (off, n, _) in segs.get(t["id"], [])]
                for t in rts:
                    for k, st in enumerate(t["steps"]):
                        r_ = ret.get((t["id"], k))
                        if r_ and r_[1][0] == ":seg":
                            allseg.append((int(float(r_[1][1])), int(r_[1][2])))
                # segments shorter than 8 bytes cannot be located reliably (chance matches): they may fill any gap
                wild = sorted(n for off, n in allseg if n < 8)
                fixed = sorted((off, n) for off, n in allseg if n >= 8)
                pos = 0
                gaps = []
                bad = None
                for off, n in fixed:
                    if off < 0:
                        bad = ("C16/bytes/segment-not-found-in-written-stream/mode=multi_r/kind=%s" % kind, "len %d" % n)
                        break
                    if off < pos:
                        bad = ("C16/bytes/segments-overlap/mode=multi_r/kind=%s" % kind, "offset %d < %d" % (off, pos))
                        break
                    if off > pos:
                        gaps.append(off - pos)
                    pos = off + n
                if bad:
                    V(*bad)
                else:
                    # gaps must be exactly coverable by the short segments (left-over shorts extend the tail)
                    def cover(gs, ws):
                        if not gs:
                            return True
                        g = gs[0]
                        # choose a sub-multiset of ws summing to g (sizes are tiny)
                        def pick(i, left, chosen):
                            if left == 0:
                                rest = list(ws)
                                for c in chosen:
                                    rest.remove(c)
                                return cover(gs[1:], rest)
                            if i >= len(ws) or left < 0:
                                return False
                            return pick(i + 1, left - ws[i], chosen + [ws[i]]) or pick(i + 1, left, chosen)
                        return pick(0, g, [])
                    if len(wild) <= 14 and not cover(gaps, wild):
                        V("C16/bytes/segments-leave-a-gap/mode=multi_r/kind=%s" % kind, "gaps %r short segments %r" % (gaps, wild))
                consumed = sum(n for _, n in allseg)
            # ---- no orphaned operation: what is still pending at quiescence must legitimately wait ----
            for t, k, st in pend_r:
                if st["op"] == "close":
                    continue
                why = None
                if r_closed_seq is not None and mode == "single":
                    why = "its own end was closed"
                elif w_closed_seq is not None and kind != "cat" and not pend_w:
                    why = "the write end was closed (end of stream)"
                elif st["op"] == "read" and lower > consumed and mode != "multi_r":
                    why = "bytes were available (%d written, %d consumed)" % (lower, consumed)
                elif st["op"] == "chunk" and lower >= consumed + st["n"] and mode != "multi_r":
                    why = "enough bytes for the chunk were available"
                elif mode == "multi_r" and len([1 for (t2, k2, s2) in pend_r if s2["op"] != "close"]) > 1 and lower > consumed:
                    why = "several readers pending while bytes are available"
                elif mode == "multi_r" and lower > consumed and st["op"] in ("read", "drain"):
                    why = "bytes were available (%d written, %d consumed)" % (lower, consumed)
                if why:
                    n_r = len(rts)
                    V("C16/orphaned-op/%s/kind=%s/%s" % (st["op"] if st["op"] != "drain" else "read", kind,
                                                         "concurrent-readers" if n_r > 1 else "single-reader"),
                      "task %d step %d never returned although %s" % (t["id"], k, why))
            for t, k, st in pend_w:
                why = None
                if r_closed_seq is not None:
                    why = "the read end was closed"
                elif pend_r and mode != "multi_r" and any(s2["op"] in ("read", "drain", "all") for (_, _, s2) in pend_r):
                    why = "a reader was waiting at the same time"
                elif len(pend_w) > 1 and (drained or pend_r):
                    why = "several writers pending while the reader drains"
                if why:
                    V("C16/orphaned-op/write/kind=%s/%s" % (kind, "concurrent-writers" if len(wts) > 1 else "single-writer"),
                      "task %d step %d never returned although %s" % (t["id"], k, why))
            # ---- child exit status ----
            for t in xts:
                r_ = ret.get((t["id"], 0))
                expect = None
                if kind == "cat":
                    expect = 0
                elif kind in EMITS:
                    expect = 128 + sd["sig"] if sd["sig"] else sd["exit"]
                if r_ is None:
                    if drained and (kind in EMITS or w_closed_seq is not None):
                        V("C16/child/proc-wait-never-returned/kind=%s" % kind, "the child has exited (its output reached end of stream)")
                elif r_[1][0] == ":exit":
                    got = int(r_[1][1])
                    # a reader that closes early makes the child die of SIGPIPE: then no expectation
                    if got != expect and r_closed_seq is None and drained:
                        V("C16/child/exit-status-misreported/kind=%s" % kind, "expected %r got %r" % (expect, got))
                elif r_[1][0] == ":err":
                    V("C16/child/proc-wait-raised/kind=%s" % kind, " ".join(r_[1]))
        # ---- end of stream is reported when the last writer closes, not when some unrelated process ends ----
        # (simulated time only advances when every thread is blocked: a reader whose stream has ended is runnable)
        for t in tasks.values():
            # (cat: the child copies its input to its output and ends when its input ends - its input ends when the
            # parent's write end is closed, provided no other process inherited a copy of that end)
            if t["role"] != "r" or t["sd"] < 0 or sds[t["sd"]]["kind"] not in ("pipe", "unix", "cat"):
                continue
            wclose = [ret[(w["id"], 900)][0] for w in tasks.values() if w["role"] == "w" and w["sd"] == t["sd"] and (w["id"], 900) in ret]
            if not wclose:
                continue
            wc = max(wclose)
            nwriters = sum(1 for w in tasks.values() if w["role"] == "w" and w["sd"] == t["sd"])
            if len(wclose) == nwriters and res.outcome in ("ok", "deadlock") and not any(w.get("thread") for w in tasks.values() if w["sd"] == t["sd"]):
                # every writer has closed: a read that was issued must come back (with the rest of the data or the end)
                for k, st in enumerate(t["steps"]):
                    if (t["id"], k) in inv and (t["id"], k) not in ret and st["op"] in ("read", "chunk", "all", "drain"):
                        V("C16/eof/end-of-stream-never-delivered/kind=%s" % sds[t["sd"]]["kind"],
                          "task %d step %d (%s) was still suspended at the end of the run although every writer had closed" % (t["id"], k, st["op"]))
                        break
            for k, st in enumerate(t["steps"]):
                r_ = ret.get((t["id"], k))
                if r_ is None or (t["id"], k) not in inv or r_[1][0] not in (":nil", ":eof", ":drained"):
                    continue
                start = max(tof.get(inv[(t["id"], k)], 0), tof.get(wc, 0))
                late = tof.get(r_[0], 0) - start
                if r_[0] > wc and late > 50 * 1000000:
                    V("C16/eof/end-of-stream-delivered-late/kind=%s" % sds[t["sd"]]["kind"],
                      "task %d step %d saw the end of its stream %.1f ms after the writer had closed" % (t["id"], k, late / 1e6))
        # ---- a peer that closed while input for it was still unread: the other end sees a reset, not end of stream ----
        for t in tasks.values():
            if t["role"] != "w" or not t.get("ack") or (t["id"], 902) not in ret:
                continue
            s_ = t["sd"]
            rclose = None
            consumed_before = 0
            read_failed = False
            for t2 in tasks.values():
                if t2["role"] != "r" or t2["sd"] != s_:
                    continue
                for k2, st2 in enumerate(t2["steps"]):
                    r2 = ret.get((t2["id"], k2))
                    if r2 is None:
                        continue
                    if st2["op"] == "close":
                        rclose = r2[0]
                    elif r2[1][0] in (":data", ":drained") and (rclose is None or r2[0] < rclose):
                        consumed_before += int(r2[1][1])
                    elif r2[1][0] == ":err":
                        read_failed = True      # (a read that failed may have consumed bytes it did not report)
            if rclose is None:
                continue
            written_before = 0
            werr_any = False
            for k, st in enumerate(t["steps"]):
                if st["op"] != "write":
                    continue
                r_ = ret.get((t["id"], k))
                if r_ is not None and r_[1][0] == ":ok" and r_[0] < rclose:
                    written_before += st["n"]
                elif r_ is not None and r_[1][0] != ":ok":
                    werr_any = True
            ack = ret[(t["id"], 902)]
            # (a spurious EAGAIN injected into the very recv that would have reported the reset leaves only the
            # EPOLLERR notification, which Janet reports as end of stream: judged in runs without that fault kind)
            spurious = any(f[0] in ("eagain_r", "eintr_r") for f in res.faults)
            if written_before > consumed_before and not werr_any and ack[0] > rclose and ack[1][0] == ":nil" and not spurious and not read_failed:
                V("C16/reset/peer-closed-with-unread-input-reported-as-clean-end-of-stream",
                  "%d bytes written and acknowledged, %d read before the peer closed; the writer's read returned nil" % (written_before, consumed_before))
        # ---- half-closed sockets: a write after net/shutdown fails, it neither succeeds nor hangs ----
        for t in tasks.values():
            if t["role"] == "w" and t.get("shut") and t.get("write_after") and (t["id"], 901) in inv:
                r_ = ret.get((t["id"], 901))
                if r_ is None:
                    V("C16/shutdown/write-after-shutdown-never-returned", "task %d" % t["id"])
                elif r_[1][0] != ":err":
                    V("C16/shutdown/write-after-shutdown-succeeded", "task %d" % t["id"])
        # ---- os/execute reports the exit status exactly; :x turns a non-zero status into an error ----
        for t in tasks.values():
            if t["role"] != "e" or (t["id"], 0) not in inv:
                continue
            expect = 128 + t["sig"] if t["sig"] else t["code"]
            r_ = ret.get((t["id"], 0))
            if r_ is None:
                V("C16/child/os-execute-never-returned", "expected status %d" % expect)
            elif r_[1][0] == ":exit":
                if not r_[1][1].lstrip("-").isdigit() or int(r_[1][1]) != expect:
                    V("C16/child/exit-status-misreported/kind=%s" % ("wait-cut-short" if t.get("cut") else "execute"), "expected %d got %s" % (expect, r_[1][1]))
                elif t["x"] and expect != 0:
                    V("C16/child/os-execute-x-ignored-non-zero-status", "status %d returned instead of raised" % expect)
            else:
                msg = " ".join(r_[1][1:])
                if not (t["x"] and expect != 0 and msg.strip('"').endswith("exit code %d" % expect)):
                    V("C16/child/os-execute-raised", "expected status %d (x=%s), got error %s" % (expect, t["x"], msg[:80]))
        for t in tasks.values():
            if t["role"] == "d" and (t["id"], 0) in ret and ret[(t["id"], 0)][1][0] == ":duplex":
                rr, ww = ret[(t["id"], 0)][1][1:3]
                if rr == ":pending" or ww == ":pending":
                    V("C16/close/pending-%s-not-woken-by-local-close" % ("reader-and-writer" if rr == ww else "reader" if rr == ":pending" else "writer"),
                      "20 ms after the close: reader %s, writer %s" % (rr, ww))
        for t in tasks.values():
            if t["role"] != "b" or (t["id"], 0) not in inv:
                continue
            r_ = ret.get((t["id"], 0))
            if r_ is not None and r_[1][0] == ":burst":
                pend, bad = int(r_[1][1]), int(r_[1][2])
                if pend:
                    V("C16/child/burst-of-exits/proc-wait-never-returned", "%d of %d waits still pending 50 ms after every child had exited" % (pend, t["n"]))
                elif bad:
                    V("C16/child/burst-of-exits/exit-status-misreported", "%d of %d waits returned another child's status" % (bad, t["n"]))
        for e in res.events:
            if e.kind == "!badclose":
                V("C16/descriptor/closed-a-descriptor-that-is-not-open", "close(%s) failed with EBADF: a double close" % e.payload)
                break
        seen, out = set(), []
        for v in vs:
            if v.sig not in seen:
                seen.add(v.sig)
                out.append(v)
        return out

    # ---------------- evidence helpers ----------------
    def nontrivial(self, plan, res):
        return bool(res.faults) or self._waited(res) > 0

    @staticmethod
    def _waited(res):
        n = 0
        last_inv = {}
        for e in res.events:
            if e.kind == "inv":
                last_inv[e.payload] = e.seq
            elif e.kind == "ret":
                key = " ".join(e.payload.split(" ")[:2])
                if key in last_inv and e.seq > last_inv[key] + 1:
                    n += 1
        return n

    def extra(self, plan, res):
        pr = dict(res.probes)
        fc = res.fault_counts
        return {"waited": self._waited(res), "mode": plan["mode"], "kinds": [s["kind"] for s in plan["sds"]],
                "dg": sum(1 for e in res.events if e.kind == "dg"),
                "exec": sum(1 for t in plan.get("tasks", []) if t.get("role") == "e"),
                "burst": sum(t["n"] for t in plan.get("tasks", []) if t.get("role") == "b"),
                "shut": sum(1 for t in plan.get("tasks", []) if t.get("shut")),
                "partial": pr.get("short_write_injected", 0) + pr.get("natural_partial_write", 0),
                "eagain": fc.get("eagain_r", 0) + fc.get("eagain_w", 0) + pr.get("natural_eagain_w", 0),
                "chunks": sum(1 for t in plan["tasks"] for s in t["steps"] if s["op"] == "chunk" and s["n"] > 4096)}

    def aggregate(self, extras):
        ex = [x for x in extras if x]
        modes, kinds = {}, {}
        for x in ex:
            modes[x["mode"]] = modes.get(x["mode"], 0) + 1
            for k in x["kinds"]:
                kinds[k] = kinds.get(k, 0) + 1
        return {"probes": {"op_waited": sum(x["waited"] for x in ex), "partial_write_resumed": sum(x["partial"] for x in ex),
                           "eagain_then_edge": sum(x["eagain"] for x in ex), "chunk_across_events": sum(x["chunks"] for x in ex),
                           "datagram_received_and_attributed": sum(x.get("dg", 0) for x in ex),
                           "os_execute_calls": sum(x.get("exec", 0) for x in ex),
                           "children_exiting_in_one_burst": sum(x.get("burst", 0) for x in ex), "socket_half_closed": sum(x.get("shut", 0) for x in ex)},
                "plans_by_mode": modes, "streams_by_kind": kinds}

    # ---------------- shrinking ----------------
    def shrink(self, plan):
        P = plan
        cp = lambda: json.loads(json.dumps(P))
        # drop a whole stream direction with its tasks
        if len(P["sds"]) > 1:
            for s in [x["id"] for x in P["sds"]]:
                q = cp()
                keep = [x for x in q["sds"] if x["id"] != s]
                # renumbering would change tags of emit children (actor index): only drop the last one
                if s != P["sds"][-1]["id"]:
                    continue
                q["sds"] = keep
                q["tasks"] = [t for t in q["tasks"] if t["sd"] != s]
                yield q
        for ti, t in enumerate(P["tasks"]):
            for k in range(len(t["steps"])):
                q = cp()
                del q["tasks"][ti]["steps"][k]
                yield q
        for ti, t in enumerate(P["tasks"]):
            for k, st in enumerate(t["steps"]):
                if st.get("n", 0) > 1:
                    for nn in (st["n"] // 2, st["n"] - 1):
                        q = cp()
                        q["tasks"][ti]["steps"][k]["n"] = nn
                        yield q
                if st.get("ms", 0) > 0:
                    q = cp()
                    q["tasks"][ti]["steps"][k]["ms"] = 0
                    yield q
        if P["knobs"].get("p") and not P["knobs"].get("explicit"):
            for k in list(P["knobs"]["p"]):
                q = cp()
                del q["knobs"]["p"][k]
                yield q
        if P.get("flavour") == "asan":
            q = cp()
            q["flavour"] = "plain"
            yield q


DRIVER = C16
