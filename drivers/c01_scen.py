"""C01 targeted scenarios: one per kind of heap edge / root.  Each scenario is a function
rng -> list of Janet forms (strings) that become the body of one unit function.  The unit
wrapper (see c01.py) activates the collector schedule around the body and turns any raised
error into a transcript event.

Conventions used by every scenario:
 * the interesting value is built inside a helper function whose frame is popped before the
   collector gets a chance, so that the *only* live reference is the heap edge under test
   (a stale copy in a live frame's temporary register would keep the value alive);
 * `(churn n)` allocates garbage of several kinds in between (every call is a safepoint);
 * everything observable goes through (emit tag ...) = (sim/ev :v tag ...), which is
   address-free; nothing is printed with %v/describe/string of a reference type;
 * every stream is closed and every process waited on explicitly; no fiber blocks on the
   peer of a dropped object; no weak containers, no gccollect/gcinterval, no hashes or
   orderings of reference types.
"""

PRELUDE = r"""
(defn churn [n]
  (for i 0 n
    (string/repeat "ab" (+ 1 (% i 37)))
    (array/new 8)
    (table/new 4)
    (keyword "churn-k" i)
    (buffer/new 16)))
(defn mkval [i]
  @[i (string/repeat "v" (+ 3 (% i 11)))
    {:k (keyword "kv" i) :t [i (+ i 1)]}
    @{:s (string "s" i) :b (buffer "b" i)}])
(defn mkstr [i] (string "str-" i "-" (string/repeat "z" (% (math/abs i) 7))))
(defn emit [tag & xs] (sim/ev :v tag ;xs))
(defn take* [k xs] (seq [i :range [0 (min k (length xs))]] (in xs i)))
(defn take-n [ch n] (def out @[]) (repeat n (array/push out (ev/take ch))) out)
(defn read-all [s n]
  (def b @"")
  (while (< (length b) n)
    (if (nil? (ev/read s (- n (length b)) b)) (break)))
  b)
(defn read-eof [s]
  (def b @"")
  (while (ev/read s 4096 b))
  b)
"""


def T(_src, **kw):
    """template: $name -> value (longest names first so $nn is not clobbered by $n)"""
    for k in sorted(kw, key=len, reverse=True):
        _src = _src.replace("$" + k, str(kw[k]))
    return _src.strip("\n")


# ------------------------------------------------------------------------------------------
def sc_env_dead_fiber(r):
    mode = r.choice(["error", "return", "user", "alive"])
    nloc = r.randint(1, 12)
    k = r.randint(1, 6)
    locs = "\n".join("      (def pad%d (mkval %d))" % (i, i + 50) for i in range(nloc))
    fin = {"error": '(error "boom")', "return": ":finished", "user": "(signal :user2 (mkval 9))",
           "alive": "(yield 1) (yield 2)"}[mode]
    return [T(r"""
(defn mk []
  (def f (fiber/new (fn []
$locs
      (var acc @[(mkval $a)])
      (def big (string/repeat "x" $n))
      (var cnt 0)
      (def c (fn [x] (++ cnt) (array/push acc (mkstr (+ x cnt))) [cnt (length big) (length acc) (last acc)]))
      (yield c)
      $fin) :yeu2))
  (def c (resume f))
  (c 1)
  (resume f)
  c)
(def c (mk))
(churn $k)
(emit "env1" (c 2))
(churn $k)
(emit "env2" (c 3))
""", locs=locs, a=r.randint(0, 99), n=r.randint(1, 300), k=k, fin=fin)]


def sc_env_suspended_fiber(r):
    """closure over the locals of a fiber that is *suspended* (yield, debug, user signal): the environment
    must stay on the fiber's stack across collections, so that later mutations by the fiber are seen"""
    how = r.choice(["yield", "debug", "user5", "user0"])
    susp = {"yield": "(yield %s)", "debug": "(signal :debug %s)", "user5": "(signal :user5 %s)", "user0": "(signal :user0 %s)"}[how]
    mask = {"yield": ":y", "debug": ":d", "user5": ":u", "user0": ":u"}[how]
    nloc = r.randint(0, 10)
    locs = "\n".join("      (def pad%d (mkval %d))" % (i, i + 70) for i in range(nloc))
    return [T(r"""
(defn mk []
  (def f (fiber/new (fn []
$locs
      (var cnt 0)
      (var acc @[(mkval $a)])
      (def c (fn [] [cnt (length acc) (last acc)]))
      $s1
      (++ cnt) (array/push acc (mkstr $b))
      $s2
      (set cnt (+ cnt 40)) (array/push acc (mkval $b))
      :done) $mask))
  (def c (resume f))
  [f c])
(def [f c] (mk))
(churn $k)
(emit "susp1" (c) (fiber/status f))
(resume f)
(churn $k)
(emit "susp2" (c) (fiber/status f))
(resume f)
(churn 1)
(emit "susp3" (c) (fiber/status f))
""", locs=locs, a=r.randint(0, 99), b=r.randint(0, 99), k=r.randint(1, 6), s1=susp % "c", s2=susp % "nil", mask=mask)]


def sc_env_loop_closures(r):
    n = r.randint(2, 8)
    return [T(r"""
(defn mk []
  (def fs @[])
  (for i 0 $n
    (var c (mkval i))
    (def s (mkstr i))
    (array/push fs (fn [d] (array/push c d) [s (length c)])))
  fs)
(def fs (mk))
(churn $k)
(each f fs (emit "lc" (f 1)))
(churn 1)
(emit "lc2" ((fs 0) 2) ((last fs) 3))
""", n=n, k=r.randint(1, 5))]


def sc_chan_items(r):
    cap = r.randint(1, 12)
    pre = r.randint(0, cap)          # moves head/tail so that the ring wraps
    n = r.randint(1, cap)
    return [T(r"""
(def ch (ev/chan $cap))
(defn fill [lo hi] (for i lo hi (ev/give ch (mkval i))) nil)
(fill 0 $pre)
(take-n ch $pre)
(fill 100 (+ 100 $n))
(churn $k)
(for i 0 $n (emit "item" (ev/take ch)))
(ev/chan-close ch)
""", cap=cap, pre=pre, n=n, k=r.randint(1, 6))]


def sc_chan_blocked_giver(r):
    n = r.randint(1, 4)
    cap = r.choice([0, 0, 1, 2])
    return [T(r"""
(def ch (ev/chan $cap))
(def done (ev/chan 16))
(defn launch [i]
  (ev/go (fn [] (ev/give ch (mkval i)) (ev/give ch (mkstr i)) (ev/give done i)))
  nil)
(for i 0 $n (launch i))
(ev/sleep 0)
(churn $k)
(for i 0 (* 2 $n) (emit "bg" (ev/take ch)) (churn 1))
(emit "bg-done" (sort (take-n done $n)))
""", cap=cap, n=n, k=r.randint(1, 6))]


def sc_runq_value(r):
    n = r.randint(1, 5)
    return [T(r"""
(def done (ev/chan 16))
(defn worker [v] (churn 1) (emit "rq" v) (ev/give done (length v)))
(defn launch [i] (ev/go worker (mkval i)) nil)
(for i 0 $n (launch i))
(churn $k)
(emit "rq-done" (take-n done $n))
""", n=n, k=r.randint(1, 6))]


def sc_select_value(r):
    mode = r.choice(["give-first", "take-first"])
    if mode == "give-first":
        body = r"""
(def c1 (ev/chan))
(def c2 (ev/chan))
(def done (ev/chan 4))
(defn launch []
  (ev/go (fn []
    (def res (ev/select [c1 (mkval $a)] c2))
    (emit "sel" (res 0))
    (ev/give done :sel)))
  nil)
(launch)
(ev/sleep 0)
(churn $k)
(emit "sel-got" (ev/take c1))
(emit "sel-done" (ev/take done))
"""
    else:
        body = r"""
(def c1 (ev/chan))
(def c2 (ev/chan))
(def done (ev/chan 4))
(defn launch []
  (ev/go (fn []
    (def res (ev/select c1 c2))
    (emit "sel" (res 0) (res 2))
    (ev/give done :sel)))
  nil)
(defn giver [] (ev/go (fn [] (ev/give c2 (mkval $a)) (ev/give done :giver))) nil)
(launch)
(ev/sleep 0)
(churn $k)
(giver)
(churn 1)
(emit "sel-done" (sort (take-n done 2)))
"""
    return [T(body, a=r.randint(0, 99), k=r.randint(1, 6))]


def sc_timer_only_fiber(r):
    n = r.randint(1, 4)
    return [T(r"""
(def done (ev/chan 16))
(defn launch [i]
  (ev/go (fn []
    (def mine (mkval i))
    (ev/sleep (* 0.001 (+ 1 i)))
    (churn 1)
    (emit "timer" mine)
    (ev/give done i)))
  nil)
(for i 0 $n (launch i))
(ev/sleep 0)
(churn $k)
(emit "timer-done" (take-n done $n))
""", n=n, k=r.randint(1, 8))]


def sc_deadline(r):
    return [T(r"""
(def done (ev/chan 4))
(defn launch []
  (ev/go (fn []
    (def mine (mkval $a))
    (def res (try (ev/with-deadline 0.005 (ev/sleep 1) :not-cancelled) ([e] [:cancelled (type e)])))
    (emit "deadline" res mine)
    (ev/give done 1)))
  nil)
(launch)
(ev/sleep 0)
(churn $k)
(ev/take done)
(def r2 (ev/with-deadline 5 (churn 2) (ev/sleep 0.001) (mkstr $a)))
(churn 2)
(ev/sleep 0.01)
(emit "deadline2" r2)
""", a=r.randint(0, 99), k=r.randint(1, 6))]


def sc_chan_pending_fiber(r):
    n = r.randint(1, 4)
    return [T(r"""
(def done (ev/chan 16))
(def ch (ev/chan))
(defn launch [i]
  (ev/go (fn []
    (def mine (mkval i))
    (def got (ev/take ch))
    (emit "pend" (mine 0) got)
    (ev/give done i)))
  nil)
(for i 0 $n (launch i))
(ev/sleep 0)
(churn $k)
(for i 0 $n (ev/give ch (mkstr i)) (churn 1))
(emit "pend-done" (sort (take-n done $n)))
""", n=n, k=r.randint(1, 8))]


def sc_cancel_sleeping(r):
    return [T(r"""
(def done (ev/chan 4))
(defn launch []
  (ev/go (fn []
    (def res (try (do (ev/sleep 10) :woke) ([e] [:cancelled e])))
    (emit "cancel" res)
    (ev/give done 1))))
(defn do-cancel [f] (ev/cancel f (mkval $a)) nil)
(def f (launch))
(ev/sleep 0)
(do-cancel f)
(churn $k)
(ev/take done)
""", a=r.randint(0, 99), k=r.randint(1, 6))]


def sc_stream_pending_read(r):
    variant = r.choice(["fresh", "fresh", "given", "chunk"])
    n = r.randint(1, 3000)
    rd = {"fresh": "(ev/read rs %d)" % (n + r.randint(0, 50)),
          "given": "(ev/read rs %d (buffer/new %d))" % (n + r.randint(0, 50), r.randint(0, 64)),
          "chunk": "(ev/chunk rs %d)" % n}[variant]
    return [T(r"""
(def [rs ws] (os/pipe))
(def done (ev/chan 4))
(defn launch []
  (ev/go (fn []
    (def got $rd)
    (emit "read" (length got) (sim/hash got))
    (ev/give done 1)))
  nil)
(launch)
(ev/sleep 0)
(churn $k)
(ev/write ws (sim/fill $w 0 $n))
(churn 1)
(ev/take done)
(ev/close ws)
(ev/close rs)
""", rd=rd, n=n, w=r.randint(1, 9), k=r.randint(1, 8))]


def sc_stream_pending_write(r):
    n = r.choice([5000, 9000, 20000, 70000])
    src = r.choice(["(string/repeat \"wr\" %d)" % (n // 2), "(sim/fill 3 0 %d)" % n])
    return [T(r"""
(def [rs ws] (os/pipe))
(def done (ev/chan 4))
(defn launch []
  (ev/go (fn []
    (ev/write ws $src)
    (ev/close ws)
    (ev/give done 1)))
  nil)
(launch)
(ev/sleep 0)
(churn $k)
(def got (read-all rs $n))
(churn 1)
(emit "written" (length got) (sim/hash got))
(ev/take done)
(emit "eof" (ev/read rs 10))
(ev/close rs)
""", src=src, n=n, k=r.randint(1, 8))]


def sc_supervisor(r):
    n = r.randint(1, 4)
    return [T(r"""
(def sup (ev/chan 16))
(defn launch [i]
  (ev/go (fn [] (churn 1) (if (odd? i) (error (mkval i)) (mkval i))) nil sup)
  nil)
(for i 0 $n (launch i))
(ev/sleep 0)
(churn $k)
(for i 0 $n
  (def ev (ev/take sup))
  (churn 1)
  (emit "sup" (ev 0) (fiber/status (ev 1)) (fiber/last-value (ev 1))))
""", n=n, k=r.randint(1, 8))]


def sc_fiber_last_value(r):
    mode = r.choice(["return", "return", "yield", "error"])
    body = {"return": "(mkval $a)", "yield": "(yield (mkval $a)) 1", "error": "(error (mkval $a))"}[mode]
    return [T(r"""
(defn mk []
  (def f (fiber/new (fn [] (churn 1) $body) :yie))
  (resume f)
  f)
(def f (mk))
(churn $k)
(emit "last" (fiber/status f) (fiber/last-value f))
(churn 1)
(emit "last2" (fiber/last-value f))
""", body=T(body, a=r.randint(0, 99)), k=r.randint(1, 8))]


def sc_fiber_env_dyn(r):
    return [T(r"""
(defn mk []
  (def f (fiber/new (fn []
     (setdyn :cfg (mkval $a))
     (setdyn (keyword "dyn" $a) (mkstr $a))
     (yield 1)
     (churn 1)
     [(dyn :cfg) (dyn (keyword "dyn" $a))]) :yi))
  (fiber/setenv f (table/setproto @{:own (mkval $b)} (fiber/getenv (fiber/current))))
  (resume f)
  f)
(def f (mk))
(churn $k)
(emit "dyn" (resume f))
(emit "dyn-env" (get (fiber/getenv f) :own) (get (fiber/getenv f) :cfg))
(def v (with-dyns [:wd (mkval $b)] (churn 2) (dyn :wd)))
(emit "with-dyns" v (dyn :wd))
""", a=r.randint(0, 99), b=r.randint(0, 99), k=r.randint(1, 8))]


def sc_proto(r):
    depth = r.randint(1, 6)
    return [T(r"""
(defn mk-table []
  (var t @{:level 0 :payload (mkval $a) :greet (fn [self] [(self :level) (self :payload)])})
  (for i 1 (+ 1 $depth)
    (set t (table/setproto @{:level i (keyword "own" i) (mkstr i)} t)))
  t)
(defn mk-struct []
  (var s {:level 0 :payload (mkval $b)})
  (for i 1 (+ 1 $depth)
    (set s (struct/with-proto s :level i (keyword "own" i) (mkstr i))))
  s)
(def t (mk-table))
(def s (mk-struct))
(churn $k)
(emit "proto-t" (t :payload) (:greet t) (get t :own1))
(emit "proto-s" (s :payload) (s :level) (struct/getproto s))
(churn 1)
(emit "proto-flat" (table/proto-flatten t) (struct/proto-flatten s))
""", a=r.randint(0, 99), b=r.randint(0, 99), depth=depth, k=r.randint(1, 8))]


def sc_compile_eval(r):
    n = r.randint(1, 4)
    forms = []
    for i in range(n):
        kind = r.choice(["fn", "closure", "nested", "quasi", "string"])
        a = r.randint(0, 99)
        if kind == "fn":
            forms.append(T(r"""(emit "ev-fn" ((eval ~(fn [x] [x ,(mkval $a) ,(mkstr $a) (string/repeat "q" x)])) $m))""",
                           a=a, m=r.randint(1, 9)))
        elif kind == "closure":
            forms.append(T(r"""
(def mk$i (eval '(fn [start] (var n start) (fn [d] (+= n d) [n (string/repeat "c" (% n 13)) @{:n n}]))))
(def cl$i (mk$i $a))
(churn 1)
(emit "ev-cl" (cl$i 1) (cl$i 2))""", i=i, a=a))
        elif kind == "nested":
            forms.append(T(r"""
(def fun$i (compile ~(do (defn- inner$i [a] (defn- inner2 [b] [a b ,(mkstr $a) :kw$a "lit$a"]) (inner2 (+ a 1)))
                        (inner$i $a)) (fiber/getenv (fiber/current))))
(churn 1)
(emit "ev-nested" (fun$i))""", i=i, a=a))
        elif kind == "quasi":
            forms.append(T(r"""
(def data$i (mkval $a))
(emit "ev-quasi" (eval ~(let [d ',data$i] (array/push d (quote ,(tuple ;(range $m)))) [d (length d) {:s ,(mkstr $a)}])))""",
                           i=i, a=a, m=r.randint(1, 6)))
        else:
            forms.append(T(r"""(emit "ev-string" (eval-string "(do (def es$i @{:a [$a (string/repeat \"e\" 5)] :b @[:x :y$a]}) (put es$i :c (length es$i)) es$i)"))""",
                           i=i, a=a))
    return forms


def sc_parser_state(r):
    whole = r.choice([
        '@{:a [1 2 "string with \\\\n escape"] :b (x y z) :c @[1.5 -2e3 0x10]}',
        '(defn foo [a b] (+ a b) "long string literal inside the form" @"buf" :kw sym)',
        '[1 2 [3 4 [5 6 {:k "v" :k2 @{}}]]] ``long\nstring`` # comment\n 42',
        '{:key "val" :nested (1 2 (3 4 (5 "six" @[7 8]))) :t true :n nil}',
    ])
    cut = r.randint(1, len(whole) - 1)
    cut2 = r.randint(cut, len(whole))
    def q(s):
        return '"' + s.replace("\\", "\\\\").replace('"', '\\"').replace("\n", "\\n") + '"'
    return [T(r"""
(defn mk [] (def p (parser/new)) (parser/consume p $h1) p)
(def p (mk))
(churn $k)
(def p2 (parser/clone p))
(churn 1)
(parser/consume p $h2)
(churn 1)
(parser/consume p $h3)
(parser/eof p)
(def out @[])
(while (parser/has-more p) (array/push out (parser/produce p)) (churn 1))
(emit "parser" (parser/status p) out)
(parser/consume p2 $h2)
(parser/consume p2 $h3)
(parser/consume p2 " :tail")
(parser/eof p2)
(def out2 @[])
(while (parser/has-more p2) (array/push out2 (parser/produce p2)))
(emit "parser-clone" (parser/status p2) out2)
# an error message generated at end of input belongs to the parser; a clone taken in that state keeps its own
# hold on it after the original is gone
(defn mk-dead [] (def pe (parser/new)) (parser/consume pe $h1) (parser/eof pe) pe)
(def pc (do (def pe (mk-dead)) (if (= :error (parser/status pe)) (parser/clone pe) pe)))
(churn $k) (churn 2)
(emit "parser-clone-error" (parser/status pc) (parser/error pc))
""", h1=q(whole[:cut]), h2=q(whole[cut:cut2]), h3=q(whole[cut2:]), k=r.randint(1, 8))]


def sc_peg(r):
    words = ["alpha", "beta", "gamma", "delta", "x", "yy", "zzz"]
    text = " ".join(r.choice(words) if r.random() < 0.5 else str(r.randint(0, 99999)) for _ in range(r.randint(1, 12)))
    return [T(r"""
(defn mk []
  (peg/compile
    ~{:num (cmt (<- :d+) ,(fn [s] (churn 1) [(scan-number s) (mkstr (length s))]))
      :word (/ (<- :a+) ,(fn [s] (string/ascii-upper s)))
      :const (* (constant ,(mkval $a)) (constant ,(mkstr $a)))
      :main (* :const (any (+ :num :word (<- :s+) 1)) (position))}))
(def pat (mk))
(churn $k)
(emit "peg" (peg/match pat $text))
(churn 1)
(emit "peg2" (peg/match pat $text 1))
(emit "peg-replace" (peg/replace-all ~(<- :d+) (fn [s &] (churn 1) (string "<" s ">")) $text))
(emit "peg-find" (peg/find-all ':a+ $text))
""", a=r.randint(0, 99), text='"' + text + '"', k=r.randint(1, 8))]


def sc_boxed(r):
    return [T(r"""
(defn mk []
  (def f (file/open "/dev/null" :w))
  @[(int/s64 "$big") (int/u64 "$ubig") (math/rng $seed) f])
(def box (mk))
(churn $k)
(def [a u g f] box)
(emit "boxed" (+ a 1) (* u 3) (math/rng-int g 1000) (math/rng-int g 1000) (- a u))
(churn 1)
(emit "boxed2" (int/to-number (% a 1000)) (math/rng-buffer g 8) (compare a (int/s64 5)))
(file/write f (mkstr $seed))
(file/flush f)
(file/close f)
(def tf (try (file/temp) ([e] nil)))
(when tf
  (file/write tf (mkstr $seed))
  (churn 1)
  (file/seek tf :set 0)
  (emit "tmpfile" (file/read tf :all))
  (file/close tf))
""", big=r.randint(10 ** 10, 10 ** 17), ubig=r.randint(10 ** 10, 10 ** 18), seed=r.randint(0, 9999), k=r.randint(1, 8))]


def sc_spawn(r):
    n = r.choice([1, 100, 100, 3000])
    return [T(r"""
(defn mk [] (os/spawn ["sim-child" "w$n" "x$code"] :p {:out :pipe}))
(def p (mk))
(churn $k)
(def out (p :out))
(def got (read-eof out))
(churn 1)
(def code (os/proc-wait p))
(emit "spawn" (length got) (sim/hash got) code (p :return-code))
(ev/close out)
(churn 1)
""", n=n, code=r.choice([0, 0, 3]), k=r.randint(1, 8))]


def sc_marshal(r):
    nloc = r.randint(14, 30)
    locs = "\n".join("    (def l%d (mkstr %d))" % (i, i) for i in range(nloc))
    uses = " ".join("l%d" % i for i in range(0, nloc, 5))
    return [T(r"""
(defn mk-counter [start] (var n start) (fn [x] (+= n x) [n (string/repeat "m" (% n 17)) (mkval n)]))
(def f (mk-counter $a))
(f 1)
(def bytes (marshal f make-image-dict))
(churn $k)
(def g (unmarshal bytes load-image-dict))
(churn 1)
(emit "marsh-fn" (g 2) (g 3) (f 1))
(defn mk-fiber []
  (fiber/new (fn []
$locs
    (var i 0)
    (def peek (fn [] [i $uses]))
    (yield peek)
    (forever (yield [(++ i) (mkval i) (peek)]))) :yi))
(def fb (mk-fiber))
(def pk (resume fb))
(resume fb)
(defn roundtrip [x] (unmarshal (marshal x make-image-dict) load-image-dict))
(def [fb2 pk2] (roundtrip [fb pk]))
(churn $k)
(emit "marsh-peek" (pk2))
(emit "marsh-fiber" (resume fb2) (resume fb) (pk2) (pk))
(defn only-closure [] ((roundtrip [fb pk]) 1))
(def pk3 (only-closure))
(churn $k)
(emit "marsh-closure-only" (pk3))
(def data (mkval $a))
(array/push data data)
(def back (roundtrip data))
(churn 1)
(emit "marsh-cyclic" back)
""", a=r.randint(0, 99), locs=locs, uses=uses, k=r.randint(1, 6))]


def sc_varargs(r):
    n = r.randint(1, 3)
    return [T(r"""
(defn va [a & more] (churn 1) [a (length more) more])
(defn kw [a &keys {:x x :y y}] (churn 1) [a x y])
(defn nm [a &named p q] (churn 1) [a p q])
(defn op [a &opt b c] (churn 1) [a b c])
(for i 0 $n
  (emit "va" (va (mkstr i) (mkval i) (mkstr (+ i 1)) ;(map mkstr (range i))))
  (emit "kw" (kw (mkstr i) :x (mkval i) :y (mkstr i)))
  (emit "nm" (nm (mkstr i) :q (mkval i)))
  (emit "op" (op (mkval i)) (op (mkstr i) (mkval i)))
  (emit "apply" (apply va (mkstr i) (map mkval (range (% i 4))))))
""", n=n)]


def sc_tailcall(r):
    nloc = r.randint(4, 40)
    locs = "\n".join("  (def a%d (mkstr (+ n %d)))" % (i, i) for i in range(nloc))
    pick = r.randrange(nloc)
    return [T(r"""
(var small nil)
(defn big [n acc]
$locs
  (if (> n 0)
    (small (- n 1) (array/push acc a$pick))
    acc))
(set small (fn small [n acc] (churn 1) (big n (array/push acc (mkval n)))))
(emit "tail" (big $n @[]))
(defn count-down [n acc] (if (= n 0) acc (count-down (- n 1) (string acc (% n 10)))))
(emit "tail2" (count-down $m ""))
""", locs=locs, pick=pick, n=r.randint(1, 6), m=r.randint(1, 40))]


def sc_deep_chain(r):
    depth = r.choice([1500, 3000, 5000, 5000])
    kind = r.choice(["array", "tuple", "table", "struct", "mixed", "closure"])
    wrap = {"array": "@[i head]", "tuple": "[i head]", "table": "@{:i i :next head}", "struct": "{:i i :next head}",
            "mixed": "(case (% i 4) 0 @[i head] 1 [i head] 2 @{:i i :next head} {:i i :next head})",
            "closure": "(do (def prev head) (fn [] prev))"}[kind]
    step = {"array": "(in cur 1)", "tuple": "(in cur 1)", "table": "(in cur :next)", "struct": "(in cur :next)",
            "mixed": "(if (indexed? cur) (in cur 1) (in cur :next))", "closure": "(cur)"}[kind]
    # the chain is built with the schedule suspended (set-up), then the schedule is active while
    # only the head is held; it is walked iteratively (no recursion in the printer)
    return [T(r"""
(sim/gc :off)
(defn build []
  (var head @[:leaf (mkval $a)])
  (for i 0 $depth (set head $wrap))
  head)
(def head (build))
(sim/gc :on)
(churn $k)
(var cur head)
(var steps 0)
(sim/gc :off)
(while (not (and (array? cur) (= :leaf (get cur 0))))
  (set cur $step)
  (++ steps))
(sim/gc :on)
(churn 1)
(emit "deep" steps cur)
""", a=r.randint(0, 99), depth=depth, wrap=wrap, step=step, k=r.randint(1, 4)), "deep:%d" % depth]


def sc_symbol_recycle(r):
    n = r.randint(3, 16)
    pre = r.choice(["k", "sym", "recycle-", "a"])
    return [T(r"""
(defn make-all [] (for i 0 $n (keyword "$pre" i) (symbol "$pre" i)) nil)
(defn as-keys [] (def t @{}) (for i 0 $n (put t (keyword "$pre" i) i) (put t (symbol "$pre" i) (- i))) (length t))
(make-all)
(churn $k)
(emit "sym-count" (as-keys))
(churn $k)
(make-all)
(def t @{})
(for i 0 $n (put t (keyword "$pre" i) (mkstr i)))
(churn 1)
(def hits (seq [i :range [0 $n]] (get t (keyword (string "$pre" i)))))
(emit "sym-lookup" hits)
(emit "sym-eq" (= (keyword "$pre" 1) (keyword (string "$pre" "1")))
               (= (symbol "$pre" 2) (symbol (string "$pre" 2)))
               (= (keyword "$pre" 1) (keyword "$pre" 2))
               (get {(keyword "$pre" 0) :found} (keyword "$pre" 0)))
(def g1 (gensym))
(churn 1)
(def g2 (gensym))
(emit "gensym" (= g1 g2) (length (string g1)))
(emit "sym-struct" (struct ;(mapcat (fn [i] [(keyword "$pre" i) i]) (range (min $n 6)))))
""", n=n, pre=pre, k=r.randint(1, 8)), "symrecycle"]


def sc_generators(r):
    n = r.randint(1, 8)
    return [T(r"""
(def g (generate [i :range [0 $n]] (mkval i)))
(each v g (emit "gen" v) (churn 1))
(def c (coro (for i 0 $n (yield (mkstr i))) (mkval $n)))
(def acc @[])
(while (not= :dead (fiber/status c)) (array/push acc (resume c)))
(emit "coro" acc (fiber/last-value c))
(defn nest [d]
  (if (= d 0)
    (do (churn 1) (yield (mkval d)) (churn 1) :bottom)
    (let [f (fiber/new (fn [] (nest (- d 1))) :yi)]
      (def a (resume f))
      (yield a)
      (def b (resume f))
      [d b])))
(def top (fiber/new (fn [] (nest $d)) :yi))
(emit "nest1" (resume top))
(churn 1)
(emit "nest2" (resume top) (fiber/status top))
""", n=n, d=r.randint(1, 5))]


def sc_errors(r):
    return [T(r"""
(defn thrower [i] (churn 1) (error (mkval i)))
(for i 0 $n
  (emit "caught" (try (thrower i) ([e f] (churn 1) [e (fiber/status f) (fiber/last-value f)]))))
(def f (fiber/new (fn [] (yield 1) (yield 2)) :yie))
(resume f)
(emit "cancel" (try (cancel f (mkval $a)) ([e] [:err e])) (fiber/status f) (fiber/last-value f))
(defn prop []
  (def inner (fiber/new (fn [] (error (mkstr $a))) :e))
  (resume inner)
  (propagate (fiber/last-value inner) inner))
(emit "propagate" (try (prop) ([e] e)))
(emit "protect" (protect (thrower 7)) (protect (mkval 8)))
(emit "defer" (do (var log @[]) (try (defer (array/push log (mkstr 1)) (thrower 2)) ([e] (array/push log e))) log))
""", n=r.randint(1, 4), a=r.randint(0, 99))]


def sc_sort_callbacks(r):
    n = r.randint(2, 9)
    vals = " ".join(str(r.randint(0, 50)) for _ in range(n))
    return [T(r"""
(def xs @[$vals])
(emit "sort-by" (sort-by (fn [x] (mkstr (% x 7))) (array/slice xs)))
(emit "sorted" (sorted (map mkval xs) (fn [a b] (< (a 0) (b 0)))))
(emit "group" (group-by (fn [x] (keyword "g" (% x 3))) xs))
(emit "partition" (partition 3 (map mkstr xs)))
(emit "reduce" (reduce (fn [acc x] (array/push acc (string (last acc) x))) @[""] (take 6 xs)))
(emit "freq" (frequencies (map (fn [x] (mkstr (% x 4))) xs)))
""", vals=vals)]


def sc_table_churn(r):
    n = r.randint(3, 20)
    return [T(r"""
(def t @{})
(for i 0 $n
  (put t (mkstr i) (mkval i))
  (put t i (mkstr i))
  (put t [i (mkstr i)] i)
  (if (= 0 (% i 3)) (put t (mkstr (- i 1)) nil)))
(churn 1)
(emit "tbl" (length t) (get t (mkstr 4)) (get t [2 (mkstr 2)]))
(def t2 (table/clone t))
(loop [k :keys t :when (number? k)] (put t2 k nil))
(churn 1)
(emit "tbl2" (length t2) (table/to-struct (table/clear t)) (length t))
(def s (struct ;(mapcat (fn [i] [(mkstr i) (mkval i)]) (range (min $n 8)))))
(churn 1)
(emit "struct" s (get s (mkstr 1)))
""", n=n)]


def sc_buffers_strings(r):
    n = r.randint(1, 30)
    return [T(r"""
(def b @"")
(for i 0 $n
  (buffer/push-string b (mkstr i))
  (buffer/push-byte b 44)
  (buffer/format b "%d:%s|" i (string/repeat "f" (% i 5))))
(churn 1)
(def parts (string/split "," (string b)))
(emit "buf" (length b) (length parts) (sim/hash b))
(emit "str" (string/join (map string/reverse (take 5 parts)) "+")
           (string/replace-all "z" (fn [m] (churn 1) (string/ascii-upper m)) (string b 0 60))
           (string/format "%s/%d/%.3f/%j" (mkstr 1) 42 1.5 [1 "two" :three])
           (string/find "str-3" b)
           (string/trim (string "  " (mkstr 2) "  ")))
(def b2 (buffer/blit (buffer/new-filled 10 65) b 3 0 20))
(churn 1)
(emit "blit" b2 (buffer/slice b 0 (min 12 (length b))))
""", n=n)]



def sc_read_timeout(r):
    n = r.randint(1, 500)
    return [T(r"""
(def [rs ws] (os/pipe))
(def done (ev/chan 4))
(defn launch []
  (ev/go (fn []
    (def res (try (ev/read rs $n (buffer/new $c) 0.004) ([e] [:err e])))
    (emit "read-timeout" res)
    (ev/give done 1)))
  nil)
(launch)
(ev/sleep 0)
(churn $k)
(ev/take done)
(churn 1)
(ev/write ws (sim/fill 5 0 $n))
(def got (read-all rs $n))
(emit "read-after-timeout" (length got) (sim/hash got))
(ev/close ws)
(ev/close rs)
""", n=n, c=r.randint(0, 64), k=r.randint(1, 8))]


def sc_cancel_pending_read(r):
    n = r.randint(1, 500)
    return [T(r"""
(def [rs ws] (os/pipe))
(def done (ev/chan 4))
(defn launch []
  (ev/go (fn []
    (def res (try (ev/read rs $n) ([e] [:cancelled e])))
    (emit "read-cancelled" res)
    (ev/give done 1))))
(defn do-cancel [f] (ev/cancel f (mkval $a)) nil)
(def f (launch))
(ev/sleep 0)
(churn $k)
(do-cancel f)
(churn 1)
(ev/take done)
(ev/write ws (sim/fill 6 0 $n))
(churn 1)
(def got (read-all rs $n))
(emit "read-after-cancel" (length got) (sim/hash got))
(ev/close ws)
(ev/close rs)
""", n=n, a=r.randint(0, 99), k=r.randint(1, 8))]


def sc_proc_wait_child(r):
    return [T(r"""
(def done (ev/chan 4))
(defn launch []
  (ev/go (fn []
    (def p (os/spawn ["sim-child" "s$ms" "w$n" "x$code"] :p {:out :pipe}))
    (def out (p :out))
    (def got (read-eof out))
    (def code (os/proc-wait p))
    (ev/close out)
    (emit "proc" (length got) (sim/hash got) code)
    (ev/give done 1)))
  nil)
(launch)
(ev/sleep 0)
(churn $k)
(ev/sleep 0.001)
(churn $k)
(ev/take done)
""", ms=r.choice([0, 1, 5]), n=r.choice([10, 100, 5000]), code=r.choice([0, 0, 7]), k=r.randint(1, 6))]


def sc_deep_recursion(r):
    # fresh fibers start with a small stack: recursion grows it through every path (frame
    # push, argument pushes of 1/2/3 values, push-array), with frames of seeded size
    nloc = r.randint(0, 12)
    locs = " ".join("(def p%d (+ a %d))" % (i, i) for i in range(nloc))
    use = " ".join("p%d" % i for i in range(0, nloc, 3))
    return [T(r"""
(defn rec1 [a] $locs (if (= a 0) [$use] (array/push (array/slice (rec1 (- a 1))) a $use)))
(defn rec2 [a b] $locs (if (= a 0) [b $use] (let [x (rec2 (- a 1) (mkstr a))] [a (length x) $use])))
(defn rec3 [a b c] $locs (if (= a 0) [b c $use] (let [x (rec3 (- a 1) c (mkstr a))] [a (first x) $use])))
(defn recn [a & more] $locs (if (= a 0) more (recn (- a 1) ;more a)))
(defn in-fiber [f & args] (resume (fiber/new (fn [] (f ;args)) :e)))
(emit "rec1" (length (in-fiber rec1 $d1)))
(emit "rec2" (in-fiber rec2 $d2 "b"))
(emit "rec3" (in-fiber rec3 $d3 "b" "c"))
(emit "recn" (length (in-fiber recn $d4 :x)))
""", locs=locs, use=use, d1=r.randint(1, 16), d2=r.randint(1, 16), d3=r.randint(1, 16), d4=r.randint(1, 30))]


def sc_stack_overflow(r):
    return [T(r"""
(defn mk []
  (def caps @[])
  (defn inf [n] (def mine (mkstr n)) (if (< (length caps) 3) (array/push caps (fn [] [n mine]))) (+ 1 (inf (+ n 1))))
  (def f (fiber/new (fn [] (inf 0)) :e))
  (fiber/setmaxstack f $max)
  (def res (resume f))
  [caps res (fiber/status f)])
(sim/gc :off)
(def [caps res st] (mk))
(sim/gc :on)
(churn $k)
(emit "overflow" res st (map (fn [c] (c)) caps))
""", max=r.choice([200, 500, 1000]), k=r.randint(1, 6))]


def sc_chan_close_pending(r):
    n = r.randint(1, 3)
    return [T(r"""
(def ch (ev/chan $cap))
(def done (ev/chan 16))
(defn launch-taker [i]
  (ev/go (fn [] (def mine (mkval i)) (def got (ev/take ch)) (emit "closed-take" (mine 0) got) (ev/give done i)))
  nil)
(defn launch-giver [i]
  (ev/go (fn [] (def ok (ev/give ch (mkval i))) (emit "closed-give" i (truthy? ok)) (ev/give done (+ 100 i))))
  nil)
(for i 0 $n ($which i))
(ev/sleep 0)
(churn $k)
(ev/chan-close ch)
(churn 1)
(emit "closed-done" (sort (take-n done $n)))
""", cap=r.choice([0, 0, 1]), n=n, which=r.choice(["launch-taker", "launch-giver"]), k=r.randint(1, 6))]


def sc_all_tasks(r):
    # NOTE: only touches the returned fibers; emits nothing about their number (whether a
    # fiber that nobody can wake any more is still listed is left open)
    return [T(r"""
(defn launch [] (def ch (ev/chan)) (ev/go (fn [] (ev/take ch))) nil)
(launch)
(ev/sleep 0)
(churn $k)
(each f (ev/all-tasks) (fiber/status f))
(emit "all-tasks" :touched)
""", k=r.randint(2, 6))]


def sc_locks_abstract(r):
    return [T(r"""
(defn mk [] @{:lock (ev/lock) :rw (ev/rwlock) :chan (ev/chan 2) :inner @[(ev/chan 1)]})
(def box (mk))
(churn $k)
(ev/acquire-lock (box :lock))
(ev/give (box :chan) (mkval $a))
(ev/give ((box :inner) 0) (box :chan))
(churn 1)
(ev/release-lock (box :lock))
(ev/acquire-rlock (box :rw))
(ev/release-rlock (box :rw))
(def c (ev/take ((box :inner) 0)))
(emit "abstract" (ev/take c) (ev/count c) (ev/capacity c))
""", a=r.randint(0, 99), k=r.randint(1, 6))]


def sc_gather(r):
    n = r.randint(1, 5)
    return [T(r"""
(def res (ev/gather
  (do (ev/sleep 0.002) (mkval 1))
  (do (churn 1) (mkstr 2))
  (do (ev/sleep 0.001) (churn 1) (mkval 3))))
(churn 1)
(emit "gather" res)
(def ch (ev/chan))
(for i 0 $n (ev/spawn (ev/sleep (* 0.001 (% (* i 7) 5))) (ev/give ch (mkval i))))
(churn 1)
(emit "spawned" (sort-by first (take-n ch $n)))
""", n=n)]


def sc_dup_stream_collected(r):
    """a stream whose descriptor was duplicated (ev/to-file) is closed and/or dropped; the duplicate keeps
    the open file - and with it an epoll registration naming the stream - alive.  Activity on the file after
    the stream has been collected must not reach the freed stream (found as a crash in a C18 soak run;
    repaired in /repo by 020da70)."""
    variant = r.choice(["drop", "drop", "close-then-drop", "close-write-end"])
    closes = {"drop": "", "close-then-drop": "(ev/close rs) (ev/close ws)", "close-write-end": "(ev/close ws)"}[variant]
    return [T(r"""
(var keep nil)
(defn mk []
  (def [rs ws] (os/pipe))
  (set keep [(ev/to-file rs) (ev/to-file ws)])
  $closes
  nil)
(mk)
(churn $k)
(file/write (keep 1) "$payload") (file/flush (keep 1))
(ev/sleep 0.001)
(churn $k2)
(emit "dup" (file/read (keep 0) $n))
(file/close (keep 1))
(ev/sleep 0.001)
(file/close (keep 0))
(ev/sleep 0)
""", closes=closes, k=r.randint(1, 8), k2=r.randint(0, 4), payload="x" * r.randint(1, 40), n=1)]


def sc_operator_methods(r):
    """arithmetic / bitwise operators dispatched to methods that are Janet functions: the method runs on the
    caller's fiber and can move its stack while the opcode still holds a pointer into it (finding 34,
    repaired in /repo by b57e125)."""
    ops = r.sample(["+", "-", "*", "/", "%", "mod", "div", "band", "bor", "bxor", "blshift", "brshift"], r.randint(2, 5))
    depth = r.choice([10, 60, 300, 1500])
    methods = " ".join(":%s (fn [a b] (deep $depth) (churn 1) (mk (string \"%s\" (if (table? b) :t b))))" % (o if o not in ("band", "bor", "bxor", "blshift", "brshift") else {"band": "&", "bor": "|", "bxor": "^", "blshift": "<<", "brshift": ">>"}[o], o) for o in ops)
    rmethods = " ".join(":r%s (fn [a b] (deep $depth) (mk (string \"r%s\")))" % (o, o) for o in ops if o in ("+", "-", "*", "/", "%", "mod", "div"))
    uses = "\n".join("(emit \"op\" (get (%s obj %s) :tag))" % (o, r.choice([str(r.randint(1, 9)), "nv", "obj"])) for o in ops)
    ruses = "\n".join("(emit \"rop\" (get (%s %d obj) :tag))" % (o, r.randint(1, 9)) for o in ops if o in ("+", "-", "*", "/", "%", "mod", "div"))
    return [T(r"""
(defn deep [n] (if (= n 0) 0 (+ 1 (deep (- n 1)))))
(var proto nil)
(defn mk [tag] (table/setproto @{:tag tag :v (mkval (length tag))} proto))
(set proto @{$methods $rmethods :~ (fn [a] (deep $depth) (mk "bnot"))})
(defn run [obj]
  (def l0 (mkstr 1)) (def l1 (mkval 2)) (def nv (length l0))
$uses
$ruses
  (emit "unary" (get (bnot obj) :tag))
  (emit "locals" l0 l1))
(def f (fiber/new (fn [] (run (mk "start"))) :e))
(emit "res" (resume f) (fiber/status f))
""".replace("$methods", methods).replace("$rmethods", rmethods).replace("$uses", uses).replace("$ruses", ruses), depth=depth)]


def sc_tailcall_optargs(r):
    """tail call into a variadic function with many optional parameters from a frame with many locals, on a
    fiber whose stack is nearly full: padding the missing parameters grows the stack inside
    janet_fiber_funcframe_tail (finding 35, repaired in /repo by ee98316)."""
    nopt = r.choice([20, 60, 120, 200])
    lo = r.randint(1, 150)
    return [T(r"""
(def params (seq [i :range [0 $nopt]] (symbol "p" i)))
(def B (eval ~(fn B [&opt ,;params & rest] [(length rest) p0 (get rest 0)])))
(def Bk (eval ~(fn Bk [&opt ,;params &keys ks] [(length ks) p0])))
(defn mkA [k callee nargs]
  (def locals (seq [i :range [0 k]] ~(def ,(symbol "l" i) ,i)))
  (eval ~(fn A [] ,;locals (,callee ,;(range nargs)))))
(def out @[])
(for k $lo (+ $lo $span)
  (def A (mkA k (if (even? k) B Bk) (% k 3)))
  (def f (fiber/new (fn [] (churn 1) (A)) :e))
  (array/push out (resume f)))
(emit "tailopt" (length out) (sim/hash (string/format "%j" out)))
""", nopt=nopt, lo=lo, span=r.randint(8, 40))]


def sc_c_reentry_callbacks(r):
    """C code that re-enters the interpreter (PEG cmt / replace callbacks, string/replace-all with a function,
    sort comparators, macro expansion) keeps values in C locals only and relies on collection staying locked
    until it is done; a callback that runs an inner fiber to completion (try, protect, a generator) and then
    allocates must not unlock it (seeded change C01-4: janet_restore reset the lock count)."""
    inner = r.choice(["(try (error :inner) ([e] nil))", "(protect (error 1))", "(each x (generate [i :range [0 3]] i) x)",
                      "(resume (fiber/new (fn [] (yield 1)) :y))", "(try (do (churn 1) 7) ([e] nil))"])
    which = r.sample(["peg", "replace", "sort", "macro", "pegreplace"], r.randint(2, 4))
    parts = []
    if "peg" in which:
        parts.append(r"""
(defn on-match [a b c] (inner-then-churn) (string a "-" b "-" c))
(def grammar (peg/compile ~{:word (capture (some (range "az")))
   :main (* (constant :head) :word " " (cmt (* :word " " :word " " :word) ,on-match) " " :word (constant :tail))}))
(emit "peg" (peg/match grammar "alpha beta gamma delta omega"))""")
    if "pegreplace" in which:
        parts.append(r"""
(emit "pegrep" (peg/replace-all ~(capture (some (range "09"))) (fn [whole cap] (inner-then-churn) (string "<" cap ">")) "a12b345c6"))""")
    if "replace" in which:
        parts.append(r"""
(emit "replace" (string/replace-all "ab" (fn [s] (inner-then-churn) (string/ascii-upper s)) "xxabyyabzzab"))""")
    if "sort" in which:
        parts.append(r"""
(emit "sort" (sort (seq [i :range [0 $n]] (mkstr (% (* i 7) 11))) (fn [a b] (inner-then-churn) (< a b))))""")
    if "macro" in which:
        parts.append(r"""
(eval ~(defmacro build-sum-$u [& xs] (def acc @[]) (each x xs (,inner-then-churn) (array/push acc (tuple '* 2 x))) (tuple '+ ;acc)))
(emit "macro" (eval '(build-sum-$u 1 2 3 4 5)))""")
    return [T(r"""
(defn inner-then-churn [] $inner (churn $k) nil)
""" + "".join(parts), inner=inner, k=r.randint(1, 6), n=r.randint(3, 9), u=r.randrange(1 << 30))]


def sc_callbacks_mutate_subject(r):
    """a buffer given as the text of peg/match, peg/replace-all, string/replace(-all) is grown by the
    callback the C code calls back into: the C side must not go on reading the storage the buffer
    had before (findings 75, 76: use after free; the results are those of the text as it was at the call)"""
    which = r.sample(["peg", "pegrep", "replace", "replace1"], r.randint(2, 4))
    grow = r.choice([100, 5000, 100000])
    pad = r.randint(8, 80)
    parts = []
    if "peg" in which:
        parts.append(r"""
(def b1 (buffer "ab" (string/repeat "." $pad)))
(def g1 (peg/compile ~(* (cmt (<- 1) ,(fn [x] (grow b1) x)) (<- 5))))
(emit "peg" (peg/match g1 b1))""")
    if "pegrep" in which:
        parts.append(r"""
(def b2 (buffer "a12b345c6" (string/repeat "-" $pad)))
(emit "pegrep" (string/slice (peg/replace-all ~(capture (some (range "09"))) (fn [whole cap] (grow b2) (string "<" cap ">")) b2) 0 24))""")
    if "replace" in which:
        parts.append(r"""
(def b3 (buffer "aXbXcXd" (string/repeat "." $pad)))
(emit "replace" (string/slice (string/replace-all "X" (fn [m] (grow b3) "y") b3) 0 12))""")
    if "replace1" in which:
        parts.append(r"""
(def b4 (buffer "qqXrr" (string/repeat "." $pad)))
(emit "replace1" (string/slice (string/replace "X" (fn [m] (grow b4) (churn 1) "yy") b4) 0 10))""")
    return [T(r"""
(def keep-bufs @[])
(defn grow [b] (buffer/push b (string/repeat "z" $grow)) (for i 0 $nk (array/push keep-bufs (buffer/new-filled $pad 0x41))) (churn $k) nil)
""" + "".join(parts), grow=grow, pad=pad, nk=r.randint(5, 60), k=r.randint(1, 4))]


def sc_peg_extra_args_stack_growth(r):
    """the extra arguments of peg/match & friends are read by (argument n) after the grammar has called back into
    Janet; the callback runs on the caller's fiber and makes its stack grow (move): what (argument n) reads must
    not live in the old stack (seeded change C01-14)"""
    d = r.choice([40, 150, 400])
    return [T(r"""
(defn deep [n] (if (zero? n) 0 (+ 1 (deep (dec n)))))
(def g-extra (peg/compile ~(* (cmt (<- 1) ,(fn [x] (deep $d) (churn $k) x)) (argument 0) (argument 1) (cmt (<- 1) ,(fn [x] (deep (* 2 $d)) x)) (argument 1))))
(emit "match-extra" (resume (fiber/new (fn [] (peg/match g-extra "abc" 0 (mkstr 1) (keyword (mkstr 2)))))))
(emit "replace-extra" (resume (fiber/new (fn [] (peg/replace-all ~(* (<- (range "09")) (argument 0)) (fn [& caps] (deep $d) (churn 1) (string ;caps)) "a1b2c3" 0 (mkstr 3))))))
(emit "find-extra" (resume (fiber/new (fn [] (peg/find-all ~(* (cmt (<- (range "09")) ,(fn [x] (deep $d) x)) (argument 0)) "a1b2" 0 (mkstr 4))))))
""", d=d, k=r.randint(1, 4))]


def sc_symbol_collisions(r):
    """thousands of interned symbols / keywords, live ones interleaved with ones that die: the cache's probe chains
    run over tombstones left by the sweep and entries moved forward over them; every live name must still
    intern to the one object (seeded change C01-7 cut a chain when an entry was moved).  The bulk is created and
    looked up with the schedule suspended (a collection per safepoint over thousands of live symbols is slow, and
    dense tombstones need the symbols to die together); the schedule decides whether the sweep in between happens."""
    n = r.choice([1000, 2000, 3000])
    pre = r.choice(["c", "col", "zz-"])
    return [T(r"""
(def live @{})
(defn round [base]
  (for i 0 $n
    (def nm (string "$pre" base "-" i))
    (if (= 0 (% i 3)) (put live (symbol nm) i) (do (symbol nm) (keyword nm))))   # two of three die
  nil)
(sim/gc :off)
(round 0)
(sim/gc :on)
(churn $k)
(sim/gc :off)
(round 1)
(sim/gc :on)
(churn $k)
(sim/gc :off)
# look every live name up again, through freshly built strings, in two orders
(var missing 0) (var wrong 0)
(each base [0 1]
  (for i 0 $n
    (when (= 0 (% i 3))
      (def v (get live (symbol (string "$pre" base "-" i))))
      (cond (nil? v) (++ missing) (not= v i) (++ wrong)))))
(for j 0 $n
  (def i (- $n 1 j))
  (when (= 0 (% i 3))
    (unless (= i (get live (symbol (string "$pre" 1 "-" i)))) (++ missing))))
(sim/gc :on)
(emit "sym-collisions" (length live) missing wrong)
(churn 1)
(emit "sym-collisions-2" (length live) (get live (symbol (string "$pre" 1 "-" 0))) (get live (symbol (string "$pre" 0 "-" 3))))
""", n=n, pre=pre, k=r.randint(1, 4)), "symcollide"]


def sc_duplex_stream_two_fibers(r):
    """one fiber parked reading a socket while another fiber completes a write on the same stream: the stream is
    rooted once per pending operation and stays alive for the reader when the writer's operation ends, also when
    nothing else refers to it (seeded change C01-9 rooted it only for the first operation)"""
    n = r.randint(1, 2000)
    return [T(r"""
(def name (string "@jsim-c01-" (os/getpid) "-" $u))
(def srv (net/listen :unix name))
(def done (ev/chan 2))
(defn launch []
  (def c (net/connect :unix name))
  (def a (net/accept srv))
  # reader and writer share the accepted stream; neither fiber is referenced from here
  (ev/go (fn [] (def got (ev/read a $m)) (emit "duplex-read" (if got (length got) :eof) (if got (sim/hash got))) (ev/give done 1)))
  (ev/go (fn [] (ev/write a (sim/fill $w 0 $n)) (ev/give done 2)))
  c)
(def c (launch))
(ev/sleep 0)
(churn $k)
(emit "duplex-first" (ev/take done))
(churn $k)
(def b (ev/chunk c $n))
(emit "duplex-peer-got" (length b) (sim/hash b))
(churn $k)
(ev/write c (sim/fill $w2 0 $m))
(churn 1)
(emit "duplex-second" (ev/take done))
(ev/close c)
(ev/close srv)
""", n=n, m=r.randint(1, 500), w=r.randint(1, 9), w2=r.randint(10, 19), k=r.randint(1, 6), u=r.randrange(1 << 30))]


SCENARIOS = {
    "peg_extra_args_stack_growth": sc_peg_extra_args_stack_growth,
    "callbacks_mutate_subject": sc_callbacks_mutate_subject,
    "symbol_collisions": sc_symbol_collisions,
    "duplex_stream_two_fibers": sc_duplex_stream_two_fibers,
    "c_reentry_callbacks": sc_c_reentry_callbacks,
    "operator_methods": sc_operator_methods,
    "tailcall_optargs": sc_tailcall_optargs,
    "dup_stream_collected": sc_dup_stream_collected,
    "env_dead_fiber": sc_env_dead_fiber,
    "env_suspended_fiber": sc_env_suspended_fiber,
    "env_loop_closures": sc_env_loop_closures,
    "chan_items": sc_chan_items,
    "chan_blocked_giver": sc_chan_blocked_giver,
    "runq_value": sc_runq_value,
    "select_value": sc_select_value,
    "timer_only_fiber": sc_timer_only_fiber,
    "deadline": sc_deadline,
    "chan_pending_fiber": sc_chan_pending_fiber,
    "cancel_sleeping": sc_cancel_sleeping,
    "stream_pending_read": sc_stream_pending_read,
    "stream_pending_write": sc_stream_pending_write,
    "supervisor": sc_supervisor,
    "fiber_last_value": sc_fiber_last_value,
    "fiber_env_dyn": sc_fiber_env_dyn,
    "proto": sc_proto,
    "compile_eval": sc_compile_eval,
    "parser_state": sc_parser_state,
    "peg": sc_peg,
    "boxed": sc_boxed,
    "spawn": sc_spawn,
    "marshal": sc_marshal,
    "varargs": sc_varargs,
    "tailcall": sc_tailcall,
    "deep_chain": sc_deep_chain,
    "symbol_recycle": sc_symbol_recycle,
    "generators": sc_generators,
    "errors": sc_errors,
    "sort_callbacks": sc_sort_callbacks,
    "table_churn": sc_table_churn,
    "buffers_strings": sc_buffers_strings,
    "locks_abstract": sc_locks_abstract,
    "gather": sc_gather,
    "read_timeout": sc_read_timeout,
    "cancel_pending_read": sc_cancel_pending_read,
    "proc_wait_child": sc_proc_wait_child,
    "deep_recursion": sc_deep_recursion,
    "stack_overflow": sc_stack_overflow,
    "chan_close_pending": sc_chan_close_pending,
    # found a genuine defect (ev/all-tasks handed out freed fibers), repaired in /repo by 8ccda6c
    "all_tasks": sc_all_tasks,
}

# scenarios that reproduce an unrepaired defect of the unchanged tree would go here (generated only
# when asked for with C01_EXTRA=<name>); none at present
OPTIONAL = {
}


def make(name, r):
    """-> {"name", "body": [forms], "tags": [..]}"""
    fn = SCENARIOS.get(name) or OPTIONAL[name]
    out = fn(r)
    tags = [x for x in out if not x.lstrip().startswith("(")]
    body = [x for x in out if x.lstrip().startswith("(")]
    return {"name": name, "kind": "scenario", "body": body, "tags": tags}
