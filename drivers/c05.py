"""C05 - fibers follow the coroutine and signal protocol.

A plan is a tree of fiber bodies over a tiny instruction set (emit, yield, debug, signal n, error,
resume / cancel / propagate / consume / status of a child, new child, defer / edefer / with / try /
protect / prompt / with-dyns / C-callback blocks, setdyn / dyn, return-to-prompt, and - on the event
loop - sleep and deadline) with a signal mask and an environment flag per fiber.  Fiber -1 is the
root task: it resumes / cancels / consumes fiber 0 a few times and then abandons it.  30% of the plans
run with sleeps inside the tree while sibling tasks `ev/cancel` the root task and `ev/deadline`s expire
at simulated times, so that cancellation lands on suspension points at every depth.

Oracle: c05_model.py interprets the same plan; the real run must emit the same event sequence
(values received by yield/resume, statuses, last values, cleanup forms, dynamic bindings).  Every
instruction has a number n (pre-order over the plan) and reports `(sim/ev :kind fiber n ...)`.

Three defects of the unchanged tree have their own, attributed signatures (the check is not loosened;
they are reported until they are recorded in known_findings.json or fixed):
  C05/status/fiber-continuing-its-child-is-not-alive/re-entered-by-its-own-descendant
      janet_continue_no_check marks a fiber :alive only after it has continued fiber->child, so a fiber
      resumed while linked to a suspended child (also the hidden fibers of defer/try/...) still reads
      :pending and can be resumed / cancelled / propagated by its own descendant: re-entry, crashes.
  C05/cleanup/skipped/suspending-signal-coerced-to-error-at-c-boundary
      defer/edefer/with inside a callback invoked from C: a yield/await/user5-9 in the body becomes an
      error at the C frame and the cleanup form never runs.
  C05/propagate/from-dead-fiber-inside-c-callback-corrupts-the-fiber-stack
      (propagate x dead-fiber) "returns" from run_vm without popping the frame; inside janet_call the
      caller goes on with a corrupt stack.  (Outside C callbacks the effect of propagating from a dead
      fiber is unspecified: whatever follows it in a run is accepted.)"""
import json
import random

from common import Driver, Violation, make_request
import c05_model as M

BLOCKS = M.BLOCKS
CHILD_OPS = ("resume", "cancel", "propagate", "consume", "status")


def clone(x):
    return json.loads(json.dumps(x))


# ------------------------------------------------------------------ canonical text tokenizer
def tokens(text):
    """split the payload of an event into its top-level canonical values"""
    out = []
    i, n = 0, len(text)
    while i < n:
        if text[i] == " ":
            i += 1
            continue
        j = i
        depth = 0
        while j < n:
            ch = text[j]
            if ch == '"':
                j += 1
                while j < n and text[j] != '"':
                    j += 2 if text[j] == "\\" else 1
                j += 1
                continue
            if ch in "([{":
                depth += 1
            elif ch in ")]}":
                depth -= 1
            elif ch == " " and depth == 0:
                break
            j += 1
        out.append(text[i:j])
        i = j
    return out


class Gen:
    """plan generator (all randomness from one Random)"""

    def __init__(self, r, mode):
        self.r = r
        self.mode = mode
        self.ev = mode == "ev"
        self.fibers = {}
        self.next_id = 0
        self.max_fibers = r.choice([1, 2, 3, 4, 5, 6, 6, 6])
        self.max_depth = r.choice([2, 3, 3, 4, 4])
        self.max_ins = r.choice([4, 6, 8])
        self.max_blk = r.choice([0, 1, 2, 2, 3])
        self.deadline_res = [2, 3, 4, 6, 7, 8]
        r.shuffle(self.deadline_res)
        w = {
            "emit": 2, "yield": 7, "debug": 1, "signal": 4, "error": 1.0, "return_to": 0.5,
            "new": 9, "child": 10, "block": 6, "setdyn": 1.5, "dyn": 2,
            "sleep": 4 if self.ev else 0, "deadline": 1.5 if self.ev else 0,
        }
        # swarm: switch some features off / boost others per plan
        for k in list(w):
            u = r.random()
            if u < 0.15 and k not in ("new", "child"):
                w[k] = 0
            elif u < 0.3:
                w[k] *= 3
        self.dyn_keys = r.choice([["k0"], ["k0"], ["k0", "k1"], ["k0", "k1", "k2"]])
        self.dyn_heavy = r.random() < 0.3
        if self.dyn_heavy:
            w["setdyn"], w["dyn"] = 4, 8
        self.w = w
        bw = {"defer": 3, "edefer": 2, "with": 2, "try": 3, "protect": 1.5, "prompt": 1.5, "withdyns": 1.5,
              "ccall": 1.0}
        for k in list(bw):
            if r.random() < 0.2:
                bw[k] = 0
        if not any(bw.values()):
            bw["defer"] = 1
        self.bw = bw
        cw = {"resume": 10, "cancel": 4, "propagate": 2.5, "consume": 1.5, "status": 1}
        for k in list(cw):
            if k != "resume" and r.random() < 0.2:
                cw[k] = 0
        self.cw = cw
        self.p_wild = r.choice([0, 0, 0.03, 0.1])

    def pick(self, w):
        items = [(k, v) for k, v in w.items() if v > 0]
        tot = sum(v for _, v in items)
        u = self.r.random() * tot
        for k, v in items:
            u -= v
            if u <= 0:
                return k
        return items[-1][0]

    def value(self):
        r = self.r
        u = r.random()
        if u < 0.45:
            return r.randint(0, 99)
        if u < 0.55:
            return "k:" + r.choice(["a", "b", "c", "tag0"])
        if u < 0.65:
            return "s:" + r.choice(["x", "yy", "", "a b"])
        if u < 0.72:
            return None
        if u < 0.78:
            return r.choice([True, False])
        if u < 0.8:
            return -r.randint(1, 9)
        k = r.randint(0, 3)
        return [r.choice([r.randint(0, 9), "k:" + r.choice(["a", "tag0", "tag1"]), None, "s:q"]) for _ in range(k)]

    def flags(self):
        r = self.r
        u = r.random()
        if u < 0.1:
            m = ""
        elif u < 0.3:
            m = "y"
        elif u < 0.4:
            m = "e"
        elif u < 0.5:
            m = "ye"
        elif u < 0.58:
            m = "t"
        elif u < 0.66:
            m = "a"
        elif u < 0.72:
            m = r.choice(["u", "yu", "w", "r", "d", "yd"])
        else:
            chars = list("edy0123456789")
            k = r.randint(1, 6)
            m = "".join(sorted(r.sample(chars, k), key=lambda c: r.random()))
        if self.ev:
            # on the event loop `await` (user9) must reach the task: no fiber in the tree masks it
            m = m.replace("a", "tdy5678").replace("u", "01234567r").replace("w", "").replace("9", "")
        e = r.choice(["", "i", "p", "p"] if self.dyn_heavy else ["", "", "i", "i", "p"])
        pos = r.randint(0, len(m))
        return m[:pos] + e + m[pos:]

    def new_fiber(self, depth, ancestors):
        fid = self.next_id
        self.next_id += 1
        r = self.r
        u = r.random()
        spec = {}
        self.fibers[str(fid)] = spec
        if fid != 0 and u < 0.07:
            spec["kind"] = "generate"
            spec["items"] = [self.value() for _ in range(r.randint(0, 4))]
            return fid
        if fid != 0 and u < 0.16:
            spec["kind"] = "coro"
        else:
            spec["kind"] = "fiber"
            # how the body declares the parameter that receives the first resume value
            spec["params"] = r.choice(["x", "x", "opt", "opt2", "var"])
            if fid == 0:
                if self.ev:
                    m = r.choice(["tdy5678", "edy01234567r", "tdyr567"])
                else:
                    m = r.choice(["a", "a", "tdyu", "edy0123456789", "ua"])
                spec["flags"] = m + r.choice(["", "i", "p"])
            else:
                spec["flags"] = self.flags()
        spec["body"] = self.seq(fid, depth, 0, [], ancestors + [fid], r.randint(1, self.max_ins))
        return fid

    tags = ()

    def seq(self, fid, depth, bdepth, scope, ancestors, nins):
        r = self.r
        scope = list(scope)
        ins = []
        for _ in range(nins):
            w = dict(self.w)
            if not scope:
                w["child"] = 0.5 if self.p_wild else 0
            else:
                w["child"] *= 1.5
            if self.next_id >= self.max_fibers or depth >= self.max_depth:
                w["new"] = 0
            if bdepth >= self.max_blk:
                w["block"] = 0
            k = self.pick(w)
            if k == "emit":
                ins.append({"op": "emit"})
            elif k == "yield":
                ins.append({"op": "yield", "v": self.value()})
            elif k == "debug":
                ins.append({"op": "debug", "v": self.value()})
            elif k == "signal":
                n = r.choice([0, 1, 2, 3, 4, 5, 5, 6, 6, 7, 7, 8, 9, 9])
                if self.ev and n == 9:
                    n = r.randint(5, 8)
                ins.append({"op": "signal", "n": n, "v": self.value()})
            elif k == "error":
                ins.append({"op": "error", "v": self.value()})
            elif k == "return_to":
                tag = r.choice(self.tags) if self.tags and r.random() < 0.8 else r.choice(["tag0", "tag1"])
                ins.append({"op": "return_to", "tag": tag, "v": self.value()})
            elif k == "new":
                if self.dyn_heavy and r.random() < 0.4:
                    ins.append({"op": "setdyn", "k": r.choice(self.dyn_keys), "v": r.randint(0, 99)})
                c = self.new_fiber(depth + 1, ancestors)
                ins.append({"op": "new", "f": c})
                scope.append(c)
                if self.dyn_heavy and r.random() < 0.5:
                    # bound after the child was created and before it runs: visible through a :p / :i child's
                    # environment chain even when this fiber had no table of its own when the child was made
                    ins.append({"op": "setdyn", "k": r.choice(self.dyn_keys), "v": r.randint(0, 99)})
                for _ in range(r.choice([0, 1, 1, 2, 3])):
                    ins.append(self.child_op(fid, [c], ancestors, 0))
            elif k == "child":
                ins.append(self.child_op(fid, scope, ancestors, self.p_wild))
            elif k == "block":
                bk = self.pick(self.bw)
                d = {"op": bk}
                if bk == "with":
                    d["v"] = self.value()
                elif bk == "prompt":
                    d["tag"] = r.choice(["tag0", "tag1"])
                elif bk == "withdyns":
                    d["k"] = r.choice(self.dyn_keys)
                    d["v"] = r.randint(0, 99)
                saved = (self.tags, dict(self.w))
                if bk == "prompt":
                    self.tags = self.tags + (d["tag"],)
                    self.w["return_to"] = max(self.w["return_to"], 0.5) * 4
                d["body"] = self.seq(fid, depth, bdepth + 1, scope, ancestors, r.randint(1, 4))
                self.tags, self.w = saved
                ins.append(d)
            elif k == "setdyn":
                ins.append({"op": "setdyn", "k": r.choice(self.dyn_keys), "v": r.randint(0, 99)})
            elif k == "dyn":
                ins.append({"op": "dyn", "k": r.choice(self.dyn_keys)})
            elif k == "sleep":
                ins.append({"op": "sleep", "ms": 10 * r.randint(1, 3)})
            elif k == "deadline":
                if self.deadline_res:
                    ins.append({"op": "deadline", "ms": 10 * r.randint(0, 4) + self.deadline_res.pop()})
        if self.dyn_heavy:
            # bindings are set early and inspected late, in every fiber and block
            if r.random() < 0.5:
                ins.insert(0, {"op": "setdyn", "k": r.choice(self.dyn_keys), "v": r.randint(0, 99)})
            for _ in range(r.randint(0, 2)):
                ins.insert(r.randint(1, len(ins)) if ins else 0, {"op": "dyn", "k": r.choice(self.dyn_keys)})
        return {"ins": ins, "ret": self.value()}

    def child_op(self, fid, scope, ancestors, p_wild):
        r = self.r
        op = self.pick(self.cw)
        if scope and r.random() >= p_wild:
            c = scope[-1] if r.random() < 0.7 else r.choice(scope)
        else:
            c = r.choice(ancestors)
        d = {"op": op, "f": c}
        if op in ("resume", "cancel", "propagate"):
            d["v"] = self.value()
        return d

    def task(self):
        """fiber -1: the root task driving fiber 0"""
        r = self.r
        ins = [{"op": "new", "f": 0}]
        for _ in range(r.randint(1, 6)):
            if self.ev and r.random() < 0.3:
                ins.append({"op": "sleep", "ms": 10 * r.randint(1, 3)})
            u = r.random()
            if u < 0.75:
                step = {"op": "resume", "f": 0, "v": self.value()}
            elif u < 0.9:
                step = {"op": "cancel", "f": 0, "v": self.value()}
            elif u < 0.95:
                step = {"op": "consume", "f": 0}
            else:
                step = {"op": "status", "f": 0}
            ins.append({"op": "protect", "body": {"ins": [step], "ret": None}})
        return {"kind": "task", "body": {"ins": ins, "ret": None}}


class C05(Driver):
    prop = "C05"
    level = "exploration"
    flavours = ["plain", "asan"]
    rule = ("plan = tree of fiber bodies (<= 6 fibers, <= 4 levels) over emit/yield/debug/signal 0-9/error/"
            "resume/cancel/propagate/consume/status/new + defer/edefer/with/try/protect/prompt/with-dyns/C-callback "
            "blocks + setdyn/dyn, random signal masks and :i/:p flags, a root task that resumes/cancels/abandons fiber 0, "
            "and (30% of plans) sleeps in the tree with ev/cancel and ev/deadline landing at simulated times; "
            "non-trivial = at least one signal was raised by a fiber and routed through the masks; distinct = distinct sha256(plan)")
    assumptions = [
        "the reference model encodes the documented protocol; where the documentation is silent (text of runtime "
        "error messages, behaviour of propagate from a dead fiber, prompt destructuring of odd payloads) the model "
        "follows the unchanged tree - these are value details, not part of the property",
        "fibers are only resumed by the fiber that created them (or refused: self/ancestor references), so a suspended "
        "child is never resumed behind the back of the fiber that is linked to it",
        "on the event loop no fiber of the tree masks the await signal (user9); timers of one plan never share a "
        "simulated millisecond (plans where they would are skipped and counted)",
    ]
    budgets = {"quick": 50, "thorough": 900}
    required_probes = ["cancel_at_suspension", "signal_crossed_two_levels", "cleanup_on_cancel", "generator_consumed",
                       "resume_finished_refused", "resumed_through_child_link", "ev_cancel_landed", "ev_deadline_landed",
                       "dyn_visible_through_prototype", "dyn_visible_in_inherited_env", "dyn_set_elsewhere_not_visible",
                       "cleanup_on_user_signal", "prompt_returned_to", "propagate_resumable", "c_boundary_coerced"]
    timeout_ms = 10000

    def execute(self, plan):
        """one run; a run that exceeds the wall-clock limit on a loaded machine is repeated once with a
        generous limit before it counts (plans that re-enter a running fiber may really spin: short limit)"""
        from common import runner
        m, tie = self.model(plan)
        self._last = (plan, m, tie)
        req = self.render(plan)
        r = runner(self.flavour(plan))
        if m.hazard_at is not None or m.hazard2_at is not None:
            res = r.run(req, 2500)
        else:
            res = r.run(req, self.timeout_ms)
            if res.outcome == "timeout":
                res = r.run(req, 6 * self.timeout_ms)
        return res, self.check(plan, res)

    # ---------------------------------------------------------------- generation
    def gen(self, seed, tier):
        r = random.Random(seed)
        mode = "ev" if r.random() < 0.3 else "plain"
        g = Gen(r, mode)
        g.new_fiber(1, [])
        fibers = g.fibers
        fibers["-1"] = g.task()
        plan = {"property": "C05", "mode": mode, "fibers": fibers, "cancels": []}
        if mode == "ev":
            used = set()
            for _ in range(r.choice([0, 1, 1, 2, 3])):
                k = r.randint(0, 12)
                if k in used:
                    continue
                used.add(k)
                plan["cancels"].append({"ms": 10 * k + 5, "v": g.value()})
        knobs = {"seed": seed, "clock_phase_ns": r.choice([0, 0, 137000, 999000])}
        u = r.random()
        if u < 0.06:
            knobs["gc"] = "every"
            plan["gc_on"] = True
        elif u < 0.25:
            knobs["gc"] = "bern 0.05"
            plan["gc_on"] = True
        plan["knobs"] = knobs
        plan["flavour"] = "asan" if r.random() < 0.1 else "plain"
        return plan

    # ---------------------------------------------------------------- rendering
    def render(self, plan):
        num = M.index_plan(plan)
        L = ["(def F @{})"]
        ids = M.fiber_ids(plan)
        for fid in sorted(ids, reverse=True):
            spec = plan["fibers"][str(fid)]
            kind = spec.get("kind", "fiber")
            if kind == "generate":
                continue
            name = "bT" if fid < 0 else "b%d" % fid
            if kind == "fiber":
                ps = {"x": "[x]", "opt": "[&opt x]", "opt2": "[&opt x y]", "var": "[& xs] (def x (get xs 0))"}[spec.get("params", "x")]
                head = "(defn %s %s (sim/ev :start %d -1 x)" % (name, ps, fid)
            else:
                head = "(defn %s []" % name
            L.append(head)
            L.extend(self.r_seq(plan, num, fid, spec["body"], 1))
            L.append(")")
        if plan.get("gc_on"):
            L.append("(sim/gc :on)")
        L.append("(def T (ev/go bT))")
        for c in plan.get("cancels", []):
            L.append("(ev/spawn (ev/sleep %s) (ev/cancel T %s))" % (c["ms"] / 1000.0, M.janet_src(c["v"])))
        return make_request(plan["knobs"], "\n".join(L))

    def r_seq(self, plan, num, fid, seq, ind):
        out = []
        for ins in seq["ins"]:
            out.extend(self.r_ins(plan, num, fid, ins, ind))
        out.append("  " * ind + M.janet_src(seq.get("ret")))
        return out

    def r_ins(self, plan, num, fid, ins, ind):
        op = ins["op"]
        n = num[id(ins)]
        p = "  " * ind
        at = "%d %d" % (fid, n)
        V = M.janet_src(ins["v"]) if "v" in ins else None
        if op == "emit":
            return [p + "(sim/ev :e %s)" % at]
        if op == "yield":
            return [p + "(sim/ev :y %s (yield %s))" % (at, V)]
        if op == "debug":
            return [p + "(sim/ev :y %s (debug %s))" % (at, V)]
        if op == "signal":
            return [p + "(sim/ev :y %s (signal %d %s))" % (at, ins["n"], V)]
        if op == "return_to":
            return [p + "(return :%s %s)" % (ins["tag"], V)]
        if op == "error":
            return [p + "(error %s)" % V]
        if op in ("resume", "cancel"):
            return [p + "(let [c (F %d)] (def r (%s c %s)) (sim/ev :r %s r (fiber/status c) (fiber/last-value c)))"
                    % (ins["f"], op, V, at)]
        if op == "propagate":
            return [p + "(let [c (F %d)] (def r (propagate %s c)) (sim/ev :pv %s r (fiber/status c) (fiber/last-value c)))"
                    % (ins["f"], V, at)]
        if op == "consume":
            return [p + "(let [c (F %d)] (if (nil? c) (error \"expected fiber, got nil\")) (each v c (sim/ev :it %s v)) "
                        "(sim/ev :itend %s (fiber/status c) (fiber/last-value c)))" % (ins["f"], at, at)]
        if op == "status":
            return [p + "(let [c (F %d)] (if (nil? c) (error \"expected fiber, got nil\")) "
                        "(sim/ev :st %s (fiber/status c) (fiber/last-value c) (fiber/can-resume? c)))" % (ins["f"], at)]
        if op == "new":
            c = ins["f"]
            spec = plan["fibers"][str(c)]
            kind = spec.get("kind", "fiber")
            if kind == "generate":
                items = " ".join(M.janet_src(x) for x in spec["items"])
                return [p + "(put F %d (generate [x :in [%s]] (sim/ev :g %d -1 x) x))" % (c, items, c)]
            if kind == "coro":
                return [p + "(put F %d (coro (b%d)))" % (c, c)]
            return [p + "(put F %d (fiber/new b%d :%s))" % (c, c, spec.get("flags", ""))]
        if op == "setdyn":
            return [p + "(setdyn :%s %s)" % (ins["k"], V)]
        if op == "dyn":
            return [p + "(sim/ev :d %s :%s (dyn :%s))" % (at, ins["k"], ins["k"])]
        if op == "sleep":
            return [p + "(ev/sleep %s) (sim/ev :sl %s)" % (ins["ms"] / 1000.0, at)]
        if op == "deadline":
            return [p + "(ev/deadline %s)" % (ins["ms"] / 1000.0)]
        body = self.r_seq(plan, num, fid, ins["body"], ind + 2)
        en = p + "    (sim/ev :en %s)" % at
        if op in ("defer", "edefer"):
            return [p + "(sim/ev :bv %s (%s (sim/ev :c %s)" % (at, op, at), en] + body + [p + "  ))"]
        if op == "with":
            return [p + "(sim/ev :bv %s (with [w (do (sim/ev :ctor %s) %s) (fn [w] (sim/ev :c %s w))]" % (at, at, V, at),
                    en] + body + [p + "  ))"]
        if op == "try":
            return [p + "(sim/ev :bv %s (try (do" % at, en] + body + \
                   [p + "  ) ([err] (sim/ev :catch %s err) err)))" % at]
        if op == "protect":
            return [p + "(sim/ev :bv %s (protect" % at, en] + body + [p + "  ))"]
        if op == "prompt":
            return [p + "(sim/ev :bv %s (prompt :%s" % (at, ins["tag"]), en] + body + [p + "  ))"]
        if op == "withdyns":
            return [p + "(sim/ev :bv %s (with-dyns [:%s %s]" % (at, ins["k"], V), en] + body + [p + "  ))"]
        if op == "ccall":
            return [p + "(sim/ev :bv %s (do (var r nil) (peg/match ~(cmt (constant 0) ,(fn [_] (set r (do" % at, en] + \
                   body + [p + "  )) true)) \"\") r))"]
        raise ValueError(op)

    # ---------------------------------------------------------------- oracle
    ATTRIBUTED = ("C05/status/fiber-continuing-its-child-is-not-alive/re-entered-by-its-own-descendant",
                  "C05/propagate/from-dead-fiber-inside-c-callback-corrupts-the-fiber-stack")

    def model(self, plan):
        m = M.Model(plan)
        tie = False
        try:
            m.execute()
        except M.Tie:
            tie = True
        return m, tie

    @staticmethod
    def parents(plan):
        par = {}
        for fid in M.fiber_ids(plan):
            spec = plan["fibers"][str(fid)]
            if "body" in spec:
                for ins in M.walk_seq(spec["body"]):
                    if ins["op"] == "new":
                        par.setdefault(ins["f"], fid)
        return par

    @staticmethod
    def block_kinds(plan):
        num = M.index_plan(plan)
        out = {}
        for fid in M.fiber_ids(plan):
            spec = plan["fibers"][str(fid)]
            if "body" in spec:
                for ins in M.walk_seq(spec["body"]):
                    out[num[id(ins)]] = ins["op"]
        return out

    @staticmethod
    def status_class(st):
        st = st.lstrip(":")
        if st in ("dead", "error", "user0", "user1", "user2", "user3", "user4"):
            return "finished-" + ("dead" if st == "dead" else "error" if st == "error" else "user0-4")
        if st in ("new", "alive"):
            return st
        return "suspended"

    def relation(self, par, a, b):
        """where is fiber a relative to fiber b"""
        if a == b:
            return "same-fiber"
        x = b
        while x in par:
            x = par[x]
            if x == a:
                return "an-ancestor"
        x = a
        while x in par:
            x = par[x]
            if x == b:
                return "a-descendant"
        return "an-unrelated-fiber"

    def check(self, plan, res):
        m, tie = self._model_of(plan)
        if tie:
            return []
        exp = [M.render_event(e) for e in m.events]
        act = [(e.kind, M.norm(e.payload)) for e in res.user_events()]
        ops = self.block_kinds(plan)
        run_bad = res.outcome != "ok"
        # --- independent of the model: nothing but generator items may be emitted twice
        dup = None
        seen = set()
        for idx, (k, p) in enumerate(act):
            if k in ("it", "g"):
                continue
            t = tokens(p)
            key = (k, t[0], t[1]) if len(t) >= 2 else (k, p)
            if key in seen:
                if k == "c":
                    dup = (idx, Violation("C05/cleanup/ran-twice/%s" % ops.get(int(t[1]), "?"),
                                          "cleanup form of block %s in fiber %s ran more than once" % (t[1], t[0])))
                else:
                    dup = (idx, Violation("C05/status/instruction-ran-twice/%s" % k, "event %s %s emitted twice" % (k, p)))
                break
            seen.add(key)
        # --- the same event sequence as the model
        i = 0
        while i < len(exp) and i < len(act) and exp[i] == act[i]:
            i += 1
        diverged = i < len(exp) or i < len(act)
        cut = m.unspecified_at
        if cut is not None and (not diverged or i >= cut) and (dup is None or dup[0] >= cut):
            # The plan propagated from a :dead fiber.  The property and the documentation are silent on
            # what that does, so whatever follows is accepted - except memory corruption: inside a
            # callback invoked from C the unchanged tree "returns" without popping the frame.
            if m.hazard2_at is not None:
                refused = diverged and i < len(act) and "cannot propagate from fiber with status :dead" in act[i][1]
                if run_bad or dup is not None or (diverged and not refused):
                    return [self.classify(plan, m, exp, act, i, ops, res)]
                return []
            if run_bad:
                return [Violation("C05/run/%s" % res.outcome.split(":")[0], (res.log or "")[-400:].replace("\n", " | "))]
            return []
        vs = []
        if dup is not None:
            vs.append(dup[1])
        if diverged:
            v = self.classify(plan, m, exp, act, i, ops, res)
            if v.sig in self.ATTRIBUTED:
                vs = []         # everything else in this run is a consequence
            vs.append(v)
        elif run_bad:
            v = None
            if m.hazard_at is not None or m.hazard2_at is not None:
                v = self.classify(plan, m, exp, act, i, ops, res)
            vs.append(v or Violation("C05/run/%s" % res.outcome.split(":")[0],
                                     (res.log or "")[-400:].replace("\n", " | ")))
        elif m.dropped:
            fid, n, kind = m.dropped[0]
            vs.append(Violation("C05/cleanup/skipped/suspending-signal-coerced-to-error-at-c-boundary",
                                "%s block %d of fiber %d was entered inside a callback invoked from C; its body raised a "
                                "suspending signal, the C frame turned it into an error, and the cleanup form never ran"
                                % (kind, n, fid)))
        out, sigs = [], set()
        for v in vs:
            if v.sig not in sigs:
                sigs.add(v.sig)
                out.append(v)
        return out

    def classify(self, plan, m, exp, act, i, ops, res):
        E = exp[i] if i < len(exp) else None
        A = act[i] if i < len(act) else None
        ctx = "at event %d: expected %r, got %r; before: %r; outcome %s" % (i, E, A, act[max(0, i - 3):i], res.outcome)
        tag = m.events[i][4] if i < len(m.events) else None
        par = self.parents(plan)
        if m.hazard_at is not None and (i >= m.hazard_at or res.outcome != "ok"):
            return Violation("C05/status/fiber-continuing-its-child-is-not-alive/re-entered-by-its-own-descendant",
                             "a fiber that was resumed while linked to a suspended child keeps its old status "
                             "(:pending, :user5..) while the child runs; a descendant could inspect / resume / cancel it. " + ctx)
        if m.hazard2_at is not None and (i >= m.hazard2_at or res.outcome != "ok" or (E is None and A is None)):
            return Violation("C05/propagate/from-dead-fiber-inside-c-callback-corrupts-the-fiber-stack",
                             "(propagate x f) with f :dead makes the running function 'return' without popping its frame; "
                             "inside a callback invoked from C the caller continues on a corrupt stack. " + ctx)
        if A is None and res.outcome != "ok":
            extra = "/where-resume-of-finished-fiber-must-be-refused" if tag else ""
            return Violation("C05/run/%s%s" % (res.outcome.split(":")[0], extra), ctx + " log: " + (res.log or "")[-300:].replace("\n", " | "))
        Et = tokens(E[1]) if E else None
        At = tokens(A[1]) if A else None
        if tag and A:
            # the model refused to resume/cancel a finished fiber here; did the runtime go ahead?
            _, opn, target = tag
            afid = int(At[0])
            if (A[0] == "r" and int(At[1]) == opn) or afid == target or \
                    self.relation(par, target, afid) == "an-ancestor":
                return Violation("C05/status/resumed-finished-fiber", ctx)
        if A and A[0] == "c":
            n = int(At[1])
            if any(a[0] == "c" and tokens(a[1])[:2] == At[:2] for a in act[:i]):
                return Violation("C05/cleanup/ran-twice/%s" % ops.get(n, "?"), ctx)
            if not (E and E[0] == "c"):
                return Violation("C05/cleanup/unexpected/%s" % ops.get(n, "?"), ctx)
        if E and E[0] == "c" and not (A and A[0] == "c" and At[:2] == Et[:2]):
            return Violation("C05/cleanup/skipped/%s" % ops.get(int(Et[1]), "?"), ctx)
        if E and A and E[0] == A[0] and Et[:2] == At[:2]:
            k = E[0]
            op = ops.get(int(Et[1]), "?") if int(Et[1]) >= 0 else "start"
            if k in ("r", "pv"):
                names = ["result", "status", "last-value"]
                for j in range(3):
                    if Et[2 + j:3 + j] != At[2 + j:3 + j]:
                        if names[j] == "status":
                            return Violation("C05/status/after-%s/expected-%s/got-%s" %
                                             (op, self.status_class(Et[3]), self.status_class((At[3:4] or ["?"])[0])), ctx)
                        return Violation("C05/value/%s-after-%s" % (names[j], op), ctx)
            if k == "y":
                return Violation("C05/value/value-received-by-%s" % op, ctx)
            if k == "start":
                return Violation("C05/value/first-resume-argument", ctx)
            if k == "d":
                return Violation("C05/dyn/wrong-binding-visible", ctx)
            if k == "catch":
                return Violation("C05/value/error-caught-by-try", ctx)
            if k == "bv":
                return Violation("C05/value/result-of-%s-block" % op, ctx)
            if k in ("it", "g"):
                return Violation("C05/generator/item-value", ctx)
            if k == "itend":
                return Violation("C05/generator/end-state", ctx)
            if k == "st":
                return Violation("C05/status/inspection", ctx)
            return Violation("C05/value/%s" % k, ctx)
        if E is None:
            return Violation("C05/mask-routing/execution-continued-where-it-should-have-stopped", ctx)
        if A is None:
            return Violation("C05/mask-routing/execution-stopped-early", ctx)
        rel = self.relation(par, int(At[0]), int(Et[0]))
        if rel == "same-fiber":
            return Violation("C05/mask-routing/control-went-elsewhere-in-the-same-fiber", ctx)
        return Violation("C05/mask-routing/control-went-to-%s" % rel, ctx)

    # ---------------------------------------------------------------- evidence
    def _model_of(self, plan):
        last = getattr(self, "_last", None)
        if last and last[0] is plan:
            return last[1], last[2]
        m, tie = self.model(plan)
        self._last = (plan, m, tie)
        return m, tie

    def nontrivial(self, plan, res):
        m, tie = self._model_of(plan)
        return (not tie) and (m.probes.get("signal_caught_by_mask", 0) + m.probes.get("signal_passed_through", 0)) > 0

    def extra(self, plan, res):
        m, tie = self._model_of(plan)
        p = dict(m.probes)
        if tie:
            p = {"plan_skipped_timer_tie": 1}
        p["events"] = len(m.events)
        if plan.get("flavour") == "asan":
            p["asan_runs"] = 1
        if plan.get("mode") == "ev":
            p["ev_plans"] = 1
        return p

    def aggregate(self, extras):
        p = {}
        for x in extras:
            for k, v in (x or {}).items():
                p[k] = p.get(k, 0) + v
        return {"probes": p}

    def sample(self, plan, res):
        return {"plan": plan, "outcome": res.outcome}

    # ---------------------------------------------------------------- shrinking
    def shrink(self, plan):
        P = plan
        # cheaper environment first
        if P.get("flavour") != "plain":
            q = clone(P)
            q["flavour"] = "plain"
            yield q
        if P.get("gc_on"):
            q = clone(P)
            q.pop("gc_on")
            q["knobs"].pop("gc", None)
            yield q
        if P["knobs"].get("clock_phase_ns"):
            q = clone(P)
            q["knobs"]["clock_phase_ns"] = 0
            yield q
        for i in range(len(P.get("cancels", []))):
            q = clone(P)
            del q["cancels"][i]
            yield q
        # drop a whole fiber (its `new` and every instruction that names it)
        for fid in sorted((int(k) for k in P["fibers"] if int(k) > 0), reverse=True):
            q = clone(P)
            self._drop_fiber(q, fid)
            yield q
        # structural: delete an instruction / unwrap a block / cut a tail
        paths = list(self._paths(P))
        for fid, path in paths:
            q = clone(P)
            seq, idx = self._locate(q, fid, path)
            if seq["ins"][idx]["op"] == "new":
                continue
            del seq["ins"][idx]
            yield q
        for fid, path in paths:
            q = clone(P)
            seq, idx = self._locate(q, fid, path)
            ins = seq["ins"][idx]
            if ins["op"] in BLOCKS:
                seq["ins"][idx:idx + 1] = ins["body"]["ins"]
                yield q
        for fid, path in paths:
            q = clone(P)
            seq, idx = self._locate(q, fid, path)
            ins = seq["ins"][idx]
            if ins["op"] in BLOCKS and ins["op"] not in ("defer", "try"):
                q2 = clone(q)
                s2, i2 = self._locate(q2, fid, path)
                s2["ins"][i2]["op"] = "defer"
                yield q2
            if "v" in ins and ins["v"] not in (None, 0) and not isinstance(ins["v"], bool):
                q2 = clone(q)
                s2, i2 = self._locate(q2, fid, path)
                s2["ins"][i2]["v"] = 0
                yield q2
        # simpler flags / kinds
        for k, spec in sorted(P["fibers"].items()):
            if spec.get("kind") == "fiber" and int(k) > 0:
                fl = spec.get("flags", "")
                for j in range(len(fl)):
                    q = clone(P)
                    q["fibers"][k]["flags"] = fl[:j] + fl[j + 1:]
                    yield q
            if spec.get("kind") == "generate" and spec["items"]:
                q = clone(P)
                q["fibers"][k]["items"] = spec["items"][:-1]
                yield q
            if "body" in spec and spec["body"].get("ret") is not None:
                q = clone(P)
                q["fibers"][k]["body"]["ret"] = None
                yield q

    def _paths(self, plan):
        """(fiber id, path) of every instruction; path = list of indices through nested blocks"""
        def rec(seq, pre):
            for i, ins in enumerate(seq["ins"]):
                yield pre + [i]
                if ins["op"] in BLOCKS:
                    yield from rec(ins["body"], pre + [i])
        for fid in M.fiber_ids(plan):
            spec = plan["fibers"][str(fid)]
            if "body" in spec:
                for p in rec(spec["body"], []):
                    yield fid, p

    def _locate(self, plan, fid, path):
        seq = plan["fibers"][str(fid)]["body"]
        for i in path[:-1]:
            seq = seq["ins"][i]["body"]
        return seq, path[-1]

    def _drop_fiber(self, plan, fid):
        doomed = [fid]
        # descendants created inside it
        changed = True
        while changed:
            changed = False
            for d in list(doomed):
                spec = plan["fibers"].get(str(d))
                if spec and "body" in spec:
                    for ins in M.walk_seq(spec["body"]):
                        if ins["op"] == "new" and ins["f"] not in doomed:
                            doomed.append(ins["f"])
                            changed = True
        for d in doomed:
            plan["fibers"].pop(str(d), None)

        def strip(seq):
            seq["ins"] = [i for i in seq["ins"] if not (i.get("f") in doomed and i["op"] in CHILD_OPS + ("new",))]
            for i in seq["ins"]:
                if i["op"] in BLOCKS:
                    strip(i["body"])
        for spec in plan["fibers"].values():
            if "body" in spec:
                strip(spec["body"])


DRIVER = C05
