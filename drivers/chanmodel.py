"""Nondeterministic reference model of Janet channels at the level of the documented
semantics (give / take / select / rselect / close on bounded FIFO channels).

The model is *history guided*: it consumes the recorded events in order and keeps the set
of all model states that explain the history so far.  Where the statement is silent (which
of several waiting fibers is served, which ready clause an rselect picks) every choice is
kept; a history is accepted iff some choice sequence explains it.

State (immutable tuples so that states can be put in a set):
  chans[c]  = (closed, buffer, givers, takers)
              givers = ((fid, value, is_select), ...)   takers = ((fid, is_select), ...)
  fibers    = tuple over fiber ids of  None (idle) | ('B',) blocked | ('R', result) matched/complete
Results:  give -> 'ok' | 'closed' | 'err'      take -> ('v', value) | 'nil'
          select -> ('give', c) | ('take', c, value) | ('close', c)     close -> 'ok'
"""

MAX_STATES = 4000


class TooWide(Exception):
    pass


def _withdraw(chans, fid):
    """remove every registration of fiber fid (the other clauses of a select leave no trace)"""
    out = []
    for closed, buf, givers, takers in chans:
        g2 = tuple(g for g in givers if g[0] != fid)
        t2 = tuple(t for t in takers if t[0] != fid)
        out.append((closed, buf, g2, t2))
    return tuple(out)


def _setf(fibers, fid, v):
    return fibers[:fid] + (v,) + fibers[fid + 1:]


def _setc(chans, c, v):
    return chans[:c] + (v,) + chans[c + 1:]


def _give_now(chans, fibers, caps, f, c, v, as_select):
    """all successor states of an immediately possible give; [] if it would have to wait.
    returns list of (chans, fibers) with f set to its result"""
    closed, buf, givers, takers = chans[c]
    res_ok = ('give', c) if as_select else 'ok'
    out = []
    if closed:
        r = ('close', c) if as_select else 'err'
        return [(chans, _setf(fibers, f, ('R', r)))]
    if takers:
        for t in takers:
            tf, tsel = t
            ch2 = _withdraw(chans, tf)
            fb2 = _setf(fibers, tf, ('R', ('take', c, v) if tsel else ('v', v)))
            fb2 = _setf(fb2, f, ('R', res_ok))
            out.append((ch2, fb2))
        return out
    if len(buf) < caps[c]:
        ch2 = _setc(chans, c, (closed, buf + (v,), givers, takers))
        return [(ch2, _setf(fibers, f, ('R', res_ok)))]
    return []


def _take_now(chans, fibers, caps, f, c, as_select):
    closed, buf, givers, takers = chans[c]
    out = []
    if closed:
        r = ('close', c) if as_select else 'nil'
        return [(chans, _setf(fibers, f, ('R', r)))]
    if buf:
        v = buf[0]
        rest = buf[1:]
        res = ('take', c, v) if as_select else ('v', v)
        if givers:
            for g in givers:
                gf, gv, gsel = g
                ch2 = _withdraw(chans, gf)
                cl, _, g2, t2 = ch2[c]
                ch2 = _setc(ch2, c, (cl, rest + (gv,), g2, t2))
                fb2 = _setf(fibers, gf, ('R', ('give', c) if gsel else 'ok'))
                fb2 = _setf(fb2, f, ('R', res))
                out.append((ch2, fb2))
        else:
            ch2 = _setc(chans, c, (closed, rest, givers, takers))
            out.append((ch2, _setf(fibers, f, ('R', res))))
        return out
    if givers:
        for g in givers:
            gf, gv, gsel = g
            ch2 = _withdraw(chans, gf)
            fb2 = _setf(fibers, gf, ('R', ('give', c) if gsel else 'ok'))
            fb2 = _setf(fb2, f, ('R', ('take', c, gv) if as_select else ('v', gv)))
            out.append((ch2, fb2))
        return out
    return []


def step_inv(state, caps, f, op):
    """successor states of fiber f invoking op"""
    chans, fibers = state
    kind = op['op']
    if kind == 'give':
        c, v = op['ch'], op['v']
        now = _give_now(chans, fibers, caps, f, c, v, False)
        if now:
            return now
        closed, buf, givers, takers = chans[c]
        ch2 = _setc(chans, c, (closed, buf, givers + ((f, v, False),), takers))
        return [(ch2, _setf(fibers, f, ('B',)))]
    if kind == 'take':
        c = op['ch']
        now = _take_now(chans, fibers, caps, f, c, True if False else False)
        if now:
            return now
        closed, buf, givers, takers = chans[c]
        ch2 = _setc(chans, c, (closed, buf, givers, takers + ((f, False),)))
        return [(ch2, _setf(fibers, f, ('B',)))]
    if kind in ('select', 'rselect'):
        ready = []
        for cl in op['clauses']:
            if 'give' in cl:
                now = _give_now(chans, fibers, caps, f, cl['give'], cl['v'], True)
            else:
                now = _take_now(chans, fibers, caps, f, cl['take'], True)
            if now:
                ready.append(now)
                if kind == 'select':
                    break  # earlier clauses take precedence
        if ready:
            return [s for alts in ready for s in alts]
        ch2 = chans
        for cl in op['clauses']:
            if 'give' in cl:
                c = cl['give']
                closed, buf, givers, takers = ch2[c]
                ch2 = _setc(ch2, c, (closed, buf, givers + ((f, cl['v'], True),), takers))
            else:
                c = cl['take']
                closed, buf, givers, takers = ch2[c]
                ch2 = _setc(ch2, c, (closed, buf, givers, takers + ((f, True),)))
        return [(ch2, _setf(fibers, f, ('B',)))]
    if kind == 'close':
        c = op['ch']
        closed, buf, givers, takers = chans[c]
        fb2 = fibers
        ch2 = chans
        if not closed:
            for gf, gv, gsel in givers:
                fb2 = _setf(fb2, gf, ('R', ('close', c) if gsel else 'closed'))
                ch2 = _withdraw(ch2, gf)
            for tf, tsel in takers:
                fb2 = _setf(fb2, tf, ('R', ('close', c) if tsel else 'nil'))
                ch2 = _withdraw(ch2, tf)
            cl, b, g, t = ch2[c]
            ch2 = _setc(ch2, c, (True, b, (), ()))
        return [(ch2, _setf(fb2, f, ('R', 'ok')))]
    # sleep / yield / observe: no channel effect, completes by itself
    return [(chans, _setf(fibers, f, ('R', 'ok')))]


def initial(nch, nfib):
    return (tuple((False, (), (), ()) for _ in range(nch)), tuple(None for _ in range(nfib)))


class Replay:
    """feed events; self.fail is set to (class, detail) when no model choice explains the history"""

    def __init__(self, caps, nfib):
        self.caps = caps
        self.states = {initial(len(caps), nfib)}
        self.fail = None

    def inv(self, f, op):
        if self.fail:
            return
        nxt = set()
        for st in self.states:
            if st[1][f] is not None:
                # fiber invoked an op while the model thinks its previous one is unfinished
                continue
            for s in step_inv(st, self.caps, f, op):
                nxt.add(s)
        if not nxt:
            self.fail = ('invoke-while-pending', 'fiber %d op %r' % (f, op))
            return
        if len(nxt) > MAX_STATES:
            raise TooWide()
        self.states = nxt

    def ret(self, f, result, op):
        if self.fail:
            return
        nxt = set()
        saw_blocked = saw_other = None
        for chans, fibers in self.states:
            cur = fibers[f]
            if cur is not None and cur[0] == 'R' and cur[1] == result:
                nxt.add((chans, _setf(fibers, f, None)))
            elif cur is not None and cur[0] == 'B':
                saw_blocked = True
            else:
                saw_other = cur
        if not nxt:
            if saw_blocked and saw_other is None:
                self.fail = ('returned-while-unmatched', 'fiber %d op %s returned %r but nothing could have matched it'
                             % (f, op['op'], result))
            else:
                self.fail = ('wrong-result', 'fiber %d op %s returned %r, model expects %r' % (f, op['op'], result, saw_other))
            return
        self.states = nxt

    def finish(self, pending):
        """pending: {fid: op} of operations that never returned. -> None or (class, detail)"""
        if self.fail:
            return self.fail
        best = None
        for chans, fibers in self.states:
            stuck = [f for f in pending if fibers[f] is not None and fibers[f][0] == 'R']
            if not stuck:
                return None
            if best is None or len(stuck) < len(best[0]):
                best = (stuck, fibers)
        stuck, fibers = best
        f = stuck[0]
        return ('lost-wakeup', 'fiber %d op %r was matched (model result %r) but never returned' % (f, pending[f], fibers[f][1]))
