"""Reference model for C05: the fiber / signal protocol as documented.

A *plan* is a tree of fiber bodies over a small instruction set (see c05.py).  This module
interprets a plan abstractly and produces the sequence of events the real runtime must emit.

The model is deliberately written in a different style from the implementation: a plan fiber is a
Python generator; the cleanup / handler forms (defer, edefer, with, try, protect, prompt,
with-dyns) are lexical handlers inside that generator (the runtime builds them out of hidden
fibers); a signal is either a Python exception `Sig` (terminating signals: error, user0-4, and the
"return" produced by propagating a dead fiber) or a suspension of the generator (yield, debug,
user5-9).  `cancel` raises an error at the innermost suspension point of the chain of suspended
fibers.

Values are kept in their JSON form: int, None, bool, "s:text" (string), "k:name" (keyword),
list (tuple).
"""
import re

OK, ERROR, DEBUG, YIELD = 0, 1, 2, 3
USER0 = 4
USER9 = 13
NEW, ALIVE = 14, 15
TERMINAL = frozenset([ERROR, 4, 5, 6, 7, 8])         # error, user0..user4: the fiber is finished
STATUS = ["dead", "error", "debug", "pending"] + ["user%d" % i for i in range(8)] + \
         ["interrupted", "suspended", "new", "alive"]
SIGNAME = ["ok", "error", "debug", "yield"] + ["user%d" % i for i in range(8)] + ["interrupt", "await"]
ALL_SIGS = frozenset(range(1, 14))

DESTRUCT_ERR = "expected string, symbol, keyword, array, tuple, table, struct or buffer, got %s"


def parse_mask(flags):
    """documented meaning of the fiber/new flag characters -> (set of signals, env flag)"""
    m = set()
    env = ""
    for ch in flags:
        if ch.isdigit():
            m.add(USER0 + int(ch))
        elif ch == "a":
            m |= set(ALL_SIGS)
        elif ch == "t":
            m |= {ERROR, 4, 5, 6, 7, 8}
        elif ch == "d":
            m.add(DEBUG)
        elif ch == "e":
            m.add(ERROR)
        elif ch == "u":
            m |= set(range(4, 14))
        elif ch == "y":
            m.add(YIELD)
        elif ch == "w":
            m.add(USER9)
        elif ch == "r":
            m.add(USER9 - 1)
        elif ch in "ip":
            env = ch
        else:
            raise ValueError("bad flag " + ch)
    return frozenset(m), env


# ---------------------------------------------------------------- values
def is_str(v):
    return isinstance(v, str) and v.startswith("s:")


def is_kw(v):
    return isinstance(v, str) and v.startswith("k:")


def S(text):
    return "s:" + text


def esc(text):
    out = []
    for ch in text:
        if ch in '"\\':
            out.append("\\" + ch)
        elif 32 <= ord(ch) < 127:
            out.append(ch)
        else:
            out.append("\\x%02X" % ord(ch))
    return "".join(out)


def canon(v):
    """the text (sim/ev) writes for v"""
    if v is None:
        return "nil"
    if v is True:
        return "true"
    if v is False:
        return "false"
    if isinstance(v, int):
        return str(v)
    if isinstance(v, str):
        if v.startswith("s:"):
            return '"' + esc(v[2:]) + '"'
        if v.startswith("k:"):
            return ":" + v[2:]
    if isinstance(v, (list, tuple)):
        return "(" + " ".join(canon(x) for x in v) + ")"
    raise ValueError("bad value %r" % (v,))


def janet_src(v):
    """Janet source text of v"""
    if isinstance(v, (list, tuple)):
        return "[" + " ".join(janet_src(x) for x in v) + "]"
    return canon(v)


def fmt_v(v):
    """janet's %v"""
    if isinstance(v, (list, tuple)):
        return "<tuple 0x?>"
    return canon(v)


def veq(a, b):
    """janet = on plan values"""
    if isinstance(a, bool) or isinstance(b, bool):
        return isinstance(a, bool) and isinstance(b, bool) and a == b
    if isinstance(a, (list, tuple)) and isinstance(b, (list, tuple)):
        return len(a) == len(b) and all(veq(x, y) for x, y in zip(a, b))
    return type(a) == type(b) and a == b


ADDR = re.compile(r"0x[0-9A-Fa-f]+")


def norm(text):
    return ADDR.sub("0x?", text)


def coerced(val, sig):
    return S("%s coerced from %s to error" % (fmt_v(val), SIGNAME[sig]))


# ---------------------------------------------------------------- plan indexing
BLOCKS = ("defer", "edefer", "with", "try", "protect", "prompt", "withdyns", "ccall")
CLEANUP = ("defer", "edefer", "with")


def walk_seq(seq):
    """pre-order over the instructions of a sequence"""
    for ins in seq["ins"]:
        yield ins
        if ins["op"] in BLOCKS:
            yield from walk_seq(ins["body"])


def fiber_ids(plan):
    return sorted(int(k) for k in plan["fibers"])


def index_plan(plan):
    """instruction -> number (stable, pre-order, fibers in id order)"""
    num = {}
    n = 0
    for fid in fiber_ids(plan):
        fb = plan["fibers"][str(fid)]
        if "body" in fb:
            for ins in walk_seq(fb["body"]):
                num[id(ins)] = n
                n += 1
    return num


# ---------------------------------------------------------------- runtime objects
class Sig(Exception):
    def __init__(self, sig, val):
        Exception.__init__(self)
        self.sig, self.val = sig, val


class Tie(Exception):
    """two timers at the same simulated millisecond: order unspecified, plan is skipped"""


class Env:
    def __init__(self, proto=None):
        self.d = {}
        self.setter = {}
        self.proto = proto

    def get(self, k):
        e = self
        while e is not None:
            if k in e.d:
                return e.d[k]
            e = e.proto
        return None


class Blk:
    """one dynamic instance of a block (the runtime backs all but ccall with a hidden fiber)"""
    __slots__ = ("kind", "n", "state", "fid")

    def __init__(self, kind, n, fid):
        self.kind, self.n, self.fid = kind, n, fid
        self.state = "open"      # open | closed | dropped

    def resumable(self):
        return self.state != "closed"


class MFiber:
    def __init__(self, fid, spec, env):
        self.id = fid
        self.spec = spec
        self.kind = spec.get("kind", "fiber")
        self.mask, _ = parse_mask(spec.get("flags", ""))
        self.status = NEW
        self.last = None
        self.env = env
        self.gen = None
        self.blocks = []
        self.link = None
        self.passdepth = 0
        self.continuing = False
        self.cont_block = None

    def resumable(self):
        return self.status not in TERMINAL and self.status != OK


class Model:
    def __init__(self, plan, num=None):
        self.plan = plan
        self.num = num if num is not None else index_plan(plan)
        self.ev_mode = plan.get("mode") == "ev"
        self.events = []        # (kind, fid, n, [canon fields], tag)
        self.F = {}
        self.stack = []         # running fibers, innermost last
        self.now = 0
        self.timeline = []      # [when, order, kind, data]
        self.order = 0
        self.sched_id = 0
        self.probes = {}
        self.dropped = []       # cleanup blocks abandoned by a signal coerced at a C boundary
        self.open_cleanups = set()
        self.pending_tag = None
        self.T = None
        # index of the first event after an operation on a fiber that is running (continuing the
        # child it is linked to): the property says such a fiber is :alive and refuses resume/cancel
        self.hazard_at = None
        self.hazard2_at = None
        self.unspecified_at = None    # first event after a propagate from a :dead fiber (unspecified)
        self.dyn_set = set()

    # ---- bookkeeping
    def probe(self, k, n=1):
        self.probes[k] = self.probes.get(k, 0) + n

    def ev(self, kind, fid, n, *fields):
        tag = self.pending_tag
        self.pending_tag = None
        self.events.append((kind, fid, n, [canon(x) for x in fields], tag))

    def ev_raw(self, kind, fid, n, *fields):
        tag = self.pending_tag
        self.pending_tag = None
        self.events.append((kind, fid, n, list(fields), tag))

    def st(self, f):
        return "k:" + STATUS[f.status]

    # ---- running a fiber one step
    def run(self, f, v, mode):
        """resume (mode 'resume') or cancel (mode 'cancel') fiber f, which the caller has checked to be
        resumable.  -> (signal, value)"""
        if f.status == NEW:
            if mode == "cancel":
                f.status, f.last = ERROR, v
                self.probe("cancel_new_fiber")
                return ERROR, v
            f.gen = self.g_body(f, v)
            first = True
        else:
            first = False
            # the runtime backs every open block with a hidden fiber: f is then linked to it and is
            # "continuing its child" until the outermost of these blocks is left
            f.cont_block = next((b for b in f.blocks if b.kind != "ccall"), None)
        f.status = ALIVE
        f.last = None
        f.passdepth = 0
        self.stack.append(f)
        try:
            if first:
                item = next(f.gen)
            else:
                item = f.gen.send((mode, v))
            sig, out = item
        except StopIteration as e:
            sig, out = OK, e.value
        except Sig as s:
            sig, out = s.sig, s.val
        finally:
            self.stack.pop()
        f.status, f.last = sig, out
        if sig == OK or sig in TERMINAL:
            f.gen = None
        return sig, out

    def g_body(self, f, x):
        if f.kind == "fiber":
            self.ev("start", f.id, -1, x)
        if f.kind == "generate":
            for i, item in enumerate(f.spec["items"]):
                self.ev("g", f.id, -1, item)
                yield from self.g_suspend(f, YIELD, item)
            self.probe("generator_exhausted")
            return None
        val = yield from self.g_seq(f, f.spec["body"], f.env)
        return val

    def g_suspend(self, f, sig, val):
        """suspend fiber f with a non-terminating signal raised by f itself"""
        mode, v = yield (sig, val)
        if mode == "cancel":
            self.probe("cancel_at_suspension")
            if f.blocks:
                self.probe("cancel_inside_block")
                if any(b.kind in CLEANUP for b in f.blocks):
                    self.probe("cleanup_on_cancel")
            raise Sig(ERROR, v)
        return v

    def g_seq(self, f, seq, env):
        for ins in seq["ins"]:
            yield from self.g_ins(f, ins, env)
        return seq.get("ret")

    # ---- child operations
    def getfiber(self, fid):
        c = self.F.get(fid)
        if c is None:
            raise Sig(ERROR, S("expected fiber, got nil"))
        if (c.continuing or (c.cont_block is not None and c.cont_block.state == "open" and c.status == ALIVE)) \
                and self.hazard_at is None:
            self.hazard_at = len(self.events)
            self.probe("operation_on_fiber_continuing_its_child")
        return c

    def check_can_resume(self, c, n):
        if c.status == ALIVE or c.status == OK or c.status in TERMINAL:
            if c.status != ALIVE:
                self.pending_tag = ("illegal-resume", n, c.id)
                self.probe("resume_finished_refused")
            else:
                self.probe("resume_alive_refused")
            raise Sig(ERROR, S("cannot resume fiber with status :%s" % STATUS[c.status]))

    def g_drive(self, f, c, v, mode, depth_probe=True):
        """f continues child c until c returns or raises a signal its mask accepts; signals the mask
        does not accept are re-raised by f itself (which keeps c as the child to continue)"""
        hops = 0
        while True:
            sig, out = self.run(c, v, mode)
            f.continuing = False
            if sig == OK or sig in c.mask:
                if sig != OK:
                    self.probe("signal_caught_by_mask")
                    if c.passdepth >= 1:
                        self.probe("signal_crossed_one_level")
                    if c.passdepth >= 2:
                        self.probe("signal_crossed_two_levels")
                return sig, out
            self.probe("signal_passed_through")
            f.passdepth = c.passdepth + 1
            if sig in TERMINAL:
                raise Sig(sig, out)
            f.link = c
            f.continuing = False
            mode, v = yield (sig, out)
            f.link = None
            f.continuing = True
            hops += 1
            if mode == "resume":
                self.probe("resumed_through_child_link")
            else:
                self.probe("cancel_through_child_link")

    def g_ins(self, f, ins, env):
        op = ins["op"]
        n = self.num[id(ins)]
        fid = f.id
        if op == "emit":
            self.ev("e", fid, n)
        elif op == "yield":
            v = yield from self.g_suspend(f, YIELD, ins["v"])
            self.ev("y", fid, n, v)
        elif op == "debug":
            v = yield from self.g_suspend(f, DEBUG, ins["v"])
            self.ev("y", fid, n, v)
        elif op == "signal":
            sig = USER0 + ins["n"]
            if sig in TERMINAL:
                raise Sig(sig, ins["v"])
            v = yield from self.g_suspend(f, sig, ins["v"])
            self.ev("y", fid, n, v)
        elif op == "return_to":
            raise Sig(USER0, ["k:" + ins["tag"], ins["v"]])
        elif op == "error":
            raise Sig(ERROR, ins["v"])
        elif op in ("resume", "cancel"):
            c = self.getfiber(ins["f"])
            self.check_can_resume(c, n)
            mode = op
            if op == "cancel" and c.status != NEW:
                self.probe("cancel_suspended_fiber")
            sig, out = yield from self.g_drive(f, c, ins["v"], mode)
            self.ev("r", fid, n, out, self.st(c), c.last)
        elif op == "propagate":
            c = self.getfiber(ins["f"])
            st = c.status
            x = ins["v"]
            if st in (NEW, ALIVE, OK):
                # :dead is refused like :new and :alive (since /repo commit 79d4635; before that the
                # interpreter "returned" without popping the frame)
                if st == OK:
                    self.probe("propagate_from_dead_fiber")
                raise Sig(ERROR, S("cannot propagate from fiber with status :%s" % STATUS[st]))
            if st == OK or st in TERMINAL:
                self.probe("propagate_finished")
                if st == OK and self.unspecified_at is None:
                    self.unspecified_at = len(self.events)
                    self.probe("propagate_from_dead_fiber")
                if st == OK and f.blocks and f.blocks[-1].kind == "ccall" and self.hazard2_at is None:
                    # "return" out of a callback frame that C code is waiting on
                    self.hazard2_at = len(self.events)
                    self.probe("propagate_dead_inside_c_callback")
                raise Sig(st, x)
            self.probe("propagate_resumable")
            f.link = c
            mode, v = yield (st, x)
            f.link = None
            f.continuing = True
            sig, out = yield from self.g_drive(f, c, v, mode)
            self.ev("pv", fid, n, out, self.st(c), c.last)
        elif op == "consume":
            c = self.getfiber(ins["f"])
            items = 0
            while True:
                if c.status == ALIVE or c.status == OK or c.status in TERMINAL:
                    break
                sig, out = yield from self.g_drive(f, c, None, "resume")
                if sig == OK or sig in TERMINAL:
                    break
                self.ev("it", fid, n, c.last)
                items += 1
            if items:
                self.probe("generator_consumed")
            self.ev("itend", fid, n, self.st(c), c.last)
        elif op == "status":
            c = self.getfiber(ins["f"])
            self.ev("st", fid, n, self.st(c), c.last, c.resumable())
        elif op == "new":
            cid = ins["f"]
            spec = self.plan["fibers"][str(cid)]
            _, eflag = parse_mask(spec.get("flags", ""))
            if spec.get("kind", "fiber") in ("coro", "generate"):
                eflag = "i"
            if eflag == "i":
                cenv = env
                self.probe("env_inherited")
            elif eflag == "p":
                cenv = Env(env)
                self.probe("env_prototyped")
            else:
                cenv = Env()
            self.F[cid] = MFiber(cid, spec, cenv)
            if spec.get("kind") in ("coro", "generate"):
                self.F[cid].mask = frozenset([YIELD])
        elif op == "setdyn":
            env.d[ins["k"]] = ins["v"]
            env.setter[ins["k"]] = fid
            self.dyn_set.add(ins["k"])
        elif op == "dyn":
            v = env.get(ins["k"])
            if v is not None:
                if ins["k"] not in env.d:
                    self.probe("dyn_visible_through_prototype")
                elif env.setter.get(ins["k"]) != fid:
                    self.probe("dyn_visible_in_inherited_env")
                else:
                    self.probe("dyn_visible_in_own_env")
            elif ins["k"] in self.dyn_set:
                self.probe("dyn_set_elsewhere_not_visible")
            self.ev("d", fid, n, "k:" + ins["k"], v)
        elif op == "sleep":
            self.add_timer(self.now + ins["ms"], "wake", self.sched_id)
            self.probe("sleep")
            yield from self.g_suspend(f, USER9, None)
            self.ev("sl", fid, n)
        elif op == "deadline":
            # ccall is not a fiber: the current fiber is the innermost block that is one
            for b in reversed(f.blocks):
                if b.kind != "ccall":
                    tocheck = b
                    break
            else:
                tocheck = f
            self.add_timer(self.now + ins["ms"], "deadline", tocheck)
        elif op in BLOCKS:
            yield from self.g_block(f, ins, env, n)
        else:
            raise ValueError("unknown op " + op)

    # ---- blocks
    def g_block(self, f, ins, env, n):
        kind = ins["op"]
        fid = f.id
        if kind == "ccall":
            val = self.do_ccall(f, ins, env, n)
            self.ev("bv", fid, n, val)
            return
        if kind == "with":
            self.ev("ctor", fid, n)
        blk = Blk(kind, n, fid)
        f.blocks.append(blk)
        benv = env
        if kind == "withdyns":
            benv = Env(env)
            benv.d[ins["k"]] = ins["v"]
            self.dyn_set.add(ins["k"])
        if kind in CLEANUP:
            self.open_cleanups.add((fid, n))
        # the block's outcome, as the status/value of the hidden fiber
        try:
            self.ev("en", fid, n)
            val = yield from self.g_seq(f, ins["body"], benv)
            bsig = OK
            if kind == "prompt":
                val = ["k:" + ins["tag"], val]
        except Sig as s:
            bsig, val = s.sig, s.val
        # (GeneratorExit: the block is abandoned; nothing runs)
        assert f.blocks[-1] is blk
        f.blocks.pop()
        blk.state = "closed"
        if kind in CLEANUP:
            self.open_cleanups.discard((fid, n))
        if kind in ("defer", "with", "edefer"):
            # mask :t - error and user0-4 end the body; the form runs, the signal goes on
            if kind != "edefer" or bsig != OK:
                if kind == "with":
                    self.ev("c", fid, n, ins["v"])
                else:
                    self.ev("c", fid, n)
                if bsig != OK:
                    self.probe("cleanup_on_signal")
                    if bsig != ERROR:
                        self.probe("cleanup_on_user_signal")
            if bsig != OK:
                raise Sig(bsig, val)
        elif kind == "try":
            if bsig == ERROR:
                self.ev("catch", fid, n, val)
                self.probe("try_caught")
            elif bsig != OK:
                self.probe("try_passed_user_signal")
                raise Sig(bsig, val)
        elif kind == "protect":
            if bsig == ERROR:
                val = [False, val]
            elif bsig == OK:
                val = [True, val]
            else:
                raise Sig(bsig, val)
        elif kind == "withdyns":
            if bsig != OK:
                raise Sig(bsig, val)
        elif kind == "prompt":
            if bsig not in (OK, USER0):
                raise Sig(bsig, val)
            # (def [target payload] res)
            if isinstance(val, (list, tuple)):
                target = val[0] if len(val) > 0 else None
                payload = val[1] if len(val) > 1 else None
            elif is_str(val) or is_kw(val):
                b = val[2:].encode("latin-1")
                target = b[0] if len(b) > 0 else None
                payload = b[1] if len(b) > 1 else None
            else:
                raise Sig(ERROR, S(DESTRUCT_ERR % fmt_v(val)))
            if veq(target, "k:" + ins["tag"]):
                if bsig == USER0:
                    self.probe("prompt_returned_to")
                val = payload
            else:
                self.probe("prompt_tag_mismatch")
                raise Sig(bsig, val)
        self.ev("bv", fid, n, val)

    def do_ccall(self, f, ins, env, n):
        """the body runs as a callback of a C function: no signal can cross that frame"""
        mark = len(f.blocks)
        blk = Blk("ccall", n, f.id)
        f.blocks.append(blk)
        gen = self.g_seq(f, ins["body"], env)
        try:
            self.ev("en", f.id, n)
            item = next(gen)
        except StopIteration as e:
            del f.blocks[mark:]
            return e.value
        except Sig as s:
            del f.blocks[mark:]
            if s.sig == OK:
                return s.val
            if s.sig == ERROR:
                raise
            self.probe("c_boundary_coerced")
            raise Sig(ERROR, coerced(s.val, s.sig))
        sig, sval = item
        # a suspending signal reached the C frame: the callback's continuation is gone
        self.probe("c_boundary_coerced")
        self.probe("c_boundary_coerced_suspension")
        for b in f.blocks[mark + 1:]:
            b.state = "dropped"
            if b.kind in CLEANUP:
                self.dropped.append((b.fid, b.n, b.kind))
                self.open_cleanups.discard((b.fid, b.n))
        del f.blocks[mark:]
        f.link = None
        gen.close()
        if sig == USER9:
            self.sched_id += 1
        raise Sig(ERROR, coerced(sval, sig))

    # ---- event loop
    def add_timer(self, when, kind, data):
        self.order += 1
        self.timeline.append([when, self.order, kind, data])

    def execute(self):
        """run the whole plan; fills self.events"""
        spec = self.plan["fibers"]["-1"]
        T = self.T = MFiber(-1, spec, Env(Env()))
        T.kind = "task"
        for c in self.plan.get("cancels", []):
            self.add_timer(c["ms"], "cancel", c["v"])
        sig, out = self.run(T, None, "resume")
        guard = 0
        while self.timeline:
            guard += 1
            if guard > 10000:
                raise RuntimeError("model event loop does not terminate")
            self.timeline.sort(key=lambda e: (e[0], e[1]))
            when, _, kind, data = self.timeline[0]
            if len(self.timeline) > 1 and self.timeline[1][0] == when:
                raise Tie()
            self.timeline.pop(0)
            self.now = when
            finished = not T.resumable()
            if kind == "wake":
                if finished or data != self.sched_id:
                    continue
                self.sched_id += 1
                self.run(T, None, "resume")
            elif kind == "cancel":
                if finished:
                    self.probe("ev_cancel_after_finish")
                    continue
                self.sched_id += 1
                self.probe("ev_cancel_landed")
                self.run(T, data, "cancel")
            elif kind == "deadline":
                if not data.resumable():
                    self.probe("deadline_disarmed")
                    continue
                if finished:
                    continue
                self.sched_id += 1
                self.probe("ev_deadline_landed")
                self.run(T, S("deadline expired"), "cancel")
        return self.events


def render_event(e):
    kind, fid, n, fields, _ = e
    return kind, " ".join([str(fid), str(n)] + fields)
