"""Janet side of the C11 driver: canonical protocol, schedule executor, comparison.

The script defines `text` (or builds it with %j from generated values), runs the reference
(one byte at a time through parser/byte, drain after every byte, record+clear errors, eof at
the end) and then every schedule of the plan, compares inside Janet and emits

    :ref   case nitems nvalues nerrors final-status hash      reference summary
    :rt    case checked refused textlen                       round-trip summary (jdn texts)
    :mm    case sched-idx kind detail...                      a mismatch (the verdicts)
    :s     case sched-idx boundaries clones lineages nmm      per schedule summary
    :done  ncases nmm probes...                               last event: the script ran to its end
"""

PRELUDE = r'''
(var nmm 0)
(var nmm-case 0)
(var CI 0)
(var canon-of nil)
(defn clip [x]
  (def s (if (bytes? x) (string x) (canon-of x)))
  (if (> (length s) 160) (string (string/slice s 0 160) "...") s))
(var mm-seen @{})
(defn mm [S kind & detail]
  (++ nmm)
  # each kind once per schedule, a bounded number per case
  (def key [(S :idx) kind])
  (unless (mm-seen key)
    (put mm-seen key true)
    (++ nmm-case)
    (when (<= nmm-case 16) (sim/ev :mm CI (S :idx) kind ;(map clip detail)))))

# canonical text of a value in b; line:col of every tuple, in the same walk order, in s (when given).
# deep-equality semantics: no identity numbering; dictionary entries as a sorted multiset.
(var cv nil)
(set cv (fn cv [b s x]
  (case (type x)
    :number (if (= x x) (buffer/format b "%.17g" x) (buffer/push b "nan"))
    :nil (buffer/push b "nil")
    :boolean (buffer/push b (if x "true" "false"))
    :string (buffer/push b (sim/canon x))
    :symbol (buffer/push b (sim/canon x))
    :keyword (buffer/push b (sim/canon x))
    :buffer (buffer/push b "@" (sim/canon (string x)))
    :tuple (let [br (= :brackets (tuple/type x))]
             (buffer/push b (if br "[" "("))
             (when s (def m (tuple/sourcemap x)) (buffer/format s "%d:%d " (m 0) (m 1)))
             (each e x (cv b s e) (buffer/push b " "))
             (buffer/push b (if br "]" ")")))
    :array (do (buffer/push b "@[") (each e x (cv b s e) (buffer/push b " ")) (buffer/push b "]"))
    (if (dictionary? x)
      (let [ents @[]]
        (eachp [k v] x
          (def bb @"") (def ss (if s @""))
          (cv bb ss k) (buffer/push bb " ") (cv bb ss v)
          (array/push ents [(string bb) (if ss (string ss) "")]))
        (sort ents)
        (buffer/push b (if (table? x) "@{" "{"))
        (each [eb es] ents (buffer/push b eb " ") (when s (buffer/push s es)))
        (buffer/push b "}"))
      (buffer/push b (describe x))))))

(set canon-of (fn canon-of [x] (def b @"") (cv b nil x) (string b)))

(defn push-item [st w wrap]
  (def b @"") (def s @"")
  (if wrap
    (do (cv b s (w 0))
        (def m (tuple/sourcemap w))
        (array/push (st :items) (string "V\t" b "\t" s "\t" (m 0) ":" (m 1)))
        (when (st :raw) (array/push (st :raw) (w 0))))
    (do (cv b s w)
        (array/push (st :items) (string "V\t" b "\t" s))))
  (put st :nvals (+ 1 (st :nvals))))

(defn drain [st wrap k]
  (def p (st :p))
  (var k k)
  (while (and (> k 0) (parser/has-more p))
    (push-item st (if wrap (parser/produce p true) (parser/produce p)) wrap)
    (-- k)))

(defn record-error [st]
  (def p (st :p))
  (def w (parser/where p))
  (def msg (parser/error p))
  (array/push (st :items) (string "E\t" msg "\t" (w 0) ":" (w 1))))

# ---- the reference: canonical driver protocol, one byte at a time ----
(defn reference [text keep-raw]
  (def p (parser/new))
  (def n (length text))
  (def st @{:p p :items @[] :nvals 0 :raw (if keep-raw @[])})
  (def wh @[]) (def stt @[]) (def cum @[])
  (defn snap []
    (array/push wh (parser/where p))
    (array/push stt (parser/status p))
    (array/push cum (st :nvals)))
  (snap)
  (for i 0 n
    (parser/byte p (text i))
    (drain st true 1e9)
    (when (= :error (parser/status p)) (record-error st))
    (snap))
  (parser/eof p)
  (drain st true 1e9)
  (when (= :error (parser/status p)) (record-error st))
  (put st :wh wh) (put st :stt stt) (put st :cum cum)
  (put st :final (parser/status p))
  (put st :final-where (parser/where p))
  (put st :short
       (map (fn [it] (if (= 86 (it 0))
                       (do (def f (string/split "\t" it)) (string/join (array/slice f 0 3) "\t"))
                       it))
            (st :items)))
  st)

# ---- schedules ----
(def garbage-bytes ")]}\"`(a1 \\\n\r@{[;'#\xff")

(defn trash [p rng]
  (def g (buffer))
  (repeat (+ 1 (math/rng-int rng 12))
    (buffer/push-byte g (garbage-bytes (math/rng-int rng (length garbage-bytes)))))
  (parser/consume p g)
  (when (= :error (parser/status p)) (parser/error p))
  (case (math/rng-int rng 3)
    0 (parser/flush p)
    1 (parser/eof p)
    nil))

(defn boundaries [S text rng]
  (def n (length text))
  (def marks (array/new-filled (+ n 1) false))
  (each c (S :cuts) (when (and (> c 0) (< c n)) (put marks c true)))
  (def sz (S :sizes))
  (when (and sz (> (length sz) 0))
    (var o 0) (var i 0)
    (while (< o n)
      (put marks o true)
      (+= o (max 1 (sz (% i (length sz)))))
      (++ i)))
  (def ca (S :cutafter))
  (when (and ca (> (length ca) 0))
    (for i 0 n
      (when (index-of (text i) ca) (put marks (+ i 1) true))))
  (def clones @{})
  (eachp [c m] (S :clones) (when (and (> c 0) (<= c n)) (put marks c true) (put clones c m)))
  (put marks n true)
  (put marks 0 false)
  (def bnds @[])
  (for i 1 (+ n 1) (when (marks i) (array/push bnds i)))
  # clones placed at seeded boundaries (texts the plan does not know)
  (unless (empty? bnds)
    (each m (S :clonemodes)
      (def c (bnds (math/rng-int rng (length bnds))))
      (put clones c m)))
  [bnds clones])

(def probes @{:split-crlf 0 :clone-mid-token 0 :clones 0 :boundaries 0 :fresh 0 :lineages 0
              :deferred 0 :stops 0})
(defn probe [k] (put probes k (+ 1 (probes k))))

(var seen-delims @{})
(var seen-frames @{})

(defn handle-error [st S text]
  (drain st (S :wrap) 1e9)
  (def p (st :p))
  (record-error st)
  # flush-then-continue must equal a fresh parser at the same line/column
  # (not when the error byte was CR: a fresh parser does not know that a LF follows a CR)
  (when (and (S :fresh) (not= 13 (text (- (st :off) 1))))
    (def w (parser/where p))
    (def np (parser/new))
    (parser/where np (w 0) (w 1))
    (probe :fresh)
    (put st :p np)))

(defn feed [st S text end rng]
  (var guard 0)
  (while (< (st :off) end)
    (def off (st :off))
    (def p (st :p))
    (def api (let [a (S :api)] (if (= a 3) (math/rng-int rng 3) a)))
    (case api
      0 (let [piece (if (= 0 (math/rng-int rng 2)) (string/slice text off end) (buffer/slice text off end))
              k (parser/consume p piece)]
          (unless (and (> k 0) (<= k (- end off))) (mm S "consume-count" k (- end off)) (error "consume-count"))
          (when (< k (- end off))
            (probe :stops)
            (unless (= :error (parser/status p)) (mm S "consume-stopped-without-error" k)))
          (put st :off (+ off k)))
      1 (let [base (max 0 (- off (math/rng-int rng 5)))
              k (parser/consume p (string/slice text base end) (- off base))]
          (unless (and (> k 0) (<= k (- end off))) (mm S "consume-count" k (- end off)) (error "consume-count"))
          (when (< k (- end off))
            (probe :stops)
            (unless (= :error (parser/status p)) (mm S "consume-stopped-without-error" k)))
          (put st :off (+ off k)))
      2 (do (parser/byte p (text off)) (put st :off (+ off 1))))
    (when (= :error (parser/status p)) (handle-error st S text))))

(defn observe [st S ref rng]
  (def p (st :p)) (def off (st :off))
  (def m (S :obs))
  (defn on [bit] (and (not= 0 (band m bit)) (< (math/rng-uniform rng) (S :obsp))))
  # where and status are checked at every boundary
  (def w (parser/where p))
  (unless (= w ((ref :wh) off)) (mm S "where" w ((ref :wh) off)))
  (when (on 1)
    (def s (parser/status p))
    (unless (= s ((ref :stt) off)) (mm S "status" s ((ref :stt) off))))
  (when (on 2)
    (def h (parser/has-more p))
    (unless (= h (> ((ref :cum) off) (st :nvals))) (mm S "has-more" h)))
  (when (on 4)
    (def d (parser/state p :delimiters))
    (if-let [old (seen-delims off)]
      (unless (= old d) (mm S "state-delimiters" d old))
      (put seen-delims off d)))
  (when (on 8)
    (def f (canon-of (array/slice (parser/state p :frames) 1)))
    (if-let [old (seen-frames off)]
      (unless (= old f) (mm S "state-frames" f old))
      (put seen-frames off f)))
  (when (on 16) (parser/state p))
  (when (on 32) (parser/where p)))

(defn drain-policy [st S rng]
  (case (S :drain)
    0 (drain st (S :wrap) 1e9)
    1 (when (parser/has-more (st :p)) (probe :deferred))
    2 (case (math/rng-int rng 3)
        0 (drain st (S :wrap) 1e9)
        1 (drain st (S :wrap) 1)
        (when (parser/has-more (st :p)) (probe :deferred)))))

(defn mid-token? [p]
  (def t (get (last (parser/state p :frames)) :type))
  (or (= t :token) (= t :string) (= t :buffer) (= t :at)))

(defn do-clone [st S mode bi later rng]
  (probe :clones)
  (when (mid-token? (st :p)) (probe :clone-mid-token))
  (case mode
    # continue on the clone, the original is fed garbage
    0 (let [c (parser/clone (st :p))]
        (trash (st :p) rng)
        (put st :p c)
        (when (S :gc) (gccollect)))
    # continue on the clone, the original is dropped
    1 (do (put st :p (parser/clone (st :p)))
          (when (S :gc) (gccollect)))
    # the original continues; the clone is continued later from this checkpoint
    2 (when later
        (array/push later @{:p (parser/clone (st :p)) :items (array/slice (st :items)) :nvals (st :nvals)
                            :off (st :off) :bi (+ bi 1)}))
    # clone of a clone
    3 (let [c (parser/clone (parser/clone (st :p)))]
        (trash (st :p) rng)
        (put st :p c))))

(defn compare-items [S st ref]
  (def a (st :items))
  (def r (if (S :wrap) (ref :items) (ref :short)))
  (def na (length a)) (def nr (length r))
  (var i 0)
  (while (and (< i na) (< i nr) (= (a i) (r i))) (++ i))
  (unless (and (= i na) (= i nr))
    (cond
      (>= i na) (mm S "items-missing" i (r i))
      (>= i nr) (mm S "items-extra" i (a i))
      (let [fa (string/split "\t" (a i)) fr (string/split "\t" (r i))]
        (cond
          (not= (fa 0) (fr 0)) (mm S "value-vs-error" i (a i) (r i))
          # messages carry "opened at line L, column C": a difference in digits only is a position difference
          (= (fa 0) "E") (if (= (peg/replace-all '(some :d) "#" (fa 1)) (peg/replace-all '(some :d) "#" (fr 1)))
                           (mm S "error-position-differs" i (a i) (r i))
                           (mm S "error-message-differs" i (a i) (r i)))
          (not= (fa 1) (fr 1)) (mm S "value-differs" i (fa 1) (fr 1))
          (not= (fa 2) (fr 2)) (mm S "sourcemap-differs" i (a i) (r i))
          (mm S "root-position-differs" i (a i) (r i)))))))

(defn finish [st S ref]
  (def p (st :p))
  (parser/eof p)
  (drain st (S :wrap) 1e9)
  (when (= :error (parser/status p)) (record-error st))
  (unless (= (parser/status p) (ref :final)) (mm S "final-status" (parser/status p) (ref :final)))
  (unless (= (parser/where p) (ref :final-where)) (mm S "where" (parser/where p) (ref :final-where)))
  (compare-items S st ref))

(defn run-lineage [st S text ref bnds clones later rng]
  (var bi (st :bi))
  (probe :lineages)
  (while (< bi (length bnds))
    (def end (bnds bi))
    (feed st S text end rng)
    (probe :boundaries)
    (when (and (< end (length text)) (= 13 (text (- end 1))) (= 10 (text end))) (probe :split-crlf))
    (observe st S ref rng)
    (drain-policy st S rng)
    (when-let [mode (get clones end)] (do-clone st S mode bi later rng))
    (++ bi))
  (finish st S ref))

(defn run-schedule [S text ref]
  (def rng (math/rng (S :rseed)))
  (def [bnds clones] (boundaries S text rng))
  (def later @[])
  (def before nmm)
  (try
    (do
      (run-lineage @{:p (parser/new) :items @[] :nvals 0 :off 0 :bi 0} S text ref bnds clones later rng)
      (each st later (run-lineage st S text ref bnds clones nil rng)))
    ([e f] (mm S "panic" e)))
  (sim/ev :s CI (S :idx) (length bnds) (length clones) (+ 1 (length later)) (- nmm before)))

# ---- round trip ----
(defn leafdiff [a b]
  (def ta (type a)) (def tb (type b))
  (cond
    (not= ta tb) (string ta "->" tb)
    (indexed? a)
      (cond
        (not= (length a) (length b)) (string ta "-length")
        (and (tuple? a) (not= (tuple/type a) (tuple/type b))) "tuple-bracket-flag"
        (do (var r nil) (for i 0 (length a) (unless r (set r (leafdiff (a i) (b i))))) r))
    (dictionary? a)
      (if (not= (length a) (length b)) (string ta "-length")
        # keys with equal canonical text are paired; the rest pairwise in the order of their text
        (let [ca (tabseq [k :keys a] (canon-of k) k) cb (tabseq [k :keys b] (canon-of k) k)]
          (var r nil)
          (each c (sort (keys ca))
            (when (and (not r) (has-key? cb c))
              (set r (leafdiff (get a (ca c)) (get b (cb c))))))
          (unless r
            (def ra (sort (filter |(not (has-key? cb $)) (keys ca))))
            (def rb (sort (filter |(not (has-key? ca $)) (keys cb))))
            (for i 0 (min (length ra) (length rb))
              (unless r (set r (or (leafdiff (ca (ra i)) (cb (rb i))) "key")))))
          r))
    (= ta :buffer) (if (= (string a) (string b)) nil "buffer->buffer")
    (= a b) nil
    (and (not= a a) (not= b b)) nil
    (string ta "->" tb)))

(def RT {:idx -1})
(var rt-checked 0)
(var rt-refused 0)
(defn rt-check [v t]
  (++ rt-checked)
  (def r (reference t true))
  (def items (r :items))
  (cond
    (empty? items) (mm RT "rt-no-value" (type v) t)
    (not= 1 (length items)) (mm RT "rt-several-items" (type v) t (items 0) (items 1))
    (= 69 ((items 0) 0)) (mm RT "rt-parse-error" (type v) t (items 0))
    (let [pv ((r :raw) 0)]
      (unless (= (canon-of v) (canon-of pv))
        (mm RT "rt-value-differs" (or (leafdiff v pv) "?") t (canon-of v) (canon-of pv))))))

(defn jdn-text [vals seps]
  (def parts @[])
  (eachp [i v] vals
    (def t (try (string/format "%j" v) ([e] nil)))
    (if (nil? t)
      (++ rt-refused)
      (do (rt-check v t)
          # a buffer printed into itself (the target of buffer/format is the value): what is appended is the
          # notation of what the buffer held when the call was made
          (when (and (buffer? v) (< (length v) 2000))
            (def b (buffer v))
            (def n (length b))
            (buffer/format b "%j" b)
            (rt-check v (string/slice b n))
            # the same with content that is all escapes (the printed form is four times as long as the content)
            (def hi (buffer/new-filled (+ 1 n) (+ 128 (% n 100))))
            (def hi0 (buffer hi))
            (buffer/format hi "%j" hi)
            (rt-check hi0 (string/slice hi (+ 1 n))))
          (array/push parts t)
          (array/push parts (seps (% i (length seps)))))))
  (string/join parts))

(defn run-case [C]
  (set nmm-case 0)
  (set mm-seen @{})
  (set rt-checked 0)
  (set rt-refused 0)
  (set seen-delims @{})
  (set seen-frames @{})
  (def text (if (C :vals) (jdn-text ((C :vals)) (C :seps)) (C :text)))
  (when (C :vals) (sim/ev :rt CI rt-checked rt-refused (length text)))
  (def ref (reference text false))
  (def nerr (count (fn [it] (= 69 (it 0))) (ref :items)))
  (sim/ev :ref CI (length (ref :items)) (ref :nvals) nerr (ref :final) (sim/hash (string/join (ref :items) "\n")))
  (each S (C :scheds) (run-schedule S text ref)))

(defn main []
  (when GC (sim/gc :on))
  (eachp [i C] CASES
    (set CI i)
    (run-case C))
  (sim/ev :done (length CASES) nmm
          (probes :boundaries) (probes :split-crlf) (probes :clones) (probes :clone-mid-token)
          (probes :fresh) (probes :lineages) (probes :deferred) (probes :stops)))
(ev/go main)
'''
