"""C06 - channels conserve values, keep order, respect capacity, lose no wakeups.
Fibers x channels on one event loop; interleavings come from seeded sleeps/yields on the
simulated clock.  Oracle: independent conservation / order checkers plus a history-guided
nondeterministic reference model (chanmodel.py)."""
import json
import random

from common import Driver, Violation, make_request
import chanmodel


def rng_for(seed):
    return random.Random(seed)


class C06(Driver):
    prop = "C06"
    level = "exploration"
    flavours = ["plain"]
    rule = ("plan = fibers x ops (give/take/select/rselect/close/sleep/yield) over channels with seeded capacities, "
            "generated from the run seed; a run is non-trivial when at least one operation blocked or a select/close "
            "was executed; distinct = distinct sha256(plan, fired faults)")
    assumptions = ["single event loop thread; interleavings are produced by seeded sleeps/yields on the simulated clock "
                   "(the loop's FIFO run queue is deterministic)",
                   "the reference model encodes the documented channel semantics; service order among several "
                   "waiting fibers is left open (any choice that explains the history is accepted)"]

    # ---- generation ----
    def gen(self, seed, tier):
        r = rng_for(seed)
        mode = r.choice(["small", "small", "small", "medium", "bulk"])
        if mode == "small":
            nch, nf, maxops, maxcap = r.randint(1, 3), r.randint(2, 4), 4, 2
        elif mode == "medium":
            nch, nf, maxops, maxcap = r.randint(1, 3), r.randint(3, 6), 8, 3
        else:
            nch, nf, maxops, maxcap = r.randint(1, 2), r.randint(2, 5), 40, r.choice([5, 17, 40, 70])
        caps = [r.randint(0, maxcap) for _ in range(nch)]
        # exotic plans let one select name the same channel in several clauses (a select that can
        # match itself); violations found there carry their own signature suffix
        exotic = r.random() < 0.1
        w_sel = r.choice([0, 0.1, 0.25, 0.5])
        w_close = r.choice([0, 0.03, 0.08, 0.15])
        w_sleep = r.choice([0.05, 0.15, 0.3])
        fibers = []
        for f in range(nf):
            bias = r.random()  # giver- or taker-leaning fiber
            nops = r.randint(1, maxops)
            ops = []
            for i in range(nops):
                u = r.random()
                c = r.randrange(nch)
                v = f * 1000 + i
                if u < w_sleep:
                    ops.append({"op": "sleep", "ms": r.choice([0, 0, 1, 1, 2, 3, 5])})
                elif u < w_sleep + w_close:
                    ops.append({"op": "close", "ch": c})
                elif u < w_sleep + w_close + w_sel:
                    ncl = r.randint(1, 3)
                    clauses = []
                    used = set()
                    for k in range(ncl):
                        cc = r.randrange(nch)
                        if cc in used and not exotic:
                            continue
                        if r.random() < 0.5:
                            clauses.append({"give": cc, "v": f * 1000 + i * 10 + k + 500})
                        else:
                            clauses.append({"take": cc})
                        used.add(cc)
                    ops.append({"op": r.choice(["select", "select", "rselect"]), "clauses": clauses})
                elif r.random() < bias:
                    ops.append({"op": "give", "ch": c, "v": v})
                else:
                    ops.append({"op": "take", "ch": c})
            fibers.append({"id": f, "ops": ops})
        knobs = {"seed": seed, "clock_phase_ns": r.choice([0, 0, 137000, 999000]),
                 "p": {"clock_jump": r.choice([0, 0, 0.2])}}
        return {"property": "C06", "knobs": knobs, "caps": caps, "fibers": fibers}

    @staticmethod
    def plan_class(plan):
        for fb in plan["fibers"]:
            for op in fb["ops"]:
                if op["op"] in ("select", "rselect"):
                    cs = [c.get("give", c.get("take")) for c in op["clauses"]]
                    if len(set(cs)) != len(cs):
                        return "/select-names-a-channel-twice"
        return ""

    # ---- rendering ----
    def render(self, plan):
        L = []
        L.append("(def chans @[%s])" % " ".join("(ev/chan %d)" % c for c in plan["caps"]))
        L.append("(defn cid [c] (find-index |(= $ c) chans))")
        for fb in plan["fibers"]:
            f = fb["id"]
            L.append("(defn fiber%d []" % f)
            for i, op in enumerate(fb["ops"]):
                k = op["op"]
                if k == "sleep":
                    L.append("  (ev/sleep %s)" % (op["ms"] / 1000.0))
                    continue
                if k == "give":
                    L.append("  (sim/ev :inv %d %d)" % (f, i))
                    L.append("  (try (sim/ev :ret %d %d (if (ev/give (chans %d) %d) :ok :closed)) ([e] (sim/ev :ret %d %d :err e)))"
                             % (f, i, op["ch"], op["v"], f, i))
                elif k == "take":
                    L.append("  (sim/ev :inv %d %d)" % (f, i))
                    L.append("  (try (sim/ev :ret %d %d :v (ev/take (chans %d))) ([e] (sim/ev :ret %d %d :err e)))"
                             % (f, i, op["ch"], f, i))
                elif k == "close":
                    L.append("  (sim/ev :inv %d %d)" % (f, i))
                    L.append("  (ev/chan-close (chans %d))" % op["ch"])
                    L.append("  (sim/ev :ret %d %d :ok)" % (f, i))
                else:
                    cl = " ".join("[(chans %d) %d]" % (c["give"], c["v"]) if "give" in c else "(chans %d)" % c["take"]
                                  for c in op["clauses"])
                    L.append("  (sim/ev :inv %d %d)" % (f, i))
                    L.append("  (try (let [res (ev/%s %s)] (sim/ev :ret %d %d (res 0) (cid (res 1)) (get res 2))) ([e] (sim/ev :ret %d %d :err e)))"
                             % (k, cl, f, i, f, i))
            L.append("  (sim/ev :done %d))" % f)
        for fb in plan["fibers"]:
            L.append("(ev/go fiber%d)" % fb["id"])
        return make_request(plan["knobs"], "\n".join(L))

    # ---- oracle ----
    @classmethod
    def parse_ret(cls, op, toks):
        try:
            return cls.parse_ret1(op, toks)
        except (ValueError, IndexError):
            # e.g. a take resumed with a select result tuple: keep the class of the raw value only
            raw = " ".join(toks[1:])
            return ("raw", "tuple" if raw.startswith("(") else "other")

    @staticmethod
    def parse_ret1(op, toks):
        """history payload tokens after (f i) -> model result"""
        k = op["op"]
        if toks[0] == ":err":
            return "err"
        if k == "give":
            return "ok" if toks[0] == ":ok" else "closed"
        if k == "take":
            return "nil" if toks[1] == "nil" else ("v", int(toks[1]))
        if k == "close":
            return "ok"
        tag = toks[0]
        c = int(toks[1]) if toks[1] != "nil" else -1
        if tag == ":give":
            return ("give", c)
        if tag == ":close":
            return ("close", c)
        if tag == ":take":
            return ("take", c, None if toks[2] == "nil" else int(toks[2]))
        return ("?", tag)

    def check(self, plan, res):
        vs = []
        if res.outcome not in ("ok", "deadlock"):
            return [Violation("C06/run/%s" % res.outcome.split(":")[0], (res.log or "")[-400:])]
        ops = {(fb["id"], i): op for fb in plan["fibers"] for i, op in enumerate(fb["ops"])}
        caps = plan["caps"]
        model = chanmodel.Replay(caps, len(plan["fibers"]))
        pending = {}
        vseq = {}       # id(violation) -> sequence number of the event that showed it (absent: known only at the end)
        fail_seq = None
        given = {}      # value -> (channel, fiber, kind)
        for (f, i), op in ops.items():
            if op["op"] == "give":
                given[op["v"]] = (op["ch"], f, "give", (f, i))
            elif op["op"] in ("select", "rselect"):
                for cl in op["clauses"]:
                    if "give" in cl:
                        given[cl["v"]] = (cl["give"], f, "select", (f, i))
        received = {}   # value -> (fiber, seq)
        sel_result = {}
        recv_order = {}  # (giver, taker, ch) -> [values]
        too_wide = False
        try:
            for e in res.events:
                if e.kind == "inv":
                    f, i = (int(x) for x in e.payload.split(" "))
                    op = ops[(f, i)]
                    pending[f] = (i, op)
                    model.inv(f, op)
                    if model.fail and fail_seq is None:
                        fail_seq = e.seq
                elif e.kind == "ret":
                    toks = e.payload.split(" ")
                    f, i = int(toks[0]), int(toks[1])
                    op = ops[(f, i)]
                    r = self.parse_ret(op, toks[2:])
                    pending.pop(f, None)
                    # --- independent checkers: conservation, exactly-once, pairwise order ---
                    got = None
                    if op["op"] == "take" and isinstance(r, tuple) and r[0] == "v":
                        got = (op["ch"], r[1])
                    elif op["op"] in ("select", "rselect") and isinstance(r, tuple) and r[0] in ("give", "take", "close"):
                        sel_result[(f, i)] = r
                        if r[0] == "take":
                            got = (r[1], r[2])
                    if got is not None:
                        c, v = got
                        if v not in given or given[v][0] != c:
                            vs.append(Violation("C06/conservation/received-value-never-given-on-channel",
                                                "fiber %d received %r on channel %d" % (f, v, c)))
                            vseq[id(vs[-1])] = e.seq
                        elif v in received:
                            vs.append(Violation("C06/conservation/value-received-twice", "value %r" % v))
                            vseq[id(vs[-1])] = e.seq
                        else:
                            received[v] = (f, e.seq)
                            recv_order.setdefault((given[v][1], f, c), []).append(v)
                    model.ret(f, r, op)
                    if model.fail and fail_seq is None:
                        fail_seq = e.seq
        except chanmodel.TooWide:
            too_wide = True
        # phantom items: a select give clause whose value was received although the select reported another clause
        for v, (c, gf, kind, key) in given.items():
            if kind == "select" and v in received and key in sel_result:
                sr = sel_result[key]
                if not (sr[0] == "give" and sr[1] == c):
                    vs.append(Violation("C06/select/other-clause-left-a-trace/give-clause-value-received",
                                        "value %r of a give clause on channel %d was received, select returned %r" % (v, c, sr)))
        # pairwise order (plain gives only: order of invocation by the same giver)
        for (gf, tf, c), vals in recv_order.items():
            plain = [v for v in vals if given[v][2] == "give"]
            if plain != sorted(plain):
                vs.append(Violation("C06/order/pairwise-order-violated", "giver %d taker %d channel %d: %r" % (gf, tf, c, plain)))
        if not too_wide:
            fail = model.finish({f: op for f, (i, op) in pending.items()})
            if fail:
                cls, detail = fail
                # discriminating, id-free facts for the signature
                facts = ""
                if cls == "lost-wakeup":
                    f = int(detail.split(" ")[1])
                    op = pending[f][1]
                    facts = "/op=%s" % op["op"]
                    if op["op"] in ("select", "rselect"):
                        # which clause kind did the model match?
                        for chans, fibers in model.states:
                            if fibers[f] and fibers[f][0] == "R":
                                facts += "/matched=%s" % fibers[f][1][0]
                                break
                elif cls in ("wrong-result", "returned-while-unmatched"):
                    f = int(detail.split(" ")[1])
                    facts = "/op=%s" % detail.split(" ")[3]
                vs.append(Violation("C06/model/%s%s" % (cls, facts), detail))
                if cls != "lost-wakeup" and fail_seq is not None:
                    vseq[id(vs[-1])] = fail_seq
        # Attribution to the two recorded findings (see known_findings.json, DESIGN.md 5):
        #  * a select that names one channel in several clauses can match itself;
        #  * a select whose *blocked* give clause is abandoned (it returned through another clause)
        #    leaves that clause's item in the channel: from then on the channel holds an item nobody
        #    gave, and every later verdict of this run is a consequence of it.
        if vs:
            if self.plan_class(plan):
                vs = [Violation("C06/select-names-a-channel-twice/select-can-match-itself", vs[0].sig + ": " + vs[0].detail)]
            else:
                taint, since = self.abandoned_give_clause(ops, res)
                if taint:
                    # (what the history showed before the earliest such select was even invoked cannot be a
                    # consequence of the item it left behind)
                    before = [v for v in vs if vseq.get(id(v), 1 << 60) < since]
                    if before:
                        vs = before
                    else:
                        vs = [Violation("C06/select/abandoned-blocked-give-clause-item-stays-in-channel",
                                        "%s; first consequence: %s: %s" % (taint, vs[0].sig, vs[0].detail))]
        # de-duplicate signatures
        seen = set()
        out = []
        for v in vs:
            if v.sig not in seen:
                seen.add(v.sig)
                out.append(v)
        return out

    def abandoned_give_clause(self, ops, res):
        """the earliest-invoked select that had to wait, had a give clause, and returned through another clause
        -> (description, sequence number of its invocation) or (None, None)"""
        best = (None, None)
        inv_seq = {}
        for e in res.events:
            if e.kind == "inv":
                f, i = (int(x) for x in e.payload.split(" "))
                inv_seq[(f, i)] = e.seq
            elif e.kind == "ret":
                toks = e.payload.split(" ")
                f, i = int(toks[0]), int(toks[1])
                op = ops[(f, i)]
                if op["op"] not in ("select", "rselect"):
                    continue
                if e.seq == inv_seq.get((f, i), -9) + 1:
                    continue  # completed without waiting: nothing was registered
                r = self.parse_ret(op, toks[2:])
                gives = [c for c in op["clauses"] if "give" in c]
                left = [c for c in gives if not (r[0] == "give" and r[1] == c["give"])]
                if left and (best[1] is None or inv_seq.get((f, i), 0) < best[1]):
                    best = ("fiber %d select %r returned %r leaving give clause(s) %r behind" % (f, op["clauses"], r, left), inv_seq.get((f, i), 0))
        return best

    def nontrivial(self, plan, res):
        # some operation had to wait, or a select/close ran
        for fb in plan["fibers"]:
            for op in fb["ops"]:
                if op["op"] in ("select", "rselect", "close"):
                    return True
        invs = {}
        for e in res.events:
            if e.kind == "inv":
                invs[e.payload] = e.seq
            elif e.kind == "ret":
                key = " ".join(e.payload.split(" ")[:2])
                if key in invs and e.seq != invs[key] + 1:
                    return True
        return res.outcome != "ok"

    def extra(self, plan, res):
        blocked = 0
        invs = {}
        for e in res.events:
            if e.kind == "inv":
                invs[e.payload] = e.seq
            elif e.kind == "ret":
                key = " ".join(e.payload.split(" ")[:2])
                if key in invs and e.seq != invs.pop(key) + 1:
                    blocked += 1
        return {"blocked_ops": blocked, "never_returned": len(invs),
                "selects": sum(1 for fb in plan["fibers"] for op in fb["ops"] if op["op"] in ("select", "rselect"))}

    def aggregate(self, extras):
        p = {"op_blocked_then_resumed": sum(x["blocked_ops"] for x in extras if x),
             "op_never_returned": sum(x["never_returned"] for x in extras if x),
             "select_executed": sum(x["selects"] for x in extras if x)}
        return {"probes": p}

    required_probes = ["op_blocked_then_resumed", "select_executed"]

    # ---- shrinking ----
    def shrink(self, plan):
        # drop a whole fiber, drop one op, drop a select clause, reduce capacities/sleeps
        P = json.loads(json.dumps(plan))
        for fi in range(len(P["fibers"])):
            if len(P["fibers"]) > 1:
                q = json.loads(json.dumps(P))
                del q["fibers"][fi]
                for k, fb in enumerate(q["fibers"]):
                    fb["id"] = k
                yield q
        for fi, fb in enumerate(P["fibers"]):
            n = len(fb["ops"])
            size = n // 2
            while size >= 2:
                for start in range(0, n, size):
                    q = json.loads(json.dumps(P))
                    del q["fibers"][fi]["ops"][start:start + size]
                    yield q
                size //= 2
        for fi, fb in enumerate(P["fibers"]):
            for oi in range(len(fb["ops"])):
                q = json.loads(json.dumps(P))
                del q["fibers"][fi]["ops"][oi]
                yield q
        for fi, fb in enumerate(P["fibers"]):
            for oi, op in enumerate(fb["ops"]):
                if op["op"] in ("select", "rselect") and len(op["clauses"]) > 1:
                    for ci in range(len(op["clauses"])):
                        q = json.loads(json.dumps(P))
                        del q["fibers"][fi]["ops"][oi]["clauses"][ci]
                        yield q
                if op["op"] == "rselect":
                    q = json.loads(json.dumps(P))
                    q["fibers"][fi]["ops"][oi]["op"] = "select"
                    yield q
                if op["op"] == "sleep" and op["ms"] > 0:
                    q = json.loads(json.dumps(P))
                    q["fibers"][fi]["ops"][oi]["ms"] = 0
                    yield q
        for ci, c in enumerate(P["caps"]):
            if c > 0:
                q = json.loads(json.dumps(P))
                q["caps"][ci] = c - 1
                yield q
        if P["knobs"].get("clock_phase_ns") or any(P["knobs"].get("p", {}).values()):
            q = json.loads(json.dumps(P))
            q["knobs"]["clock_phase_ns"] = 0
            q["knobs"]["p"] = {}
            yield q


DRIVER = C06
