"""Build jsim (Janet core from /repo's working tree + simulator) per flavour.

Everything is rebuilt from /repo/src when the hash of the sources (or of the
simulator sources / flags) changes; warm builds cost nothing.
"""
import hashlib
import os
import shutil
import subprocess
import sys
import time
from concurrent.futures import ThreadPoolExecutor

VERIF = os.path.dirname(os.path.dirname(os.path.abspath(__file__)))
REPO = os.environ.get("VERIF_REPO", "/repo")
BUILD = os.path.join(VERIF, "build")
SIM = os.path.join(VERIF, "sim")
GUARD = "JANET_VERIF_SIM"

CORE_SRC = """abstract array asm buffer bytecode capi cfuns compile corelib debug emit ev ffi
fiber filewatch gc inttypes io marsh math net os parse peg pp regalloc run specials state
string strtod struct symcache table tuple util value vector vm wrap""".split()
BOOT_SRC = "array_test boot buffer_test number_test system_test table_test".split()

# libc entry points that go through the simulator (link-time --wrap)
WRAPS = """clock_gettime time nanosleep sleep timerfd_create timerfd_settime
epoll_create1 epoll_ctl epoll_wait
read write recv send recvfrom sendto accept4 accept connect close pipe pipe2 socket dup dup2 fcntl fcntl64 shutdown bind listen
pthread_create pthread_join pthread_cancel pthread_mutex_lock pthread_mutex_unlock
pthread_rwlock_rdlock pthread_rwlock_wrlock pthread_rwlock_unlock
posix_spawn posix_spawnp posix_spawn_file_actions_init posix_spawn_file_actions_adddup2
posix_spawn_file_actions_addclose posix_spawn_file_actions_addchdir_np posix_spawn_file_actions_destroy
waitpid kill fork execv execvp system
open64 fopen64 opendir stat64 lstat64 readlink realpath remove rename mkdir rmdir chmod chdir
link symlink utime umask tmpfile64 inotify_init1 inotify_add_watch
getenv setenv unsetenv dlopen getaddrinfo sigaction
open fopen stat lstat tmpfile
janet_init janet_deinit malloc calloc realloc free""".split()

# imported symbols that are known and deliberately NOT wrapped (pure, or act on
# descriptors/objects the seam has already seen).  A new import that is in neither
# list makes the build fail (exit 2): a change cannot silently bypass the simulator.
KNOWN_PURE = set("""
__assert_fail __ctype_b_loc __ctype_tolower_loc __ctype_toupper_loc __errno_location
__isoc99_sscanf __isoc99_fscanf __stack_chk_fail __sigsetjmp _setjmp longjmp siglongjmp __longjmp_chk
abort exit _exit _Exit atexit
malloc calloc realloc free memcpy memmove memset memcmp memchr strlen strcmp strncmp strcpy strncpy
bcmp strchr strrchr strstr strerror strerror_r __xpg_strerror_r strtol strtoul strtod strcat strdup
snprintf sprintf vsnprintf fprintf printf puts putchar fputs fputc putc fwrite fread fflush fclose fgetc getc ungetc
fseek ftell fseeko64 ftello64 fseeko ftello feof ferror clearerr setvbuf fileno fdopen fgets getline getchar
stdin stdout stderr popen pclose perror
acos acosh asin asinh atan atan2 atanh cbrt ceil cos cosh erf erfc exp exp2 expm1 fabs floor fmod frexp
hypot ldexp lgamma log log10 log1p log2 modf nextafter pow round sin sinh sqrt tan tanh tgamma trunc
isatty getpid getppid getuid geteuid getcwd gethostname uname access isalnum
mktime localtime_r gmtime_r strftime tzset timegm localtime gmtime
fcntl fcntl64 setsockopt getsockopt getsockname getpeername freeaddrinfo gai_strerror
inet_ntop inet_pton htons ntohs htonl ntohl
pthread_attr_init pthread_attr_setdetachstate pthread_attr_destroy pthread_self pthread_exit pthread_kill
pthread_mutex_init pthread_mutex_destroy pthread_rwlock_init pthread_rwlock_destroy pthread_sigmask
pthread_mutexattr_init pthread_mutexattr_settype pthread_mutexattr_destroy pthread_detach
sigemptyset sigaddset sigfillset sigprocmask signal raise
dlsym dlclose dlerror mmap munmap mprotect mmap64
readdir closedir readdir64 environ tcgetattr tcsetattr ioctl
qsort bsearch rand srand getrandom arc4random_buf
posix_spawnattr_init posix_spawnattr_destroy posix_spawnattr_setflags posix_spawnattr_setsigmask posix_spawnattr_setsigdefault
fstat fstat64 ftruncate ftruncate64 fsync lseek lseek64 utimes futimes utimensat futimens mkstemp mkdtemp
setlocale nl_langinfo execve execl wait wait4 __fdelt_chk strtoll strtoull strnlen memrchr
__memcpy_chk __memset_chk __strcpy_chk __snprintf_chk __sprintf_chk __fprintf_chk __printf_chk __vsnprintf_chk
__strcat_chk __strncpy_chk __read_chk __memmove_chk __fread_chk __realpath_chk __readlink_chk __fgets_chk
__isnan __isinf __finite __fpclassify __signbit __isnanf __isinff
sched_getaffinity __sched_cpucount poll select timerfd_gettime inotify_rm_watch strsignal sched_yield usleep
""".split())


def log(*a):
    print("[build]", *a, file=sys.stderr, flush=True)


def sha(paths, extra=""):
    h = hashlib.sha256()
    h.update(extra.encode())
    for p in sorted(paths):
        h.update(p.encode())
        with open(p, "rb") as f:
            h.update(f.read())
    return h.hexdigest()[:16]


def repo_sources():
    out = []
    for d in ("src/core", "src/include", "src/conf", "src/boot"):
        full = os.path.join(REPO, d)
        for fn in sorted(os.listdir(full)):
            out.append(os.path.join(full, fn))
    return out


def sim_sources():
    return [os.path.join(SIM, f) for f in sorted(os.listdir(SIM)) if f.endswith((".c", ".h"))]


UBSAN = "bounds,null,object-size,vla-bound,nonnull-attribute,returns-nonnull-attribute,unreachable,return"

FLAVOURS = {
    # name: (cc, cflags for janet, cflags for sim objects, ldflags)
    "plain": ("gcc", ["-O2", "-g"], ["-O2", "-g"], []),
    # UBSan is restricted to the memory-related checks (the properties speak about memory errors,
    # not about e.g. float->int conversion of NaN, which Janet does in a few places)
    "asan": ("clang", ["-O1", "-g", "-fsanitize=address," + UBSAN, "-fno-sanitize-recover=" + UBSAN,
                       "-fno-omit-frame-pointer", "-DJANET_DEBUG"],
             ["-O1", "-g", "-fsanitize=address", "-fno-omit-frame-pointer"],
             ["-fsanitize=address," + UBSAN]),
    "tsan": ("clang", ["-O1", "-g", "-fsanitize=thread", "-fno-omit-frame-pointer"],
             ["-O1", "-g"],  # scheduler objects are NOT instrumented: hand-over invisible to TSan
             ["-fsanitize=thread"]),
}


def run(cmd, **kw):
    r = subprocess.run(cmd, stdout=subprocess.PIPE, stderr=subprocess.STDOUT, text=True, **kw)
    if r.returncode != 0:
        log("FAILED:", " ".join(cmd))
        sys.stderr.write(r.stdout)
        raise SystemExit(2)
    return r.stdout


def par(cmds):
    with ThreadPoolExecutor(max_workers=os.cpu_count() or 4) as ex:
        list(ex.map(run, cmds))


def prune(prefix, keep):
    """remove old build dirs with this prefix, keeping `keep`"""
    if not os.path.isdir(BUILD):
        return
    ds = [d for d in os.listdir(BUILD) if d.startswith(prefix + "-") and os.path.join(BUILD, d) != keep]
    ds.sort(key=lambda d: os.path.getmtime(os.path.join(BUILD, d)))
    # keep the 8 most recent per flavour (several trees may be under test at once), drop
    # anything else that has not been used for an hour
    now = time.time()
    for d in ds[:-8] if len(ds) > 8 else []:
        if now - os.path.getmtime(os.path.join(BUILD, d)) > 3600 or len(ds) > 24:
            shutil.rmtree(os.path.join(BUILD, d), ignore_errors=True)


def build_boot():
    """janet-boot from the working tree -> core_image.c (image only)"""
    h = sha(repo_sources(), "boot1")
    d = os.path.join(BUILD, "boot-" + h)
    img = os.path.join(d, "core_image.c")
    if os.path.exists(img):
        return img
    t0 = time.time()
    tmp = d + ".tmp%d" % os.getpid()
    shutil.rmtree(tmp, ignore_errors=True)
    os.makedirs(tmp)
    inc = ["-I" + os.path.join(REPO, "src/include"), "-I" + os.path.join(REPO, "src/conf")]
    cmds = []
    objs = []
    for s in CORE_SRC:
        o = os.path.join(tmp, s + ".o")
        objs.append(o)
        cmds.append(["gcc", "-std=c99", "-O1", "-DJANET_BOOTSTRAP"] + inc +
                    ["-c", os.path.join(REPO, "src/core", s + ".c"), "-o", o])
    for s in BOOT_SRC:
        o = os.path.join(tmp, "boot_" + s + ".o")
        objs.append(o)
        cmds.append(["gcc", "-std=c99", "-O1", "-DJANET_BOOTSTRAP"] + inc +
                    ["-c", os.path.join(REPO, "src/boot", s + ".c"), "-o", o])
    par(cmds)
    run(["gcc", "-o", os.path.join(tmp, "janet-boot")] + objs + ["-lm", "-ldl", "-lpthread"])
    out = run([os.path.join(tmp, "janet-boot"), REPO, "JANET_PATH", "/usr/local/lib/janet", "image-only"])
    with open(os.path.join(tmp, "core_image.c"), "w") as f:
        f.write(out)
    for o in objs:
        os.unlink(o)
    if os.path.exists(d):
        shutil.rmtree(tmp, ignore_errors=True)
    else:
        os.rename(tmp, d)
    prune("boot", d)
    log("boot image built in %.1fs" % (time.time() - t0))
    return img


def check_imports(objs):
    out = run(["nm", "-u"] + objs)
    syms = set()
    for line in out.splitlines():
        parts = line.split()
        if len(parts) == 2 and parts[0] in ("U", "w"):
            syms.add(parts[1].split("@")[0])
    defined = set()
    out = run(["nm", "--defined-only"] + objs)
    for line in out.splitlines():
        parts = line.split()
        if len(parts) == 3:
            defined.add(parts[2])
    unknown = []
    for s in sorted(syms - defined):
        if s in WRAPS or s in KNOWN_PURE:
            continue
        if s.startswith(("__asan", "__ubsan", "__tsan", "__sanitizer", "__gcov", "_GLOBAL_OFFSET", "__stack_chk",
                         "__gmon", "__builtin", "janet_verif_", "__real_", "__wrap_", "jsim_")):
            continue
        unknown.append(s)
    return unknown


def build(flavour):
    """returns path of the jsim binary for this flavour (building if needed)"""
    cc, jflags, sflags, ldflags = FLAVOURS[flavour]
    h = sha(repo_sources() + sim_sources(), flavour + " ".join(jflags + sflags + ldflags) + " ".join(WRAPS) + "v3")
    d = os.path.join(BUILD, "%s-%s" % (flavour, h))
    exe = os.path.join(d, "jsim")
    if os.path.exists(exe):
        os.utime(d)
        return exe
    os.makedirs(BUILD, exist_ok=True)
    img = build_boot()
    t0 = time.time()
    tmp = d + ".tmp%d" % os.getpid()
    shutil.rmtree(tmp, ignore_errors=True)
    os.makedirs(tmp)
    inc = ["-I" + os.path.join(REPO, "src/include"), "-I" + os.path.join(REPO, "src/conf")]
    sinc = inc + ["-iquote", os.path.join(REPO, "src/core"), "-iquote", SIM]
    cmds, jobjs, sobjs = [], [], []
    common = ["-D" + GUARD]
    for s in CORE_SRC:
        o = os.path.join(tmp, s + ".o")
        jobjs.append(o)
        cmds.append([cc, "-std=c99"] + jflags + common + inc + ["-c", os.path.join(REPO, "src/core", s + ".c"), "-o", o])
    o = os.path.join(tmp, "core_image.o")
    jobjs.append(o)
    cmds.append([cc, "-std=c99", "-O0"] + inc + ["-c", img, "-o", o])
    for f in sorted(os.listdir(SIM)):
        if f.endswith(".c"):
            o = os.path.join(tmp, "sim_" + f[:-2] + ".o")
            sobjs.append(o)
            # jsim.c (harness cfuns, canonical printer) is instrumented like Janet; the
            # scheduler/seam objects are not (see DESIGN 2.3, TSan)
            fl = jflags if f in ("jsim.c",) else sflags
            cmds.append([cc, "-std=gnu11"] + fl + common + ["-DSIM_FLAVOUR=\"%s\"" % flavour] + sinc +
                        ["-c", os.path.join(SIM, f), "-o", o])
    par(cmds)
    unknown = check_imports(jobjs)
    if unknown:
        log("unclassified libc imports in Janet objects (add to WRAPS or KNOWN_PURE after review):", " ".join(unknown))
        raise SystemExit(2)
    wraps = ["-Wl,--wrap=" + w for w in WRAPS]
    run([cc, "-o", os.path.join(tmp, "jsim")] + jobjs + sobjs + ldflags + wraps + ["-rdynamic", "-lm", "-ldl", "-lpthread"])
    for o in jobjs + sobjs:
        os.unlink(o)
    if os.path.exists(d):
        shutil.rmtree(tmp, ignore_errors=True)
    else:
        os.rename(tmp, d)
    prune(flavour, d)
    log("%s built in %.1fs -> %s" % (flavour, time.time() - t0, exe))
    return exe


if __name__ == "__main__":
    for fl in sys.argv[1:] or ["plain"]:
        print(build(fl))
