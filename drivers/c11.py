"""C11 - parser output depends only on the bytes; data prints (%j) and parses back.

One jsim run = a few cases; one case = one source text: the reference (one byte at a time
through parser/byte with the canonical driver protocol) and ~8 delivery schedules (chunk
boundaries, delivering API, interleaved observers, drain now/later, clone = checkpoint/restore,
fresh parser after a flushed error).  The comparison is done inside the Janet script
(c11_janet.py); the history carries the mismatches and a summary.  Texts come from c11_gen.py."""
import json
import random

from common import Driver, Violation, make_request
import c11_gen as G
from c11_janet import PRELUDE

APIS = ["consume", "consume-index", "byte", "mixed"]
INSIDE = {"esc": "split_inside_escape", "lsd": "split_inside_longstring_delim", "utf8": "split_inside_utf8",
          "tok": "split_inside_token", "crlf": "split_crlf_planned"}


# which symptom names a case's verdict when several schedules of the case disagree with the reference
KIND_RANK = {k: i for i, k in enumerate([
    "panic", "consume-count", "consume-stopped-without-error",
    "value-differs", "value-vs-error", "items-missing", "items-extra", "error-message-differs",
    "sourcemap-differs", "root-position-differs", "error-position-differs", "where", "final-status",
    "status", "has-more", "state-delimiters", "state-frames"], 1)}


def jbool(x):
    return "true" if x else "false"


def sched_boundaries(S, text):
    """mirror of (boundaries ...) in the script for texts the plan knows (no seeded clones)"""
    n = len(text)
    marks = set(c for c in S.get("cuts", []) if 0 < c < n)
    sz = S.get("sizes") or []
    if sz:
        o = i = 0
        while o < n:
            marks.add(o)
            o += max(1, sz[i % len(sz)])
            i += 1
    ca = set(S.get("cutafter") or [])
    if ca:
        for i, b in enumerate(text):
            if b in ca:
                marks.add(i + 1)
    for c in S.get("clones", {}):
        if 0 < int(c) <= n:
            marks.add(int(c))
    marks.add(n)
    marks.discard(0)
    return sorted(marks)


class C11(Driver):
    prop = "C11"
    level = "exploration"
    flavours = ["asan"]
    rule = ("plan = 2..4 cases; case = one source text (grammar output with deliberate errors / values printed with %j by Janet / random "
            "bytes) x ~8 delivery schedules (chunk boundaries incl. splits inside tokens, escapes, long-string "
            "delimiters, UTF-8 sequences and CR LF; parser/consume with/without index, parser/byte; interleaved "
            "status/has-more/where/state; drain now, later or partially; clone and continue on the clone with the "
            "original trashed, dropped or continued; fresh parser after a flushed error); a run is non-trivial when a "
            "schedule has at least two chunks; distinct = distinct sha256(plan)")
    assumptions = ["the reference is the same parser driven one byte at a time (parser/byte) with the canonical protocol: "
                   "drain after every byte, record and clear an error at once, parser/eof at the end; the check is "
                   "schedule-independence, not an independent grammar",
                   "parser/error is always preceded by a full drain (documented: it flushes the queue)",
                   "after parser/error (flush) a parser equals a fresh one at the same line/column, except for the CR "
                   "lookback (not exercised when the error byte is CR)",
                   "dictionary entries are compared as sorted multisets of canonical entry texts; numbers by %.17g",
                   "parser/insert is out of scope; a refusal of %j is accepted, only a successful print must parse back"]
    components = {
        "real": ["parser (parse.c)", "printer %j (pp.c, strtod.c)", "number scanner", "interpreter", "collector",
                 "tuple source maps"],
        "simulated": ["delivery schedule of the byte stream: chunk boundaries, delivering API, observer calls, "
                      "drain points, clone/checkpoint points, collector schedule"],
        "stub": [],
    }
    budgets = {"quick": 60, "thorough": 900}
    required_probes = ["split_inside_longstring_delim", "split_inside_escape", "split_crlf", "clone_mid_token",
                       "error_item_seen", "roundtrip_checked"]
    timeout_ms = 120000

    # ---- generation ----
    def gen(self, seed, tier):
        r = random.Random(seed)
        plan = {"property": "C11", "flavour": "asan", "knobs": {"seed": seed}}
        # one run carries several cases (text x schedules): the fixed cost of a run (fork, compiling the
        # script under ASan) is ~40 ms, a case costs 10..50 ms
        cases = []
        size = 0
        for _ in range(r.choice([2, 3, 3, 4])):
            c = self.gen_case(r)
            cases.append(c)
            size += len(c.get("text", "")) // 2 + 100
            if size > 1200:
                break
        plan["cases"] = cases
        # collector schedule on top of Janet's own interval: a forced collection costs ~1 ms under ASan and a
        # run has ~150 safepoints per byte of text, so: sparse Bernoulli, or every safepoint within a window
        lo = r.randrange(0, 150 * size)
        gc = r.choice(["never", "never", "never", "bern 0.0005", "bern 0.0005", "bern 0.002",
                       "burst 0 %d %d" % (lo, lo + r.choice([50, 200]))])
        plan["knobs"]["gc"] = gc
        plan["gc"] = gc != "never"
        return plan

    def gen_case(self, r):
        u = r.random()
        case = {}
        if u < 0.5:
            text, spans = G.gen_grammar(r)
            case.update(kind="grammar", text=text.hex(), spans=spans)
        elif u < 0.7:
            text = G.gen_random(r)
            case.update(kind="random", text=text.hex(), spans=[])
        else:
            exprs, seps, tricky, unprintable = G.gen_values(r)
            text = None
            case.update(kind="jdn", vals=exprs, seps=seps, tricky=tricky, unprintable=unprintable)
        n = len(text) if text is not None else None
        ns = r.choice([4, 6, 8, 8, 8, 10]) if (n is None or n < 300) else r.choice([3, 4, 6])
        bias = (case.get("spans") or []) + (G.scan_spans(text) if text is not None else [])
        case["scheds"] = [self.gen_sched(r, i, text, bias) for i in range(ns)]
        return case

    def gen_sched(self, r, idx, text, bias):
        n = len(text) if text is not None else None
        S = {"cls": r.choice(["chunking"] * 4 + ["clone"] * 3 + ["flush"] * 2),
             "api": r.choice([0, 0, 1, 2, 3, 3]),
             "cuts": [], "sizes": [], "cutafter": [],
             "drain": r.choice([0, 0, 1, 2, 2]),
             "obs": r.choice([0, 0, 63, 63, r.randrange(64), r.randrange(64)]),
             "obsp": r.choice([1.0, 0.5, 0.2, 0.05]),
             "clones": {}, "clonemodes": [], "fresh": False,
             "wrap": r.random() < 0.8, "rseed": r.randrange(1 << 30), "gc": r.random() < 0.5}
        if idx == 0:
            # the usual way a parser is driven: the whole text in one call, values fetched afterwards
            S.update(cls="chunking", api=0, drain=1, obs=0)
            return S
        S["fresh"] = S["cls"] == "flush"
        # chunk boundaries
        strat = r.choice(["bytes", "random", "random", "biased", "biased", "biased", "few", "sizes"])
        if n is None:
            strat = r.choice(["bytes", "sizes", "sizes", "after", "after", "after"])
        if strat == "bytes":
            S["sizes"] = [1]
        elif strat == "sizes":
            S["sizes"] = [r.choice([1, 1, 2, 3, 4, 5, 7, 16, 64]) for _ in range(r.randint(1, 6))]
        elif strat == "after":
            # texts printed at run time: cut after bytes that start something (escape, number sign, CR, ...)
            S["cutafter"] = sorted(set(r.choice([92, 92, 92, 13, 13, 120, 64, 45, 46, 101, 34, 34, 48, 195, 226, 240, 32, 40])
                                       for _ in range(r.randint(1, 4))))
            if r.random() < 0.5:
                S["sizes"] = [r.choice([3, 5, 9, 17, 40])]
        elif strat == "random":
            p = r.choice([0.02, 0.05, 0.1, 0.3, 0.5])
            S["cuts"] = [i for i in range(1, n) if r.random() < p]
        elif strat == "few":
            S["cuts"] = sorted(set(r.randrange(1, n) for _ in range(r.randint(1, 3)))) if n > 1 else []
        else:
            cuts = set()
            inside = [s for s in bias if s[2] - s[1] >= 2]
            want = r.choice([None, None, "lsd", "esc", "crlf", "utf8"])
            pick = [s for s in inside if s[0] == want] or inside
            for _ in range(r.choice([1, 2, 4, 8, 16])):
                if pick:
                    k, a, b = r.choice(pick)
                    cuts.add(r.randrange(a + 1, b))
            if r.random() < 0.5 and n > 1:
                cuts.update(r.randrange(1, n) for _ in range(r.randint(1, 4)))
            S["cuts"] = sorted(cuts)
        # checkpoints
        if S["cls"] == "clone":
            k = r.choice([1, 1, 2, 3, 5])
            modes = [r.choice([0, 0, 1, 1, 2, 2, 3]) for _ in range(k)]
            if n is None:
                S["clonemodes"] = modes
            else:
                inside = [s for s in bias if s[2] - s[1] >= 2]
                for m in modes:
                    if inside and r.random() < 0.7:
                        kind, a, b = r.choice(inside)
                        c = r.randrange(a + 1, b)
                    else:
                        c = r.randint(1, max(1, n))
                    if 0 < c <= n:
                        S["clones"][str(c)] = m
        return S

    # ---- rendering ----
    @staticmethod
    def render_sched(i, S):
        def ints(xs):
            return "[" + " ".join(str(int(x)) for x in xs) + "]"
        clones = " ".join("%d %d" % (int(c), m) for c, m in sorted(S.get("clones", {}).items(), key=lambda kv: int(kv[0])))
        return ("{:idx %d :api %d :cuts %s :sizes %s :cutafter %s :drain %d :obs %d :obsp %s :clones {%s} :clonemodes %s "
                ":fresh %s :wrap %s :rseed %d :gc %s}" %
                (i, S["api"], ints(S.get("cuts", [])), ints(S.get("sizes", [])), ints(S.get("cutafter", [])), S["drain"],
                 S["obs"], repr(float(S.get("obsp", 1.0))), clones, ints(S.get("clonemodes", [])), jbool(S.get("fresh")),
                 jbool(S.get("wrap")), S["rseed"], jbool(S.get("gc"))))

    def render(self, plan):
        L = ["(def GC %s)" % jbool(plan.get("gc")), "(def CASES ["]
        for case in plan["cases"]:
            scheds = "'[%s]" % "\n    ".join(self.render_sched(i, S) for i, S in enumerate(case["scheds"]))
            if case["kind"] == "jdn":
                vals = "(fn [] [%s])" % "\n    ".join(case["vals"])
                seps = "[%s]" % " ".join("(string/from-bytes %s)" % " ".join(str(b) for b in s.encode()) for s in case["seps"])
                L.append(" {:vals %s\n  :seps %s\n  :scheds %s}" % (vals, seps, scheds))
            else:
                text = bytes.fromhex(case["text"])
                if text:
                    parts = ["(string/from-bytes %s)" % " ".join(str(b) for b in text[i:i + 200])
                             for i in range(0, len(text), 200)]
                    src = "(string %s)" % "\n    ".join(parts)
                else:
                    src = '""'
                L.append(" {:text %s\n  :scheds %s}" % (src, scheds))
        L.append("])")
        return make_request(plan["knobs"], "\n".join(L) + "\n" + PRELUDE)

    # ---- oracle ----
    @staticmethod
    def asan_summary(log):
        lines = (log or "").splitlines()
        for l in lines:
            if l.startswith("SUMMARY:"):
                return l.strip()
        for l in lines:
            if "ERROR: AddressSanitizer" in l or "runtime error:" in l:
                return l.strip()
        return (log or "")[-300:]

    @staticmethod
    def sanitizer_class(summary):
        # id-free: the kind of report and the function, not addresses or line numbers
        s = summary.replace("SUMMARY: ", "")
        toks = s.split()
        kind = toks[1] if len(toks) > 1 else "report"
        fn = toks[-1] if " in " in s else ""
        where = ""
        for t in toks:
            if t.startswith("/") and ".c" in t:
                where = t.split("/")[-1].split(":")[0]
        return kind

    def check(self, plan, res):
        out = res.outcome
        if out == "sanitizer" or out.startswith("crash"):
            summ = self.asan_summary(res.log)
            return [Violation("C11/crash/asan/" + self.sanitizer_class(summ) if "SUMMARY" in summ else "C11/crash/" + out.split(":")[0],
                              "%s: %s" % (out, summ))]
        if out != "ok":
            return [Violation("C11/run/%s" % out.split(":")[0], (res.log or "")[-400:])]
        evs = res.user_events()
        if not evs or evs[-1].kind != "done":
            return [Violation("C11/run/script-did-not-finish", (res.log or "")[-600:])]
        # per case (and per round-trip half) one verdict: the most fundamental symptom
        best = {}
        for e in evs:
            if e.kind != "mm":
                continue
            toks = e.payload.split(" ", 3)
            ci, idx = int(toks[0]), int(toks[1])
            kind = toks[2].strip('"')
            detail = toks[3] if len(toks) > 3 else ""
            key = (ci, idx < 0)
            rank = KIND_RANK.get(kind, 0)
            if key not in best or rank < best[key][0]:
                best[key] = (rank, idx, kind, detail)
        vs = []
        seen = set()
        for (ci, _), (rank, idx, kind, detail) in sorted(best.items()):
            case = plan["cases"][ci]
            if idx < 0:
                fact = detail.split(" ", 1)[0].strip('"')
                # attribution to the recorded finding (a symbol whose text reads as another token): the differing
                # leaf is a symbol, or the text no longer has the shape of the value and the value has such a symbol
                shape = kind in ("rt-no-value", "rt-several-items", "rt-parse-error") or fact.endswith("-length")
                if fact.startswith("symbol->") or (kind == "rt-no-value" and fact == ":symbol") \
                        or (shape and case.get("tricky")):
                    sig = "C11/roundtrip/symbol-reads-back-as-non-symbol"
                else:
                    sig = "C11/roundtrip/%s/%s" % (kind[3:], fact.lstrip(":"))
            else:
                S = case["scheds"][idx]
                # the delivering API is part of the signature only where nothing else distinguishes the schedule
                api = "/api=%s" % APIS[S["api"]] if S["cls"] == "chunking" else ""
                if kind == "where":
                    sig = "C11/where/line-column-differs/%s%s" % (S["cls"], api)
                elif kind in ("status", "has-more", "state-delimiters", "state-frames", "final-status"):
                    sig = "C11/%s/observer-differs/%s%s" % (S["cls"], kind, api)
                elif kind in ("sourcemap-differs", "root-position-differs", "error-position-differs"):
                    sig = "C11/%s/positions-differ%s" % (S["cls"], api)
                elif kind in ("value-differs", "items-missing", "items-extra", "value-vs-error", "error-message-differs"):
                    sig = "C11/%s/items-differ%s" % (S["cls"], api)
                else:
                    sig = "C11/%s/%s%s" % (S["cls"], kind, api)
            if sig not in seen:
                seen.add(sig)
                vs.append(Violation(sig, "case %d schedule %d: %s %s" % (ci, idx, kind, detail)))
        return vs

    def nontrivial(self, plan, res):
        return any(S.get("sizes") or S.get("cuts") or S.get("cutafter") or S.get("clones") or S.get("clonemodes")
                   for case in plan["cases"] for S in case["scheds"])

    def sample(self, plan, res):
        return {"plan": plan, "outcome": res.outcome}

    # ---- reach ----
    def extra(self, plan, res):
        p = {"schedules": sum(len(c["scheds"]) for c in plan["cases"]), "cases": len(plan["cases"])}

        def add(k, v):
            p[k] = p.get(k, 0) + v
        for c in plan["cases"]:
            add("texts_" + c["kind"], 1)
        for e in res.user_events():
            if e.kind == "done":
                t = e.payload.split(" ")
                names = ["_n", "_mm", "boundaries", "split_crlf", "clones", "clone_mid_token", "fresh_parser_after_error",
                         "lineages", "drain_deferred_with_values_queued", "consume_stopped_at_error"]
                for k, v in zip(names, t):
                    if not k.startswith("_"):
                        add(k, int(v))
            elif e.kind == "ref":
                t = e.payload.split(" ")
                add("error_item_seen", 1 if int(t[3]) > 0 else 0)
                add("reference_items", int(t[1]))
            elif e.kind == "rt":
                t = e.payload.split(" ")
                add("roundtrip_checked", int(t[1]))
                add("roundtrip_refused_by_printer", int(t[2]))
        for c in plan["cases"]:
            if c["kind"] == "jdn" or not c.get("spans"):
                continue
            text = bytes.fromhex(c["text"])
            for S in c["scheds"]:
                bset = set(sched_boundaries(S, text))
                for kind, a, b in c["spans"]:
                    name = INSIDE.get(kind)
                    if name and any((x in bset) for x in range(a + 1, b)):
                        add(name, 1)
        return p

    def aggregate(self, extras):
        p = {}
        for x in extras:
            for k, v in (x or {}).items():
                p[k] = p.get(k, 0) + v
        return {"probes": p, "schedules_total": p.get("schedules", 0)}

    # ---- shrinking ----
    def shrink(self, plan):
        P = json.loads(json.dumps(plan))
        nc = len(P["cases"])
        if nc > 1:
            for i in range(nc):
                q = json.loads(json.dumps(P))
                q["cases"] = [q["cases"][i]]
                yield q
            for i in range(nc):
                q = json.loads(json.dumps(P))
                del q["cases"][i]
                yield q
        if P.get("gc"):
            q = json.loads(json.dumps(P))
            q["gc"] = False
            q["knobs"]["gc"] = "never"
            yield q
        for i, case in enumerate(P["cases"]):
            for c2 in self.shrink_case(case):
                q = json.loads(json.dumps(P))
                q["cases"][i] = c2
                yield q

    def shrink_case(self, P):
        ns = len(P["scheds"])
        # fewer schedules
        if ns > 1:
            for i in range(ns):
                q = json.loads(json.dumps(P))
                q["scheds"] = [q["scheds"][i]]
                yield q
            for i in range(ns):
                q = json.loads(json.dumps(P))
                del q["scheds"][i]
                yield q
        # shorter text
        if P["kind"] == "jdn":
            if len(P["vals"]) > 1:
                for i in range(len(P["vals"])):
                    q = json.loads(json.dumps(P))
                    del q["vals"][i]
                    q["tricky"] = G.exprs_tricky(q["vals"])
                    yield q
            for i, e in enumerate(P["vals"]):
                for v in G.shrink_expr(G.parse_expr(e)):
                    q = json.loads(json.dumps(P))
                    q["vals"][i] = G.unparse_expr(v)
                    q["tricky"] = G.exprs_tricky(q["vals"])
                    yield q
        else:
            text = bytes.fromhex(P["text"])
            n = len(text)
            size = n // 2
            while size >= 1:
                for a in range(0, n, size):
                    b = min(n, a + size)
                    yield self.cut_text(P, text, a, b)
                if size == 1:
                    break
                size //= 2
        # simpler schedules
        for i, S in enumerate(P["scheds"]):
            for c in list(S.get("clones", {})):
                q = json.loads(json.dumps(P))
                del q["scheds"][i]["clones"][c]
                yield q
            if S.get("clonemodes"):
                q = json.loads(json.dumps(P))
                q["scheds"][i]["clonemodes"] = S["clonemodes"][:-1]
                yield q
            cuts = S.get("cuts", [])
            if len(cuts) > 1:
                for half in (cuts[:len(cuts) // 2], cuts[len(cuts) // 2:]):
                    q = json.loads(json.dumps(P))
                    q["scheds"][i]["cuts"] = half
                    yield q
            if len(cuts) <= 12:
                for j in range(len(cuts)):
                    q = json.loads(json.dumps(P))
                    del q["scheds"][i]["cuts"][j]
                    yield q
            for key, simple in (("obs", 0), ("drain", 0), ("api", 0), ("gc", False), ("cutafter", [])):
                if S.get(key):
                    q = json.loads(json.dumps(P))
                    q["scheds"][i][key] = simple
                    yield q

    @staticmethod
    def cut_text(P, text, a, b):
        """plan with text[a:b] removed; offsets of cuts and clones follow the bytes"""
        q = json.loads(json.dumps(P))
        q["text"] = (text[:a] + text[b:]).hex()
        q["spans"] = []

        def mp(c):
            c = int(c)
            return c if c <= a else (a if c < b else c - (b - a))
        n2 = len(text) - (b - a)
        for S in q["scheds"]:
            S["cuts"] = sorted(set(x for x in (mp(c) for c in S.get("cuts", [])) if 0 < x < n2))
            S["clones"] = {str(mp(c)): m for c, m in S.get("clones", {}).items() if 0 < mp(c) <= n2}
        return q


DRIVER = C11
