"""C10 helper: Janet sources (seed corpus builder, harness prelude, asm base functions)."""

CORPUS_SRC = r'''(def corpus @[])
(defn add [name x &opt dict]
  (var d (if dict true false))
  (def img (if d (marshal x make-image-dict)
             (try (marshal x) ([e] (set d true) (marshal x make-image-dict)))))
  (array/push corpus [name img x d]))

(def denv (make-env))
(put denv :debug true)
(defn dcompile [form] ((compile form denv "c10src.janet")))

# 1. nested data
(add "data" {:a 1 :b [1 2.5 "str" :kw 'sym @"buf"]
             :c @{:x @[1 2 3 -1 -8192 8191 8192 100000 -100000] :y {:z -1000 :w 2147483647 :n math/nan :inf math/inf :ninf math/-inf}}
             :t '(1 [2 (3)]) :big 1e100 :neg -1.5 :tiny 5e-324 :e "" :nil [nil true false]})
(add "small" [1 :a "b"])
# 2. cyclic tables, protos, weak
(def cyc @{:name "cyc"})
(put cyc :self cyc)
(def cyc2 @{:other cyc :arr @[cyc]})
(put cyc :peer cyc2)
(table/setproto cyc2 @{:proto-field 1 :proto-fn (fn pf [self] (get self :other))})
(def wk (table/weak-keys 4)) (put wk cyc 1) (put wk :k "v")
(def wv (table/weak-values 4)) (put wv :c cyc2)
(def wkv (table/weak 4)) (put wkv :a cyc)
(def wa (array/weak 3)) (array/push wa cyc "s" 3)
(put cyc :weak [wk wv wkv wa (table/setproto (table/weak-keys 1) cyc2)])
(add "cyclic" cyc)
# 3. closures incl. shared environments
(defn make-counter [start]
  (var n start)
  (var log @[])
  {:inc (fn inc [&opt d] (array/push log d) (set n (+ n (or d 1))))
   :get (fn get [] n)
   :reset (fn reset [x] (set n x) (fn again [] (set n (+ n 1)) log))})
(add "closures" (make-counter 10))
(add "thunk" (fn [x] (+ x 1)))
(add "closures-pure" (do (var n 0) [(fn up [d] (set n (+ n d))) (fn rd [] n) (fn mk [k] (fn [] (set n (* n k)) [n k]))]))
# 4. funcdef with nested defs, sourcemaps, symbolmaps (compiled with :debug)
(def nested (dcompile '(fn outer [a b & more]
  (def k (+ a 1))
  (defn mid [x] (fn inner [y] (+ x y k (length more))))
  (var acc 0)
  (each m more (+= acc (if (number? m) m 0)))
  (def s (string/format "%d:%s" acc (string b)))
  (if (> a 0) ((mid acc) k) [a b s ;more]))))
(add "nested" nested true)
(add "nested-nodict" (dcompile '(fn lp [n &opt acc]
   (default acc @[])
   (var i 0)
   (while (< i 3) (array/push acc (* i n)) (++ i))
   (def f (fn [z] (+ z i (length acc))))
   (if (> n 100) (error "big") (f n)))))
(add "varargs" (dcompile '(fn kw [a &keys {:x x :y y}] [a x y])))
(add "named" (dcompile '(fn nm [a &named p q] (if p (q a) [a p q]))))
# 5. suspended fibers with child fibers, on-stack environments
(def fib1 (fiber/new (dcompile '(fn parent [x]
  (var s x)
  (def child (fiber/new (fn child [y] (var t y) (forever (set t (+ t (or (yield t) 1))))) :yi))
  (for i 0 3 (set s (+ s (resume child i))))
  (def getter (fn getter [] [s (fiber/status child)]))
  (def r (yield getter))
  (set s (+ s (resume child 5) (if (number? r) r 0)))
  (def r2 (yield s))
  [s r2 (getter)])) :yie))
(def getter1 (resume fib1 7))
(add "fiber" [fib1 getter1])
(def fib2 (fiber/new (fn outerf []
  (def inner (fiber/new (fn innerf [] (var q 1) (yield (fn [] (++ q))) (yield 2) q) :e))
  (def v (resume inner))
  [v (resume inner)]) :yi))
(def clo2 (resume fib2))
(fiber/setenv fib2 @{:dynvar 12})
(add "fiber-child" @{:f fib2 :c clo2})
(def fib3 (fiber/new (dcompile '(fn bigframe [a]
  (var v0 (+ a 0)) (var v1 (+ a 1)) (var v2 (+ a 2)) (var v3 (+ a 3)) (var v4 (+ a 4)) (var v5 (+ a 5)) (var v6 (+ a 6)) (var v7 (+ a 7)) (var v8 (+ a 8)) (var v9 (+ a 9)) (var v10 (+ a 10)) (var v11 (+ a 11)) (var v12 (+ a 12)) (var v13 (+ a 13)) (var v14 (+ a 14)) (var v15 (+ a 15)) (var v16 (+ a 16)) (var v17 (+ a 17)) (var v18 (+ a 18)) (var v19 (+ a 19)) (var v20 (+ a 20)) (var v21 (+ a 21)) (var v22 (+ a 22)) (var v23 (+ a 23)) (var v24 (+ a 24)) (var v25 (+ a 25)) (var v26 (+ a 26)) (var v27 (+ a 27))
  (def peek (fn peek [] [v0 v13 v19 v27]))
  (def poke (fn poke [x] (set v26 x) (set v17 x) (set v1 x) v26))
  (def r (yield [peek poke]))
  (+ v0 v1 v17 v26 v27 (if (number? r) r 0)))) :yi))
(def pp3 (resume fib3 5))
(add "fiber-bigframe" [pp3 fib3])
(add "fiber-dead" (let [f (fiber/new (fn [] 1))] (resume f) f))
(add "fiber-new" (fiber/new (fn [a] (yield a) (+ a 1)) :yi))
(add "fiber-err" (let [f (fiber/new (fn [] (error "boom")) :e)] (resume f) f))
# 6. compiled PEGs
(def peg1 (peg/compile
  ~{:main (* :head (some :item) (? :tail) -1)
    :head (* "hd" (set "abc") (range "az" "AZ") (if-not "x" 1) (if "y" 1))
    :num (<- (some (range "09")) :num)
    :item (+ (* :num (drop ","))
             (/ (<- (some (range "am"))) ,string/ascii-upper)
             (cmt (<- 2) ,(fn [s] (string s "!")))
             (group (* (constant :c) (position) (line) (column) "g"))
             (* "z" (between 1 3 "z"))
             (* "Q" (at-least 1 "q") (at-most 2 "w") (opt "o") (repeat 2 "r"))
             (* (look 0 "l") "l" (not "n") (to "t") (thru "u"))
             (* "B" :num (backref :num) (-> :num) "=" (backmatch :num))
             (accumulate (* "A" (<- 1) (<- 1)))
             (replace "rep" "with")
             (* "E" (error "e"))
             (* "G" (argument 0))
             (* "L" (lenprefix (number (range "09")) 1))
             (* "I" (uint 2) (uint 8))
             (* "U" (unref (<- 1 :tag)) (sub "ab" "a") "S" (split "," 1))
             (* "N" (nth 0 (* (<- 1) (<- 1))) (only-tags (<- 1 :t)) (number (some (range "09")) 10 :n))
             (* "T" (til "x" 1) "x"))
    :tail "end"}))
(add "peg" peg1 true)
(add "peg-small" (peg/compile '(* "a" (look 2 "b") (any (set "xyz")) (<- (to -1)))))
(add "peg-mid" (peg/compile ~{:main (* (some (+ :w :s)) -1) :w (<- (some (range "az" "AZ" "09"))) :s (some (set " \t\n"))}))
(add "peg-ops" [(peg/compile '(* (constant :k) (constant "s" :tag) (<- 1) (argument 0) (argument 1 :a)))
                (peg/compile '(* (position) (line) (column) (<- 1 :t) (backref :t) (backmatch :t)))
                (peg/compile '(+ (replace (<- 1) "r") (accumulate (* (<- 1) (<- 1))) (group (<- 1))))
                (peg/compile '(* (uint 1) (uint 2) (lenprefix (number 1) 1) (only-tags (<- 1 :x)) (unref (<- 1 :y))))
                (peg/compile '(* (nth 0 (* (<- 1) (<- 1))) (sub (<- 2) (<- 1)) (split "," (<- 1))))
                (peg/compile ~(* (cmt (<- 1) ,(fn [x] (string x x))) (/ (<- 1) ,(fn [y] [y])) (% (* (<- 1) (constant "z")))))])
# a literal whose bytes would decode as (constant 0x7FFFFFF0): data words that no rule reference may reach
(add "peg-nth-literal" (peg/compile '(+ (nth 0 (* (<- 1) (<- 1))) (* "\x10\0\0\0\xF0\xFF\xFF\x7F\0\0\0\0" (drop (<- 1))) (if-not "\x10\0\0\0\xF0\xFF\xFF\x7F" 1))))
(add "thunk-cancel" (fn cancel-user [&opt v] (def f (fiber/new (fn [] (yield 1) 2))) (resume f) (cancel f v)))
# signed / big-endian readint rules: Janet 1.38 cannot load these back (the verifier compares the packed operand
# with the maximum width) - kept as a seed of their own so that the other PEG images stay loadable
(add "peg-readint" (peg/compile '(* (int 2) (uint-be 4) (int-be 1) (int 8))))
# 7. integer types, rng
(add "ints" [(int/s64 "-9223372036854775808") (int/u64 "18446744073709551615") (int/s64 1) (int/u64 255) (int/s64 70000) (math/rng 42)])
# 8. channels with items
(def ch (ev/chan 5))
(ev/give ch 1) (ev/give ch "two") (ev/give ch @[3 ch]) (ev/give ch @"buffer-item")
(add "chan" ch)
(def ch0 (ev/chan)) (ev/chan-close ch0)
(add "chan-closed" [ch0 (let [c (ev/chan 2)] (ev/give c (fn [] c)) c)])
# 9. buffers
(add "buffers" @[@"" @"abc" (buffer/new-filled 300 65) (buffer/push @"" 0 255 128 200 206 218)])
# 10. structs with protos
(def sp (struct/with-proto {:base 1 :m (fn m [self] (in self :own))} :own 2 :k [1 2]))
(add "struct-proto" [sp (struct/with-proto sp :deeper 3) (struct/getproto sp)])
# 11. core env subset through make-image-dict
(def sub @{})
(each s ['map 'filter 'reduce 'string/format 'inc 'sort 'pp 'print 'keys 'partial 'comp 'juxt* 'buffer/push 'table/setproto 'math/sin 'peg/match 'int/s64 'fiber/new 'defn 'loop]
  (def e (get root-env s))
  (put sub s @{:value (get e :value) :macro (get e :macro) :source-map (get e :source-map) :doc (string/slice (get e :doc "") 0 (min 40 (length (get e :doc ""))))}))
(add "core-subset" sub true)
(def uenv @{})
(each [n f] (pairs {'sum-sq (fn sum-sq [xs] (reduce + 0 (map |(* $ $) xs)))
                    'fmt (fn fmt [& a] (string/format "%q" a))
                    'mk (fn mk [n] (def t @{}) (for i 0 (min n 10) (put t i (string/repeat "x" i))) (table/setproto t @{:n n}))
                    'sorter (fn sorter [xs] (sort (array ;xs)))
                    'co (fn co [n] (coro (for i 0 n (yield i))))
                    'pm (fn pm [s] (peg/match '(<- (some (range "az"))) s))})
  (put uenv n @{:value f :doc "user function"}))
(add "user-env" uenv true)
(add "quoted-code" '(defn f [x] (let [y (* x 2)] (if (> y 10) (string "big" y) [y :small @{:k x}]))))
(add "keywords" (tuple ;(map |(keyword "key-" $ (string/repeat "k" $)) (range 30))))
(add "reals" (tuple ;(map |(+ 0.5 (* $ 1e10)) (range 12))))
(add "longstr" (string/repeat "0123456789abcdef" 150))
(add "deep" (do (var x :leaf) (for i 0 60 (set x (if (even? i) [x] @[x]))) x))
(add "refs" (let [s "shared-string" t @[1 2]] [s s t t s [t t] {:a s :b t}]))
# 13. two suspended fibers whose frames each own an on-stack environment (a frame of the second can be made to claim
#     an environment that lives on the first)
(defn mk-env-fiber [n slots]
  (def f (fiber/new (dcompile ~(fn ff [x] (var a x) ,;(seq [i :range [0 slots]] ~(def ,(symbol "pad" i) (+ x ,i)))
                                  (def g (fn g [] (++ a))) (yield g) (yield a) [a ,(symbol "pad" (- slots 1))])) :yi))
  [f (resume f n)])
(add "fiber-pair" [(mk-env-fiber 1 3) (mk-env-fiber 2 40)])
# 12. a definition whose constants reach another closure of the same definition (funcdef back-reference from inside
#     the definition's own constants; the inner function is created while its definition is still being read)
(def selfdef-t @{:pad 1})
(def selfdef-mk (fn mk [u v] (fn inner [y] [u v y selfdef-t (if (and (number? y) (> y 0)) ((get selfdef-t :a) (- y 1)))])))
(put selfdef-t :a (selfdef-mk 1 2))
(add "closure-selfdef" (selfdef-mk 3 4))
# ... and two levels of it: D1's constants reach a closure of D2, whose constants reach closures of D2 *and* of D1
#     (several functions are created while more than one definition is incomplete)
(def sdn-t1 @{})
(def sdn-t2 @[])
(def sdn-mk1 (fn mk1 [u] (fn inner1 [y] [u y sdn-t1 (if (and (number? y) (> y 0)) ((get sdn-t1 :k) (- y 1)))])))
(def sdn-mk2 (fn mk2 [v w] (fn inner2 [y] [v w y sdn-t2 (if (and (number? y) (> y 0)) ((get sdn-t2 (% y 4)) (- y 1)))])))
(put sdn-t1 :k (sdn-mk2 10 11))
(array/push sdn-t2 (sdn-mk2 12 13) (sdn-mk1 14) (sdn-mk2 15 16) (sdn-mk1 17))
(add "closure-selfdef-nested" (sdn-mk1 18))


(defn hex [b] (def out (buffer/new (* 2 (length b)))) (each c b (buffer/format out "%02x" c)) (string out))
(defn main []
  (each [name img _ d] corpus
    (sim/ev :img name (hex img) (if d 1 0))))
(ev/go main)
'''

PRELUDE = r'''# ---- C10 harness (constant part of every plan) ----
(def mkdict make-image-dict)
(def lk (table/clone load-image-dict))
(def bad-prefixes ["os/" "ffi/" "net/" "file/" "ev/" "debug/" "module/" "bundle/" "thread/" "sim/"])
(def bad-names ["sandbox" "native" "dofile" "require" "import*" "slurp" "spit" "getline" "stdin" "stdout" "stderr"
                "repl" "cli-main" "run-context" "gcsetinterval" "eprint" "eprintf" "eprin" "eprinf" "xprint" "xprintf"
                "xprin" "xprinf" "flush" "eflush" "quit" "load-image" "make-image" "load-image-dict"
                "make-image-dict" "curenv" "make-env" "all-bindings" "all-dynamics" "doc*" "easy-bind" "short-fn"])
(each k (keys lk)
  (def s (string k))
  (when (or (find |(string/has-prefix? $ s) bad-prefixes) (find |(= $ s) bad-names))
    (put lk k nil)))

(def sink @"")
(def stats @{})
(defn bump [k] (put stats k (+ 1 (get stats k 0))))
(defn mark [tag i] (eprin (string "\n@" tag i "\n")))

(def argpool [nil 0 1 -1 2.5 "abc" :kw 'sym @"buf" [1 2] @[1 2 3] {:a 1} @{:b 2} (fn [& x] x) (math/sqrt -1) 1e308
              (int/s64 5) true "" 255 -2147483648 2147483647 [] @{} 65536 "0123456789" false (math/exp 1000) :a 7])
(defn nargs [seed n]
  (def out @[])
  (for i 0 n (array/push out (in argpool (% (+ (* seed 7) (* i 31)) (length argpool)))))
  out)

# run a thunk in a fresh fiber that traps every signal and has a small stack: nothing escapes
(defn bounded [thunk]
  (def fb (fiber/new thunk :a))
  (fiber/setmaxstack fb 8000)
  (fiber/setenv fb @{:out sink :err sink})
  (def r (resume fb))
  (buffer/clear sink)
  [(fiber/status fb) r fb])

# collect functions / fibers / abstracts reachable from v (bounded walk)
(defn collect [v]
  (def out @[])
  (def seen @{})
  (var budget 60)
  (defn walk [x depth]
    (when (and (> budget 0) (< depth 6))
      (-- budget)
      (case (type x)
        :function (array/push out x)
        :fiber (array/push out x)
        :core/peg (array/push out x)
        :core/channel (array/push out x)
        :table (unless (in seen x) (put seen x true)
                 (when (table/getproto x) (walk (table/getproto x) (+ depth 1)))
                 (eachp [k w] x (walk k (+ depth 1)) (walk w (+ depth 1))))
        :struct (do (when (struct/getproto x) (walk (struct/getproto x) (+ depth 1)))
                  (eachp [k w] x (walk k (+ depth 1)) (walk w (+ depth 1))))
        :array (unless (in seen x) (put seen x true) (each w x (walk w (+ depth 1))))
        :tuple (each w x (walk w (+ depth 1)))
        nil)))
  (walk v 0)
  out)

(def peg-texts ["hdaq123,abc,zzz" "" "abcdefgh" "1\x02\x031abc,de,f" "hdbZ12,B12=12Arep" "a b  c\n" "axyz" "hdcyGg@L3abcI\x01\x02\x03\x04\x05\x06\x07\x08\x09\x0a\x0b\x0c\x0d\x0e\x0f" "T12xN9912"])

(defn exercise-passive [v orig mask]
  (when (not= 0 (band mask 1))
    (bounded (fn [] (string/format "%q" v)))
    (bounded (fn [] (string/format "%j" v)))
    (bounded (fn [] (string/format "%m" v)))
    (bounded (fn [] (string/format "%p %v %s" v v (describe v)))))
  (when (not= 0 (band mask 2))
    (bounded (fn [] [(hash v) (= v v) (compare v v)]))
    (bounded (fn [] (= v orig)))
    (bounded (fn [] (compare v orig)))
    (bounded (fn [] (deep= v orig)))
    (bounded (fn [] (length v)))
    (bounded (fn [] (next v))))
  (when (not= 0 (band mask 4))
    (bounded (fn [] (freeze v))))
  (when (not= 0 (band mask 8))
    (def [st r] (bounded (fn [] (marshal v mkdict))))
    (when (= st :dead) (bounded (fn [] (unmarshal r lk))))
    (bounded (fn [] (marshal v)))))

(defn exercise [v orig mask seed]
  (def work @[])
  # the passive steps (print, compare, freeze, marshal) validate lazily checked parts of a loaded value (on-stack
  # environments); run them before or after the active steps depending on the seed
  (def passive-first (not= 0 (% seed 3)))
  (when passive-first (exercise-passive v orig mask))
  (array/concat work (collect v))
  (var calls 0)
  (var wi 0)
  (while (and (< wi (length work)) (< wi 14))
    (def x (in work wi))
    (++ wi)
    (case (type x)
      :function
      (when (not= 0 (band mask 16))
        # an argument count the function accepts (an arity error executes nothing)
        (def [ast ar] (bounded (fn [] [(disasm x :min-arity) (disasm x :max-arity)])))
        (def lo (if (= ast :dead) (max 0 (min 6 (in ar 0))) 0))
        (def hi (if (= ast :dead) (max lo (min 6 (in ar 1))) 6))
        (def n (+ lo (% (+ seed wi) (+ 1 (- hi lo)))))
        (for j 0 2
          (def args (nargs (+ seed wi j 11) n))
          (def [st r fb] (bounded (fn [] (x ;args))))
          (bump :function_called)
          (when (not= st :error) (bump :function_returned))
          (++ calls)
          (if (or (function? r) (fiber? r))
            (if (< (length work) 14) (array/push work r))
            # functions handed out inside a data structure (a closure reached through a constant table)
            (when (or (indexed? r) (dictionary? r))
              (each y (collect r) (if (and (< (length work) 14) (not (find |(= $ y) work))) (array/push work y)))))
          (when (not= 0 (band mask 1)) (bounded (fn [] (string/format "%q" r))))
          (var k 0)
          (while (and (< k 5) (= (fiber/status fb) :pending))
            (bounded (fn [] (resume fb (in argpool (% (+ seed k) (length argpool))))))
            (++ k))
          (when (= (fiber/status fb) :pending) (bounded (fn [] (cancel fb "stop"))))))
      :fiber
      (when (not= 0 (band mask 32))
        (bounded (fn [] [(fiber/status x) (fiber/maxstack x) (fiber/getenv x) (fiber/can-resume? x) (fiber/last-value x)]))
        # frames, slots and the locals named by the symbol maps of a loaded fiber
        (bounded (fn [] (string/format "%q" (debug/stack x))))
        (var k 0)
        (while (and (< k 6) (= :dead ((bounded (fn [] (if (fiber/can-resume? x) true (error "no")))) 0)))
          (def [st r] (bounded (fn [] (resume x (in argpool (% (+ seed k wi) (length argpool)))))))
          (bump :fiber_resumed)
          (when (or (function? r) (fiber? r)) (if (< (length work) 14) (array/push work r)))
          (++ k))
        (bounded (fn [] (cancel x "stop")))
        (bounded (fn [] (string/format "%q %q" x (fiber/last-value x)))))
      :core/peg
      (when (not= 0 (band mask 64))
        (for j 0 3
          (def text (in peg-texts (% (+ seed j wi) (length peg-texts))))
          (def [st r] (bounded (fn [] (peg/match x text 0 :arg0 "arg1"))))
          (when (= st :dead) (bump :peg_loaded_and_matched)))
        (bounded (fn [] (peg/find x "zzhdaq")))
        (bounded (fn [] (peg/replace-all x "R" "hdaq123,abc"))))
      :core/channel
      (when (not= 0 (band mask 128))
        (bounded (fn [] [(ev/count x) (ev/capacity x) (ev/full x)]))
        (var k 0)
        (while (and (< k 6) (= :dead ((bounded (fn [] (if (> (ev/count x) 0) true (error "empty")))) 0)))
          (def [st r] (bounded (fn [] (ev/take x))))
          (when (or (function? r) (fiber? r)) (if (< (length work) 14) (array/push work r)))
          (++ k))
        (bounded (fn [] (ev/chan-close x))))
      nil))
  (unless passive-first (exercise-passive v orig mask))
  (when (not= 0 (band mask 256)) (gccollect))
  calls)

(defn build [base patches]
  (def out @"")
  (var pos 0)
  (var i 0)
  (def n (length base))
  (while (< i (length patches))
    (def off (min n (in patches i)))
    (when (> off pos) (buffer/push out (string/slice base pos off)))
    (buffer/push out (in patches (+ i 2)))
    (set pos (min n (max pos (+ off (in patches (+ i 1))))))
    (+= i 3))
  (when (< pos n) (buffer/push out (string/slice base pos)))
  out)

(defn classify-error [e]
  (def s (if (bytes? e) (string e) (string/format "%q" e)))
  (cond
    (string/find "invalid bytecode" s) (bump :verify_rejected)
    (string/find "invalid assembly" s) (bump :verify_rejected)
    (string/find "invalid peg" s) (bump :peg_rejected)
    (string/find "unexpected end" s) (bump :eos)
    (bump :other_error)))

# one unmarshal case: [i base-index use-lookup mask seed off del ins ...]
(defn run-unmarshal-case [c bases origs]
  (def i (in c 0))
  (def bi (in c 1))
  # the image is handed over in an allocation of exactly its size (odd cases: string, else trimmed buffer), so that
  # reading even one byte past the input is outside the object
  (def bytes0 (build (if (>= bi 0) (in bases bi) "") (tuple/slice c 5)))
  (def bytes (if (odd? i) (string bytes0) (buffer/trim bytes0)))
  (mark "L" i)
  (sim/ev :case i)
  (def res (try [true (if (= 1 (in c 2)) (unmarshal bytes lk) (unmarshal bytes))] ([e] [false e])))
  (mark "X" (string i (if (in res 0) "+" "-")))
  (sim/ev :phase i :exercise (in res 0))
  (if (in res 0)
    (do
      (bump :loaded_ok)
      (exercise (in res 1) (if (>= bi 0) (in origs bi)) (in c 3) (in c 4)))
    (classify-error (in res 1))))

# ---- asm leg ----
(defn thaw-desc [d] # disasm output -> mutable tables/arrays (instructions stay tuples)
  (def t @{})
  (eachp [k v] d
    (put t k (case k
               :bytecode (array ;v)
               :constants (array ;v)
               :sourcemap (array ;v)
               :symbolmap (array ;v)
               :environments (array ;v)
               :defs (map thaw-desc v)
               v)))
  t)

(defn target [d path]
  (var t d)
  (each p path
    (def ds (get t :defs))
    (when (and (indexed? ds) (> (length ds) 0))
      (set t (in ds (% p (length ds))))))
  t)

(defn apply-mut [d m]
  (case (in m 0)
    :raw (in m 1)
    :key (do (put (target d (in m 1)) (in m 2) (in m 3)) d)
    :elem (let [t (target d (in m 1)) xs (get t (in m 2))]
            (if (and (indexed? xs) (> (length xs) 0))
              (put t (in m 2) (let [a (array ;xs)] (put a (% (in m 3) (length a)) (in m 4)) a))
              (put t (in m 2) @[(in m 4)]))
            d)
    :instr (let [t (target d (in m 1)) bc (get t :bytecode)]
             (when (and (indexed? bc) (> (length bc) 0))
               (def bc2 (array ;bc))
               (def ii (% (in m 2) (length bc2)))
               (def ins (in bc2 ii))
               (def j (in m 3))
               (put bc2 ii
                    (cond
                      (= j -3) (in m 4)
                      (not (indexed? ins)) (in m 4)
                      (= j -1) (tuple ;ins (in m 4))
                      (= j -2) (tuple/slice ins 0 (max 0 (- (length ins) 1)))
                      (= 0 (length ins)) (tuple (in m 4))
                      (let [a (array ;ins)] (put a (% j (length a)) (in m 4)) (tuple ;a))))
               (put t :bytecode bc2))
             d)
    :insert (let [t (target d (in m 1)) bc (get t :bytecode)]
              (when (indexed? bc)
                (def bc2 (array ;bc))
                (array/insert bc2 (% (in m 2) (+ 1 (length bc2))) (in m 3))
                (put t :bytecode bc2))
              d)
    :drop (let [t (target d (in m 1)) bc (get t :bytecode)]
            (when (and (indexed? bc) (> (length bc) 0))
              (def bc2 (array ;bc))
              (array/remove bc2 (% (in m 2) (length bc2)))
              (put t :bytecode bc2))
            d)
    d))

# one asm case: [i base-index _ mask seed muts]
(defn run-asm-case [c descs origs]
  (def i (in c 0))
  (def bi (in c 1))
  (var d (if (>= bi 0) (thaw-desc (in descs bi)) @{}))
  (each m (in c 5) (set d (try (apply-mut d m) ([e] d))))
  (mark "L" i)
  (sim/ev :case i)
  (def res (try [true (asm d)] ([e] [false e])))
  (mark "X" (string i (if (in res 0) "+" "-")))
  (sim/ev :phase i :exercise (in res 0))
  (if (in res 0)
    (do
      (bump :loaded_ok)
      (bump :asm_accepted)
      (def calls (exercise (in res 1) (if (>= bi 0) (in origs bi)) (in c 3) (in c 4)))
      (when (> calls 0) (bump :asm_accepted_and_called)))
    (classify-error (in res 1))))

(defn finish []
  (mark "D" 0)
  (eprin (string "@S " (string/join (map |(string (in $ 0) "=" (in $ 1)) (sort (pairs stats))) " ") "\n"))
  (sim/ev :stats (string/format "%j" stats)))
'''

# functions whose disassembly is the starting point of the asm leg (compiled inside the run)
ASM_SOURCES = [
    "(fn add1 [x] (+ x 1))",
    "(fn outer [a b & more] (def k (+ a 1)) (defn mid [x] (fn inner [y] (+ x y k (length more)))) (var acc 0) "
    "(each m more (+= acc (if (number? m) m 0))) (if (> a 0) ((mid acc) k) [a b ;more]))",
    "(fn lp [n] (var i 0) (def acc @[]) (while (< i 3) (array/push acc (* i n)) (++ i)) "
    "(def f (fn [z] (+ z i (length acc)))) (f n))",
    "(fn kw [a &keys {:x x :y y}] [a x y])",
    "(fn cmp3 [a b c] (cond (< a b) :lt (> a c) :gt (= b c) @{:eq [a b c]} (string a b c)))",
    "(fn gen [n] (def f (fiber/new (fn [] (for i 0 n (yield i)) :done) :yi)) [(resume f) (resume f) f])",
    "(fn tc [x] (try (error x) ([e fib] [e (fiber/status fib)])))",
    "(fn bits [a b] [(band a b) (bor a 7) (bxor a b) (blshift a 2) (brshift b 1) (brushift a 3) (bnot a) (% a 3) "
    "(mod b 5) (div a 2) (/ a 4) (* a b) (- a) (< a 3) (>= b 2) (not= a b)])",
    "(fn ds [t k v] (put t k v) (def x (get t k)) (def y (in [1 2 3] 1)) (length t) "
    "[x y (next t) @\"buf\" (tuple k v) {k v} @{k v}])",
    "(fn counter [] (var n 0) (var m 10) [(fn up [] (++ n)) (fn down [] (-- m) (fn both [] (+ n m)))])",
]
