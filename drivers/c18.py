"""C18 - sandboxed capabilities stay disabled for every function and thread.

One run: resources are opened (pipes, /dev/null handles, a child actor, a watcher, FFI handles), the
simulator's capability monitor is switched on (every libc entry point of a capability kind records
`!attempt <cap> <libc-fn> <sandbox-flags-of-the-calling-thread> <arg>` and refuses with EACCES), a
seeded subset of capabilities is disabled with `sandbox` (one or several calls), and a seeded sequence
of calls to bindings enumerated AT RUN TIME from root-env is made, each in its own fiber under a
simulated-clock deadline, in the main VM and in threads started after sandboxing (nested once).

Oracle (see check()):
 (a) no attempt of kind K while K is disabled for the calling thread;
 (b) the flag word is monotone per thread, a thread starts with a superset of its parent's flags;
 (c) positive control: in runs where K is not disabled the same shapes reach the seam (reach_* probes);
 (d) high-resolution time: non-interference of returned values under two clocks that agree to the ms;
 (e) witnesses: for the few operations that have no libc seam (FFI memory/calls, `environ`) a normal
     return of the function whose only purpose is that operation, while the capability is disabled.
"""
import json
import random
import re

from common import Driver, Violation, make_request
import c18_prelude

# --------------------------------------------------------------------------------------------------
# capability model
BIT = {"sandbox": 1, "subprocess": 2, "net-connect": 4, "net-listen": 8, "ffi-define": 16, "fs-write": 32,
       "fs-read": 64, "hrtime": 128, "env": 256, "modules": 512, "fs-temp": 1024, "ffi-use": 2048,
       "ffi-jit": 4096, "signal": 8192}
COMPOSITE = {"fs": ["fs-read", "fs-write", "fs-temp"], "net": ["net-connect", "net-listen"],
             "ffi": ["ffi-define", "ffi-use", "ffi-jit"]}
CAP_KWS = sorted(list(BIT) + list(COMPOSITE) + ["all"])
ALL = 0xFFFFFFFF
# monitor capability -> flag bits that must ALL be disabled for an attempt to be a violation
MON = {"fs-read": 64, "fs-write": 32, "fs-temp": 1024, "net-connect": 4, "net-listen": 8, "net": 4 | 8,
       "subprocess": 2, "env": 256, "signal": 8192}
IGNORED_MON = {"umask", "proc-signal"}   # not capabilities of the statement (signalling an owned child is not process creation)
# fixed device the runtime reads for os/cryptorand; not a path of the program's choosing (reported, not flagged)
EXEMPT_ARGS = {"/dev/urandom"}
WITNESS_BIT = {"ffi-use": 2048, "ffi-define": 16, "ffi-jit": 4096, "env": 256, "signal": 8192}

# functions that must not be called blindly (printed in the evidence)
DENYLIST = {
    "os/exit": "terminates the process",
    "cli-main": "calls os/exit on usage errors and after running a script",
    "repl": "reads stdin interactively",
    "debugger": "reads stdin interactively",
    "getline": "reads stdin",
    "run-context": "default chunk source is getline on stdin",
    "gcsetinterval": "an interval of 0 makes every later allocation collect (run time, not capability related)",
    "filewatch/remove": "janet_assert aborts the process for a path that was never added",
    "filewatch/listen": "a failing first read takes an error path that dereferences a NULL ev_state (SIGSEGV); listening itself "
                        "performs no capability operation (filewatch/add does, and is called)",
    "module/add-paths": "stores its arguments in module/paths, which every later ev/thread marshals by value",
}
# bounded / restricted argument shapes instead of blind ones ([:g category] generated, [:l literal])
OVERRIDES = {
    "os/sleep": [[["l", 0.001]], [["l", 0]], [["l", 1]]],
    "ev/sleep": [[["l", 0.001]], [["l", 3600]], [["g", "num"]]],
    "os/posix-exec": [[["g", "cmd"]], [["g", "cmd"], ["l", ":p"]], [["g", "cmd"], ["l", ":x"]]],
    "sandbox": [[["g", "cap"]], [["g", "cap"], ["g", "cap"]], [], [["g", "kw"]]],
}
MAXARGS = {"ev/deadline": 3}     # the 4th argument starts an interrupting OS thread (pthread_cancel: unsupported)
SPAWNERS = ["ev/thread", "os/shell", "os/proc-wait", "os/proc-close", "os/proc-kill"]
HOT_PREFIXES = ["os/", "net/", "file/", "ffi/", "ev/", "filewatch/", "bundle/", "module/"]
HOT_NAMES = ["slurp", "spit", "dofile", "require", "import*", "native", "load-image", "make-image", "sandbox",
             "eval-string", "flycheck", "getline", "file/lines"]
# values that differ between two executions by design (randomness, process identity)
NONDET = {"os/cryptorand", "os/getpid", "math/random", "math/rng", "math/rng-int", "math/rng-uniform",
          "math/rng-buffer", "gensym", "hash"}
# results that are process identity / randomness: only their type is recorded (keeps histories reproducible)
OPAQUE = ["os/getpid", "os/cryptorand"]
THREAD_HOWS = ["ev/thread", "ev/thread-n", "ev/do-thread", "ev/spawn-thread", "ev/thread-fiber", "ev/thread-fiber-n"]


def jlit(x):
    """Python value -> Janet literal"""
    if x is None:
        return "nil"
    if x is True:
        return "true"
    if x is False:
        return "false"
    if isinstance(x, (int, float)):
        return repr(x)
    if isinstance(x, str):
        if x.startswith(":") and " " not in x:
            return x
        return '"' + x.replace("\\", "\\\\").replace('"', '\\"') + '"'
    if isinstance(x, (list, tuple)):
        return "[" + " ".join(jlit(y) for y in x) + "]"
    if isinstance(x, dict):
        return "{" + " ".join(jlit(k) + " " + jlit(v) for k, v in sorted(x.items())) + "}"
    raise TypeError(x)


def overrides_lit():
    out = []
    for name, shapes in sorted(OVERRIDES.items()):
        ss = []
        for shape in shapes:
            els = []
            for kind, v in shape:
                if kind == "g":
                    els.append("[:g :%s]" % v)
                else:
                    els.append("[:l %s]" % (v if isinstance(v, str) else jlit(v)))
            ss.append("[" + " ".join(els) + "]")
        out.append("%s [%s]" % (jlit(name), " ".join(ss)))
    return "{" + " ".join(out) + "}"


def segs_lit(segs):
    out = []
    for s in segs:
        if s[0] == "sandbox":
            out.append("[:sandbox [%s]]" % " ".join(":" + k for k in s[1]))
        elif s[0] == "calls":
            out.append("[:calls [%s]]" % " ".join("[%d %d %d %d]" % tuple(c) for c in s[1]))
        else:
            out.append("[:thread %s %s]" % (jlit(s[1]), segs_lit(s[2])))
    return "[" + " ".join(out) + "]"


def flags_of(kws):
    f = 0
    for k in kws:
        if k == "all":
            f |= ALL
        elif k in COMPOSITE:
            for x in COMPOSITE[k]:
                f |= BIT[x]
        else:
            f |= BIT[k]
    return f


def names_of(flags):
    if flags == ALL:
        return "all"
    return "+".join(k for k, b in sorted(BIT.items(), key=lambda kv: kv[1]) if flags & b) or "none"


class Run:
    """what check() extracts from one history"""

    def __init__(self):
        self.calls = {}        # idx -> dict(name, before, after, status, text, tid, wit, kind, args)
        self.probes = {}
        self.violations = []
        self.nattempts = 0
        self.ncalls = 0
        self.stuck_in = None
        self.last_name = None
        self.names_n = 0

    def probe(self, k, n=1):
        self.probes[k] = self.probes.get(k, 0) + n


class C18(Driver):
    prop = "C18"
    level = "exploration"
    flavours = ["plain"]
    budgets = {"quick": 60, "thorough": 900}
    timeout_ms = 20000
    rule = ("plan = seeded subsets of capability keywords passed to (sandbox ...) in one or several calls x seeded "
            "sequences of calls [binding index, shape seed] resolved at run time against the sorted bindings of "
            "root-env (all / capability-prefixed / armed scenarios) x (main VM | thread started after sandboxing | "
            "nested thread); a run is non-trivial when at least one libc capability attempt was recorded; distinct = "
            "distinct sha256(plan)")
    assumptions = [
        "the libc seam of the simulator is a complete mediation point for the capability kinds it lists "
        "(build.py fails on an unclassified import); operations are refused (EACCES), so code behind a first "
        "successful operation is not reached in the same call",
        "operations without a libc seam (FFI memory access and calls, reading `environ`, executable mappings) are "
        "covered by witnesses: a normal return of the function whose only purpose is that operation",
        "high-resolution time is tested as non-interference of returned values on the simulated clock",
        "os/umask, os/getpid and ev/to-file assert a capability in Janet but perform no operation of a kind the "
        "statement names; they are not flagged",
        "os/cryptorand opens the fixed device /dev/urandom: recorded by the monitor as fs-read, exempted here (exactly "
        "that path; not a path of the program's choosing) and counted as probe exempt_dev_urandom",
        "a worker thread of the runtime (os/shell) has no VM: its operations are attributed to the call that was open "
        "on the VM thread that created it (the simulator's `!thread create` event)",
    ]
    components = {
        "real": ["interpreter", "compiler", "core library (every binding of root-env)", "event loop", "threads (ev/thread)",
                 "marshal", "kernel pipes"],
        "simulated": ["clock (two phases that agree to the millisecond)", "thread scheduling decisions",
                      "every libc operation of a capability kind (recorded and refused)"],
        "stub": ["child processes (in-process actors)", "file system / network / dlopen targets (marker names, never reached)"],
    }
    required_probes = ["reach_fs-read", "reach_fs-write", "reach_fs-temp", "reach_net-connect", "reach_net-listen",
                       "reach_net", "reach_subprocess", "reach_env", "reach_modules_native", "reach_modules_ffi",
                       "reach_signal", "reach_ffi-use", "reach_ffi-define", "reach_ffi-jit", "reach_env_environ",
                       "reach_hrtime", "attempt_in_thread", "attempt_in_nested_thread", "attempt_from_worker_thread",
                       "thread_started_with_flags", "sandbox_called_with_flags_already_set", "blocked_while_disabled"]

    # ------------------------------------------------------------------ generation
    def gen(self, seed, tier):
        r = random.Random(seed)
        big = tier == "thorough"
        total = r.choice([300, 600, 1000, 1500] if not big else [600, 1500, 2500])
        idx = [0]

        def calls(n, w=None):
            w = w or r.choice([(35, 45, 20), (10, 60, 30), (60, 30, 10), (0, 50, 50)])
            out = []
            for _ in range(n):
                u = r.random() * 100
                kind = 0 if u < w[0] else (1 if u < w[0] + w[1] else 2)
                out.append([idx[0], r.randrange(1 << 20), r.randrange(1 << 30), kind])
                idx[0] += 1
            return ["calls", out]

        def capset():
            m = r.random()
            if m < 0.10:
                return []
            if m < 0.60:
                return r.sample([k for k in CAP_KWS if k != "all"], r.randint(1, 3))
            if m < 0.80:
                return r.sample([k for k in CAP_KWS if k != "all"], r.randint(4, 9))
            if m < 0.86:
                return ["all"]
            return [r.choice([k for k in CAP_KWS if k not in ("all", "sandbox")])]

        def thread_segs(depth, n):
            segs = []
            if r.random() < 0.3:
                segs.append(["sandbox", capset()])
            segs.append(calls(n // 2 if depth == 1 else n, (0, 50, 50)))
            if depth == 1 and r.random() < 0.5:
                segs.append(["thread", r.choice(THREAD_HOWS), thread_segs(2, max(10, n // 4))])
                segs.append(calls(max(5, n // 4), (0, 50, 50)))
            return segs

        segs = []
        first = capset()
        if first:
            segs.append(["sandbox", first])
        n_thread = r.choice([0, 40, 80, 150]) if r.random() < 0.6 else 0
        n_main = max(50, total - n_thread)
        a = int(n_main * r.choice([0.3, 0.5, 0.8]))
        segs.append(calls(a))
        if r.random() < 0.5:
            segs.append(["sandbox", capset() or ["hrtime"]])
            b = (n_main - a) // 2
            segs.append(calls(b))
        else:
            b = 0
        if n_thread:
            segs.append(["thread", r.choice(THREAD_HOWS), thread_segs(1, n_thread)])
        rest = n_main - a - b
        if rest > 0:
            segs.append(calls(rest))
        knobs = {"seed": seed, "clock_phase_ns": 100000, "max_yields": 4000000, "max_sim_s": 10000000}
        return {"property": "C18", "knobs": knobs, "pair": r.random() < 0.3, "tag": "%x" % (seed & 0xFFFFFFFFFF),
                "segs": segs}

    # ------------------------------------------------------------------ rendering
    def render(self, plan):
        cfg = ("{:deny %s :maxargs %s :hot-prefixes %s :hot-names %s :cap-kws [%s] :overrides %s :spawners %s "
               ":max-spawn 12 :deadline 2 :opaque %s :tag %s}" % (
                   jlit(sorted(DENYLIST)), jlit(MAXARGS), jlit(HOT_PREFIXES), jlit(HOT_NAMES),
                   " ".join(":" + k for k in CAP_KWS), overrides_lit(),
                   "{" + " ".join('%s true' % jlit(s) for s in SPAWNERS) + "}", jlit(OPAQUE), jlit(plan["tag"])))
        src = ("(def c18-src `````" + c18_prelude.PRELUDE + "`````)\n" + c18_prelude.ENTRY +
               "\n(def c18-st {:cfg %s :segs %s :depth 0 :pf 0 :how \"main\"})\n" % (cfg, segs_lit(plan["segs"])) +
               "(ev/go (fn [] (c18-entry [c18-src c18-st])))\n")
        return make_request(plan["knobs"], src)

    # ------------------------------------------------------------------ oracle
    def analyse(self, plan, res):
        R = Run()
        vm_threads = {0: 0}      # tid -> depth
        open_call = {}           # tid -> call dict
        created = {}             # tid of a thread -> (creator tid, call open on the creator, creator's flags) at creation
        last_flags = {}          # tid -> flags
        seen_sig = set()

        def viol(sig, detail):
            if sig not in seen_sig:
                seen_sig.add(sig)
                R.violations.append(Violation(sig, detail))

        def mono(tid, new, what):
            old = last_flags.get(tid)
            if old is not None and (old & new) != old:
                viol("C18/flags-not-monotone/during=%s" % what,
                     "thread %d: flags %s -> %s (cleared %s)" % (tid, names_of(old), names_of(new), names_of(old & ~new)))
            last_flags[tid] = new

        def repro(c):
            if c is None:
                return "(outside any call)"
            return "(%s %s)" % (c["name"], c["args"]) if c["kind"] != ":scn" else "scenario %s" % c["name"]

        for e in res.events:
            try:
                self.event(e, R, vm_threads, open_call, created, last_flags, viol, mono, repro)
            except (ValueError, IndexError):
                # a run that was killed leaves a truncated last line
                if e is not res.events[-1]:
                    raise
        return R

    def event(self, e, R, vm_threads, open_call, created, last_flags, viol, mono, repro):
        if True:
            k = e.kind
            if k == "call":
                p = e.payload.split(" ", 5)
                c = {"idx": int(p[0]), "before": int(p[1]), "name": json_str(p[2]), "kind": p[3],
                     "wit": p[4].lstrip(":") if p[4] != "nil" else None, "args": p[5] if len(p) > 5 else "",
                     "tid": e.tid, "status": None, "text": None, "after": None}
                R.calls[c["idx"]] = c
                open_call[e.tid] = c
                R.ncalls += 1
                mono(e.tid, c["before"], c["name"])
                R.stuck_in = c["name"]
                R.last_name = c["name"]
            elif k == "ret":
                p = e.payload.split(" ", 3)
                c = R.calls.get(int(p[0]))
                if c is None:
                    return
                c["after"], c["status"], c["text"] = int(p[1]), p[2], p[3] if len(p) > 3 else ""
                mono(e.tid, c["after"], c["name"])
                if open_call.get(e.tid) is c:
                    del open_call[e.tid]
                R.stuck_in = None
                if c["status"] == ":error" and "forbidden by sandbox" in c["text"]:
                    R.probe("blocked_while_disabled")
                if c["status"] == ":error" and "deadline expired" in c["text"]:
                    R.probe("call_cancelled_at_deadline")
                if c["wit"]:
                    bit = WITNESS_BIT[c["wit"]]
                    if c["status"] == ":dead":
                        if c["before"] & bit:
                            viol("C18/performed-while-disabled/%s/via=%s" % (c["wit"], c["name"]),
                                 "%s returned %s with flags %s" % (repro(c), c["text"], names_of(c["before"])))
                        else:
                            R.probe("reach_env_environ" if c["name"] == "os/environ" else "reach_" + c["wit"])
            elif k == "sandbox":
                p = e.payload.split(" ")
                before, after, ok = int(p[0]), int(p[1]), p[2] == "true"
                mono(e.tid, before, "sandbox")
                mono(e.tid, after, "sandbox")
                want = flags_of([x.lstrip(":") for x in p[3:]])
                if ok and (after & want) != want:
                    viol("C18/sandbox-did-not-disable", "sandbox %s: flags %s" % (" ".join(p[3:]), names_of(after)))
                if ok and before and want & ~before:
                    R.probe("sandbox_called_with_flags_already_set")
                if not ok and not (before & 1) and p[3:]:
                    viol("C18/sandbox-raised-although-allowed", e.payload)
                if ok and (before & 1):
                    viol("C18/sandbox-callable-although-disabled", "(sandbox %s) returned with flags %s" % (" ".join(p[3:]), names_of(before)))
            elif k == "tstart":
                p = e.payload.split(" ")
                depth, pf, fl, how = int(p[0]), int(p[1]), int(p[2]), json_str(p[3])
                vm_threads[e.tid] = depth
                last_flags[e.tid] = fl
                R.names_n = int(p[4])
                if depth > 0:
                    R.probe("thread_started")
                    if pf:
                        R.probe("thread_started_with_flags")
                    if (fl & pf) != pf:
                        viol("C18/thread-started-without-parent-flags/how=%s" % how,
                             "parent had %s at spawn, thread started with %s" % (names_of(pf), names_of(fl)))
            elif k in ("tend", "tjoined", "tspawn"):
                p = e.payload.split(" ")
                mono(e.tid, int(p[1] if k == "tend" else p[0]), k)
            elif k == "!thread":
                p = e.payload.split(" ")
                if p[0] == "create":
                    # the creator may itself be a worker: inherit its attribution
                    created[int(p[1])] = created.get(e.tid) if e.tid not in vm_threads else \
                        (e.tid, open_call.get(e.tid), last_flags.get(e.tid, 0))
            elif k == "c18-error":
                raise RuntimeError("driver script error: " + e.payload)
            elif k == "thread-failed":
                R.probe("thread_start_failed")
            elif k == "skip":
                R.probe("skipped_denied_or_budget")
            elif k == "!attempt":
                p = e.payload.split(" ", 3)
                cap, fn, fl = p[0], p[1], int(p[2])
                arg = p[3] if len(p) > 3 else ""
                R.nattempts += 1
                if cap in IGNORED_MON:
                    return
                if arg in EXEMPT_ARGS:
                    R.probe("exempt_" + arg.strip("/").replace("/", "_"))
                    return
                if e.tid in vm_threads:
                    mono(e.tid, fl, "attempt")
                    c = open_call.get(e.tid)
                    cands = [(c, fl)]
                    depth = vm_threads[e.tid]
                    if depth == 1:
                        R.probe("attempt_in_thread")
                    elif depth >= 2:
                        R.probe("attempt_in_nested_thread")
                else:
                    # a worker thread of the runtime (os/shell): it has no VM; the operation belongs to a call
                    # that is open on some VM thread.  Sound: flag only if the capability was disabled for all.
                    R.probe("attempt_from_worker_thread")
                    if created.get(e.tid):
                        _, c, cfl = created[e.tid]
                        cands = [(c, cfl)]
                    else:
                        cands = [(c, c["before"]) for c in open_call.values()]
                        if not cands:
                            R.probe("attempt_unattributed")
                            return
                        c = cands[-1][0]
                via = c["name"] if c else "(outside-call)"
                if cap == "modules":
                    if "ffi/" in via:
                        need, label = 16, "ffi-define"
                    elif via in ("native", "require", "import*", "lib/require-native"):
                        need, label = 512, "modules"
                    else:
                        need, label = 16 | 512, "modules+ffi-define"
                    reach = "reach_modules_ffi" if need == 16 else "reach_modules_native"
                else:
                    need, label = MON.get(cap, 0), cap
                    reach = "reach_" + cap
                    if not need:
                        R.probe("attempt_unknown_cap_" + cap)
                        return
                if all((f & need) == need for _, f in cands):
                    viol("C18/attempt-while-disabled/%s/%s/via=%s" % (label, fn, via),
                         "%s reached libc %s(%s) in thread %d with flags %s" % (repro(c), fn, arg, e.tid, names_of(cands[0][1])))
                elif all((f & need) == 0 for _, f in cands):
                    R.probe(reach)
                    R.probe("reach_fn_" + fn)

    def check(self, plan, res):
        R = self.analyse(plan, res)
        res.c18 = R
        return R.violations

    def execute(self, plan):
        res = self.run_plan(plan)
        vs = list(self.check(plan, res))
        R = res.c18
        R.probe("outcome_" + res.outcome.split(":")[0])
        if plan.get("pair") and res.outcome in ("ok", "deadlock"):
            planb = json.loads(json.dumps(plan))
            planb["knobs"]["clock_phase_ns"] = 900000
            resb = self.run_plan(planb)
            RB = self.analyse(planb, resb)
            have = {v.sig for v in vs}
            vs += [v for v in RB.violations if v.sig not in have]
            diff = []
            for i, ca in R.calls.items():
                cb = RB.calls.get(i)
                if cb is None or ca["status"] is None or cb["status"] is None:
                    continue
                if (ca["status"], norm(ca["text"])) != (cb["status"], norm(cb["text"])) and ca["name"] == cb["name"]:
                    diff.append(i)
            R.probe("pair_runs")
            for i in diff:
                if not (R.calls[i]["before"] & 128) and "clock" in R.calls[i]["name"]:
                    R.probe("reach_hrtime")
            # only numeric differences can be the clock; anything else is address/identity dependent behaviour
            suspects = [i for i in diff if (R.calls[i]["before"] & 128) and (RB.calls[i]["before"] & 128)
                        and R.calls[i]["name"] not in NONDET
                        and digits_masked(R.calls[i]["text"]) == digits_masked(RB.calls[i]["text"])]
            R.probe("nonnumeric_difference_ignored", len([i for i in diff if (R.calls[i]["before"] & 128)]) - len(suspects))
            # A value that differs between the two clock phases is NOT reported: the phase also shifts allocation
            # patterns, and address order leaks into numeric results ((compare buf1 buf2), hash, sort of reference
            # types), so "differs with the phase" does not imply "read the clock" (DESIGN 7.14).  The deciding
            # oracle for :hrtime is the monitor on the libc clock calls; the difference is only counted.
            R.probe("phase_dependent_numeric_value", len(suspects))
        return res, vs

    def nontrivial(self, plan, res):
        return getattr(res, "c18", None) is not None and res.c18.nattempts > 0

    def extra(self, plan, res):
        R = getattr(res, "c18", None)
        if R is None:
            return None
        return {"probes": R.probes, "calls": R.ncalls, "attempts": R.nattempts, "bindings": R.names_n,
                "stuck_in": R.stuck_in if res.outcome not in ("ok", "deadlock") else None, "outcome": res.outcome,
                "seed": plan["knobs"]["seed"], "last_call": R.last_name}

    def aggregate(self, extras):
        probes = {}
        calls = attempts = 0
        bindings = 0
        stuck = {}
        abnormal = []
        for x in extras:
            if not x:
                continue
            for k, v in x["probes"].items():
                probes[k] = probes.get(k, 0) + v
            calls += x["calls"]
            attempts += x["attempts"]
            bindings = max(bindings, x["bindings"])
            if x.get("stuck_in"):
                key = "%s:%s" % (x["outcome"], x["stuck_in"])
                stuck[key] = stuck.get(key, 0) + 1
            if x["outcome"] not in ("ok", "deadlock") and len(abnormal) < 20:
                abnormal.append({"seed": x["seed"], "outcome": x["outcome"], "last_call_recorded": x["last_call"]})
        return {"probes": probes, "calls_total": calls, "attempts_total": attempts,
                "bindings_enumerated_at_run_time": bindings, "denylist": DENYLIST,
                "restricted_shapes": {k: "bounded/restricted argument shapes" for k in OVERRIDES},
                "max_args": MAXARGS, "runs_that_did_not_finish_last_call": stuck,
                "runs_that_ended_abnormally": abnormal}

    # ------------------------------------------------------------------ shrinking
    def to_explicit(self, plan, res):
        # thread switches are part of the seed; the violations here do not depend on single decisions
        return json.loads(json.dumps(plan))

    def shrink(self, plan):
        P = json.loads(json.dumps(plan))

        def paths(segs, prefix):
            for i, s in enumerate(segs):
                yield prefix + [i], s
                if s[0] == "thread":
                    yield from paths(s[2], prefix + [i, 2])

        def get(root, path):
            x = root["segs"]
            for p in path:
                x = x[p]
            return x

        def without(path):
            q = json.loads(json.dumps(P))
            parent = get(q, path[:-1]) if len(path) > 1 else q["segs"]
            del parent[path[-1]]
            return q

        if P.get("pair"):
            q = json.loads(json.dumps(P))
            q["pair"] = False
            yield q
        allp = list(paths(P["segs"], []))
        # 1. drop whole segments (threads with everything inside them first)
        for path, s in allp:
            yield without(path)
        # 2. halve call lists
        for path, s in allp:
            if s[0] == "calls" and len(s[1]) > 1:
                n = len(s[1])
                for lo, hi in ((0, n // 2), (n // 2, n)):
                    q = json.loads(json.dumps(P))
                    get(q, path)[1] = s[1][lo:hi]
                    yield q
        # 3. drop chunks of calls
        for path, s in allp:
            if s[0] == "calls":
                n = len(s[1])
                size = n // 4
                while size >= 1:
                    if size >= 8 or n <= 64:
                        for start in range(0, n, size):
                            q = json.loads(json.dumps(P))
                            del get(q, path)[1][start:start + size]
                            yield q
                    size //= 2
        # 4. drop single flags, split composites
        for path, s in allp:
            if s[0] == "sandbox":
                for i, kw in enumerate(s[1]):
                    if len(s[1]) > 1:
                        q = json.loads(json.dumps(P))
                        del get(q, path)[1][i]
                        yield q
                    parts = COMPOSITE.get(kw) or ([k for k in BIT if k != "sandbox"] if kw == "all" else None)
                    if parts:
                        for part in parts:
                            q = json.loads(json.dumps(P))
                            get(q, path)[1][i] = part
                            yield q
        # 5. simpler thread start
        for path, s in allp:
            if s[0] == "thread" and s[1] != "ev/thread":
                q = json.loads(json.dumps(P))
                get(q, path)[1] = "ev/thread"
                yield q


_ADDR = re.compile(r"0x[0-9A-Fa-f]+")


def norm(text):
    return _ADDR.sub("0x", text or "")


_NUM = re.compile(r"[-+.\deE]*\d[-+.\deE]*")


def digits_masked(text):
    return _NUM.sub("#", norm(text))


def json_str(tok):
    """canonical "string" token -> text (names never contain escapes worth decoding)"""
    if len(tok) >= 2 and tok[0] == '"' and tok[-1] == '"':
        return tok[1:-1]
    return tok


DRIVER = C18
