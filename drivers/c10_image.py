"""C10 helper: a reader of Janet's marshal format (src/core/marsh.c, 1.38) that records where
every field of a *valid* image lives, so that one field can be re-encoded with a hostile value
(structure-aware storage corruption).  Pure Python, no Janet needed."""
import os
import struct

LB_REAL, LB_NIL, LB_FALSE, LB_TRUE, LB_FIBER, LB_INTEGER, LB_STRING, LB_SYMBOL, LB_KEYWORD = range(200, 209)
LB_ARRAY, LB_TUPLE, LB_TABLE, LB_TABLE_PROTO, LB_STRUCT, LB_BUFFER, LB_FUNCTION, LB_REGISTRY = range(209, 217)
LB_ABSTRACT, LB_REFERENCE, LB_FUNCENV_REF, LB_FUNCDEF_REF, LB_UNSAFE_CFUNCTION, LB_UNSAFE_POINTER = range(217, 223)
LB_STRUCT_PROTO, LB_THREADED_ABSTRACT, LB_POINTER_BUFFER = 223, 224, 225
LB_TABLE_WEAKK, LB_TABLE_WEAKV, LB_TABLE_WEAKKV = 226, 227, 228
LB_TABLE_WEAKK_PROTO, LB_TABLE_WEAKV_PROTO, LB_TABLE_WEAKKV_PROTO, LB_ARRAY_WEAK = 229, 230, 231, 232
LEAD_BYTES = list(range(200, 233))

FD_VARARG, FD_NEEDSENV = 0x10000, 0x20000
FD_HASSYMBOLMAP = 0x40000
FD_HASNAME, FD_HASSOURCE, FD_HASDEFS, FD_HASENVS, FD_HASSOURCEMAP = 0x80000, 0x100000, 0x200000, 0x400000, 0x800000
FD_STRUCTARG, FD_HASCLOBITSET = 0x1000000, 0x2000000
FIBER_HASCHILD, FIBER_HASENV = 1 << 29, 1 << 30
FRAME_HASENV = -(1 << 31)
FRAME_SIZE = 4

# instruction types by opcode (src/core/bytecode.c janet_instructions)
_T = ("0 S ST S 0 SSI SSS SSI SSS SSI SSS SSI SSS SSS SSS SSS SSS SSS SSS SS SSS SSI SSS SSI SSS SSU SS SS L SL SL SL SL "
      "SSS SSI SSS SSI SSS SSI SSS S S S SI SC SES S SES SD S SS SSS S SS S SSS SSU SSS SSS SSS SSS SSU SSU SS S S S S S S S "
      "SSS SSS SSS SSS SSI SSS").split()
INSTR_TYPES = _T
NOPS = len(_T)  # 77 = JOP_INSTRUCTION_COUNT
OP_NAMES = {  # mnemonic -> opcode (src/core/asm.c janet_ops)
    "noop": 0, "err": 1, "tchck": 2, "ret": 3, "retn": 4, "addim": 5, "add": 6, "subim": 7, "sub": 8, "mulim": 9, "mul": 10,
    "divim": 11, "div": 12, "divf": 13, "mod": 14, "rem": 15, "band": 16, "bor": 17, "bxor": 18, "bnot": 19, "sl": 20,
    "slim": 21, "sr": 22, "srim": 23, "sru": 24, "sruim": 25, "movf": 26, "movn": 27, "jmp": 28, "jmpif": 29, "jmpno": 30,
    "jmpni": 31, "jmpnn": 32, "gt": 33, "gtim": 34, "lt": 35, "ltim": 36, "eq": 37, "eqim": 38, "cmp": 39, "ldn": 40,
    "ldt": 41, "ldf": 42, "ldi": 43, "ldc": 44, "ldu": 45, "lds": 46, "setu": 47, "clo": 48, "push": 49, "push2": 50,
    "push3": 51, "pusha": 52, "call": 53, "tcall": 54, "res": 55, "sig": 56, "prop": 57, "in": 58, "get": 59, "put": 60,
    "geti": 61, "puti": 62, "len": 63, "mkarr": 64, "mkbuf": 65, "mkstr": 66, "mkstu": 67, "mktab": 68, "mktup": 69,
    "mkbtp": 70, "gte": 71, "lte": 72, "next": 73, "neq": 74, "neqim": 75, "cncl": 76,
}

# PEG opcodes (src/core/peg.c / janet.h JanetPegOpcode), with operand layout used by the unmarshal verifier:
# r = rule index, c = constant index, n = plain number, L = literal (len + packed bytes), S = 8 set words, V = len + rules
PEG_OPS = ["literal", "nchar", "notnchar", "range", "set", "look", "choice", "sequence", "if", "ifnot", "not", "between",
           "gettag", "capture", "position", "argument", "constant", "accumulate", "group", "replace", "matchtime", "error",
           "drop", "backmatch", "to", "thru", "lenprefix", "readint", "line", "column", "unref", "capture_num", "sub", "til",
           "split", "nth", "only_tags"]
PEG_LAYOUT = {
    "literal": "L", "nchar": "n", "notnchar": "n", "range": "n", "position": "n", "line": "n", "column": "n",
    "backmatch": "n", "set": "S", "look": "nr", "choice": "V", "sequence": "V", "if": "rr", "ifnot": "rr", "lenprefix": "rr",
    "between": "nnr", "argument": "nn", "gettag": "nn", "constant": "cn", "capture_num": "rnn", "accumulate": "rn",
    "group": "rn", "capture": "rn", "unref": "rn", "replace": "rcn", "matchtime": "rcn", "sub": "rr", "til": "rr",
    "split": "rr", "error": "r", "drop": "r", "only_tags": "r", "not": "r", "to": "r", "thru": "r", "readint": "nn",
    "nth": "nrn",
}


class ParseError(Exception):
    pass


class Field:
    """one re-encodable field of an image"""
    __slots__ = ("off", "size", "enc", "role", "val", "ctx")

    def __init__(self, off, size, enc, role, val, ctx=None):
        self.off, self.size, self.enc, self.role, self.val, self.ctx = off, size, enc, role, val, ctx or {}

    def __repr__(self):
        return "Field(%d+%d %s %s=%r)" % (self.off, self.size, self.enc, self.role, self.val)


def enc_int(x):
    """pushint: canonical variable-length 32 bit integer"""
    x = int(x)
    if x >= (1 << 31):
        x -= 1 << 32
    if 0 <= x < 128:
        return bytes([x])
    if -8192 <= x <= 8191:
        return bytes([((x >> 8) & 0x3F) | 0x80, x & 0xFF])
    return bytes([LB_INTEGER]) + struct.pack(">i", max(-(1 << 31), min((1 << 31) - 1, x)))


def enc_int5(x):
    x = int(x)
    if x >= (1 << 31):
        x -= 1 << 32
    return bytes([LB_INTEGER]) + struct.pack(">i", max(-(1 << 31), min((1 << 31) - 1, x)))


def enc_i64(x):
    """push64: <= 0xF0 one byte, else 0xF0+n followed by n little endian bytes"""
    x = int(x) & 0xFFFFFFFFFFFFFFFF
    if x <= 0xF0:
        return bytes([x])
    out = []
    while x:
        out.append(x & 0xFF)
        x >>= 8
    return bytes([0xF0 + len(out)] + out)


def enc_u32(x):
    return struct.pack("<I", int(x) & 0xFFFFFFFF)


class Reader:
    def __init__(self, data):
        self.d = data
        self.fields = []
        self.lookup = []     # descriptors of values that received a reference number
        self.ndefs = 0
        self.nenvs = 0
        self.depth = 0
        self.extents = []    # (start, end, role) of every complete value

    # -- primitives --
    def byte(self, p):
        if p >= len(self.d):
            raise ParseError("eos")
        return self.d[p]

    def peekint(self, p):
        n0 = len(self.fields)
        v, _ = self.readint(p, None)
        del self.fields[n0:]
        return v

    def readint(self, p, role, ctx=None):
        b = self.byte(p)
        if b < 128:
            v, n = b, 1
        elif b < 192:
            v = ((b & 0x3F) << 8) + self.byte(p + 1)
            if v >> 13:
                v -= 1 << 14
            n = 2
        elif b == LB_INTEGER:
            if p + 4 >= len(self.d):
                raise ParseError("eos")
            v = struct.unpack(">i", self.d[p + 1:p + 5])[0]
            n = 5
        else:
            raise ParseError("expected integer at %d" % p)
        if role:
            self.fields.append(Field(p, n, "int", role, v, ctx))
        return v, p + n

    def read64(self, p, role):
        b = self.byte(p)
        if b <= 0xF0:
            v, n = b, 1
        else:
            k = b - 0xF0
            if k > 8 or p + k >= len(self.d):
                raise ParseError("bad 64")
            v = int.from_bytes(self.d[p + 1:p + 1 + k], "little")
            n = k + 1
        self.fields.append(Field(p, n, "i64", role, v))
        return v, p + n

    # -- composite --
    def one(self, p, role="value"):
        """mirror of unmarshal_one; returns (descriptor, next offset)"""
        self.depth += 1
        if self.depth > 400:
            raise ParseError("deep")
        try:
            d, q = self._one(p, role)
            self.extents.append((p, q, role))
            return d, q
        finally:
            self.depth -= 1

    def _one(self, p, role):
        lead = self.byte(p)
        if lead < 200:
            v, q = self.readint(p, role + ".int")
            return ("int", v), q
        self.fields.append(Field(p, 1, "lead", role + ".lead", lead))
        if lead in (LB_NIL, LB_FALSE, LB_TRUE):
            return ("atom", lead), p + 1
        if lead == LB_INTEGER:
            self.fields.pop()
            v, q = self.readint(p, role + ".int")
            return ("int", v), q
        if lead == LB_REAL:
            if p + 8 >= len(self.d):
                raise ParseError("eos")
            self.fields.append(Field(p + 1, 8, "real", role + ".real", self.d[p + 1:p + 9]))
            self.lookup.append(("real",))
            return ("real",), p + 9
        if lead in (LB_STRING, LB_SYMBOL, LB_BUFFER, LB_KEYWORD, LB_REGISTRY):
            n, q = self.readint(p + 1, {LB_STRING: "string", LB_SYMBOL: "symbol", LB_BUFFER: "buffer",
                                        LB_KEYWORD: "keyword", LB_REGISTRY: "registry"}[lead] + ".len",
                                {"remaining": len(self.d) - p})
            if n < 0 or q + n > len(self.d):
                raise ParseError("eos")
            if n:
                self.fields.append(Field(q, n, "bytes", "bytes", None))
            desc = ("str", lead, bytes(self.d[q:q + n]))
            self.lookup.append(desc)
            return desc, q + n
        if lead == LB_FIBER:
            return self.fiber(p + 1)
        if lead == LB_FUNCTION:
            return self.function(p + 1)
        if lead == LB_ABSTRACT:
            return self.abstract(p + 1)
        if lead == LB_REFERENCE:
            v, q = self.readint(p + 1, "ref.index", {"nlookup": len(self.lookup)})
            if 0 <= v < len(self.lookup):
                return self.lookup[v], q
            raise ParseError("bad ref")
        if lead in (LB_ARRAY, LB_ARRAY_WEAK):
            n, q = self.readint(p + 1, "array.len", {"remaining": len(self.d) - p})
            self.lookup.append(("array",))
            for _ in range(n):
                _, q = self.one(q, "elem")
            return ("array",), q
        if lead == LB_TUPLE:
            n, q = self.readint(p + 1, "tuple.len", {"remaining": len(self.d) - p})
            _, q = self.readint(q, "tuple.flag")
            for _ in range(n):
                _, q = self.one(q, "elem")
            self.lookup.append(("tuple",))
            return ("tuple",), q
        if lead in (LB_STRUCT, LB_STRUCT_PROTO):
            n, q = self.readint(p + 1, "struct.count", {"remaining": len(self.d) - p})
            if lead == LB_STRUCT_PROTO:
                _, q = self.one(q, "proto")
            for _ in range(n):
                _, q = self.one(q, "key")
                _, q = self.one(q, "val")
            self.lookup.append(("struct",))
            return ("struct",), q
        if lead in (LB_TABLE, LB_TABLE_PROTO, LB_TABLE_WEAKK, LB_TABLE_WEAKV, LB_TABLE_WEAKKV, LB_TABLE_WEAKK_PROTO,
                    LB_TABLE_WEAKV_PROTO, LB_TABLE_WEAKKV_PROTO):
            n, q = self.readint(p + 1, "table.count", {"remaining": len(self.d) - p})
            self.lookup.append(("table",))
            if lead in (LB_TABLE_PROTO, LB_TABLE_WEAKK_PROTO, LB_TABLE_WEAKV_PROTO, LB_TABLE_WEAKKV_PROTO):
                _, q = self.one(q, "proto")
            for _ in range(n):
                _, q = self.one(q, "key")
                _, q = self.one(q, "val")
            return ("table",), q
        raise ParseError("unknown lead %d at %d" % (lead, p))

    def function(self, p):
        n, q = self.readint(p, "func.envcount")
        cf = self.fields[-1]
        self.lookup.append(("function",))
        q = self.funcdef(q)
        envs = []
        for _ in range(n):
            q0 = q
            q = self.funcenv(q)
            envs.append((q0, q))
        # extents of the environments, for mutations that change the count *and* the payload consistently
        cf.ctx["envs"] = envs
        cf.ctx["envs_end"] = q
        return ("function",), q

    def funcenv(self, p):
        if self.byte(p) == LB_FUNCENV_REF:
            self.fields.append(Field(p, 1, "lead", "envref.lead", LB_FUNCENV_REF))
            idx, q = self.readint(p + 1, "envref.index", {"nenvs": self.nenvs})
            f = self.fields[-1]
            f.ctx["site"] = (p, q)
            rec = getattr(self, "env_records", {}).get(idx)
            if rec:
                f.ctx["onstack"] = rec       # geometry + fiber of the referenced environment
            return q
        if not hasattr(self, "env_records"):
            self.env_records = {}
        my_index = self.nenvs
        self.nenvs += 1
        off, q = self.readint(p, "env.offset")
        ln, q = self.readint(q, "env.length")
        if off > 0:
            lead = self.byte(q)
            fib_idx = None
            if lead == LB_FIBER:
                fib_idx = len(self.lookup)
            elif lead == LB_REFERENCE:
                try:
                    fib_idx = self.peekint(q + 1)
                except Exception:
                    fib_idx = None
            if fib_idx is not None:
                self.env_records[my_index] = {"offset": off, "length": ln, "fiber": fib_idx}
            _, q = self.one(q, "env.fiber")
        else:
            for _ in range(ln):
                _, q = self.one(q, "env.value")
        return q

    def funcdef(self, p):
        if self.byte(p) == LB_FUNCDEF_REF:
            self.fields.append(Field(p, 1, "lead", "defref.lead", LB_FUNCDEF_REF))
            _, q = self.readint(p + 1, "defref.index", {"ndefs": self.ndefs})
            return q
        self.ndefs += 1
        flags, q = self.readint(p, "def.flags")
        sc, q = self.readint(q, "def.slotcount")
        ar, q = self.readint(q, "def.arity")
        _, q = self.readint(q, "def.min_arity")
        _, q = self.readint(q, "def.max_arity")
        nconst, q = self.readint(q, "def.constants_length")
        blen, q = self.readint(q, "def.bytecode_length")
        nenv = ndefs = nsym = 0
        if flags & FD_HASENVS:
            nenv, q = self.readint(q, "def.environments_length")
        if flags & FD_HASDEFS:
            ndefs, q = self.readint(q, "def.defs_length")
        if flags & FD_HASSYMBOLMAP:
            nsym, q = self.readint(q, "def.symbolmap_length")
        if flags & FD_HASNAME:
            _, q = self.one(q, "def.name")
        if flags & FD_HASSOURCE:
            _, q = self.one(q, "def.source")
        for _ in range(nconst):
            _, q = self.one(q, "def.constant")
        for _ in range(nsym):
            _, q = self.readint(q, "symbolmap.birth_pc", {"blen": blen})
            _, q = self.readint(q, "symbolmap.death_pc", {"blen": blen})
            _, q = self.readint(q, "symbolmap.slot", {"sc": sc})
            _, q = self.one(q, "symbolmap.symbol")
        ctx = {"sc": sc, "nconst": nconst, "blen": blen, "ndefs": ndefs, "nenv": nenv, "arity": ar}
        for i in range(blen):
            if q + 4 > len(self.d):
                raise ParseError("eos")
            c = dict(ctx)
            c["pc"] = i
            self.fields.append(Field(q, 4, "u32", "def.bytecode", struct.unpack("<I", self.d[q:q + 4])[0], c))
            q += 4
        for _ in range(nenv):
            _, q = self.readint(q, "def.environment", ctx)
        for _ in range(ndefs):
            q = self.funcdef(q)
        if flags & FD_HASSOURCEMAP:
            for _ in range(blen):
                _, q = self.readint(q, "sourcemap.line")
                _, q = self.readint(q, "sourcemap.column")
        if flags & FD_HASCLOBITSET:
            for _ in range((sc + 31) >> 5):
                if q + 4 > len(self.d):
                    raise ParseError("eos")
                self.fields.append(Field(q, 4, "u32", "def.clobitset", struct.unpack("<I", self.d[q:q + 4])[0], ctx))
                q += 4
        return q

    def fiber(self, p):
        my_fiber = len(self.lookup)
        self.lookup.append(("fiber",))
        flags, q = self.readint(p, "fiber.flags")
        frame, q = self.readint(q, "fiber.frame")
        sstart, q = self.readint(q, "fiber.stackstart")
        stop, q = self.readint(q, "fiber.stacktop")
        _, q = self.readint(q, "fiber.maxstack")
        ctx = {"frame": frame, "stackstart": sstart, "stacktop": stop}
        self.fields[-1].ctx = ctx
        flags_field = self.fields[-5]
        stack = frame
        top = sstart - FRAME_SIZE
        while stack > 0:
            fflags, q = self.readint(q, "frame.flags")
            prev, q = self.readint(q, "frame.prevframe", {"stack": stack})
            _, q = self.readint(q, "frame.pc")
            if flags_field.role == "fiber.flags" and "toppc" not in flags_field.ctx:
                pf = self.fields[-1]
                flags_field.ctx = dict(flags_field.ctx, toppc=(pf.off, pf.size, pf.val))
            _, q = self.one(q, "frame.func")
            if fflags & (1 << 31) or fflags < 0:
                # the frame's own environment: remember where it sits and what geometry the frame has, for the
                # mutation "this frame claims an on-stack environment of another fiber"
                others = [i for i, d_ in enumerate(self.lookup) if d_ == ("fiber",) and i != my_fiber]
                q0 = q
                q = self.funcenv(q)
                self.fields.append(Field(q0, 0, "site", "frameenv.site", None,
                                         {"site": (q0, q), "stack": stack, "slots": top - stack, "fiber": my_fiber, "others": others}))
            for _ in range(stack, top):
                _, q = self.one(q, "frame.slot")
            top = stack - FRAME_SIZE
            stack = prev
        if flags & FIBER_HASENV:
            _, q = self.one(q, "fiber.env")
        if flags & FIBER_HASCHILD:
            _, q = self.one(q, "fiber.child")
        _, q = self.one(q, "fiber.last_value")
        return ("fiber",), q

    def abstract(self, p):
        key, q = self.one(p, "abstract.type")
        name = key[2] if key and key[0] == "str" else b""
        if name in (b"core/s64", b"core/u64"):
            self.lookup.append(("abstract",))
            _, q = self.read64(q, "int64.value")
        elif name == b"core/rng":
            self.lookup.append(("abstract",))
            for k in "abcd":
                _, q = self.readint(q, "rng." + k)
            _, q = self.readint(q, "rng.counter")
        elif name == b"core/channel":
            self.fields.append(Field(q, 1, "byte", "chan.is_threaded", self.byte(q)))
            q += 1
            self.lookup.append(("abstract",))
            self.fields.append(Field(q, 1, "byte", "chan.closed", self.byte(q)))
            q += 1
            _, q = self.readint(q, "chan.limit")
            n, q = self.readint(q, "chan.count")
            for _ in range(n):
                _, q = self.one(q, "chan.item")
        elif name == b"core/peg":
            blen, q = self.read64(q, "peg.bytecode_len")
            nconst, q = self.readint(q, "peg.num_constants")
            self.lookup.append(("abstract",))
            words = []
            first = len(self.fields)
            for i in range(blen):
                v, q = self.readint(q, "peg.word")
                words.append(v & 0xFFFFFFFF)
            # classify the words (opcode / operand kinds) for targeted operand corruption
            roles = peg_roles(words)
            for i, r in enumerate(roles):
                f = self.fields[first + i]
                f.role = "peg." + r
                f.ctx = {"blen": blen, "nconst": nconst, "index": i}
                if r == "rule":
                    # words that are data, not instructions (literal bytes, set bitmaps): a rule reference must
                    # never be allowed to land there
                    f.ctx["data"] = [j for j, rj in enumerate(roles) if rj in ("litbytes", "setword") and roles[j - 1] != rj][:6]
            for _ in range(nconst):
                _, q = self.one(q, "peg.constant")
        else:
            raise ParseError("unknown abstract %r" % name)
        return ("abstract", name), q


def peg_roles(words):
    """role of each word of a valid PEG bytecode: op / rule / const / num / litlen / litbytes / setword / seqlen"""
    roles = ["num"] * len(words)
    i = 0
    n = len(words)
    while i < n:
        op = words[i]
        if op >= len(PEG_OPS):
            break
        name = PEG_OPS[op]
        roles[i] = "op"
        lay = PEG_LAYOUT[name]
        if lay == "L":
            if i + 1 >= n:
                break
            roles[i + 1] = "litlen"
            k = (words[i + 1] + 3) >> 2
            for j in range(i + 2, min(n, i + 2 + k)):
                roles[j] = "litbytes"
            i += 2 + k
        elif lay == "S":
            for j in range(i + 1, min(n, i + 9)):
                roles[j] = "setword"
            i += 9
        elif lay == "V":
            if i + 1 >= n:
                break
            roles[i + 1] = "seqlen"
            k = words[i + 1]
            for j in range(i + 2, min(n, i + 2 + k)):
                roles[j] = "rule"
            i += 2 + k
        else:
            for j, c in enumerate(lay):
                if i + 1 + j < n:
                    roles[i + 1 + j] = {"r": "rule", "c": "const", "n": "num"}[c]
            i += 1 + len(lay)
    return roles


def parse(data):
    """-> (fields, complete?)  Fields recorded up to the first thing the reader does not understand."""
    return parse_full(data)[:2]


def parse_full(data):
    """-> (fields, complete?, extents)"""
    r = Reader(bytes(data))
    ok = True
    try:
        _, end = r.one(0, "root")
        if end != len(data):
            ok = False
    except (ParseError, IndexError, struct.error, RecursionError):
        ok = False
    return r.fields, ok, r.extents


# ---------------------------------------------------------------------------------------------
# hostile values

INT_BOUNDARY = [0, 1, 2, 3, 4, 7, 8, 15, 16, 31, 32, 33, 63, 64, 127, 128, 129, 255, 256, 257, 1023, 4095, 8191, 8192,
                16383, 16384, 32767, 32768, 65535, 65536, 1 << 20, (1 << 24) - 1, 1 << 24, (1 << 31) - 11, (1 << 31) - 10,
                (1 << 31) - 5, (1 << 31) - 4, (1 << 31) - 2, (1 << 31) - 1, -1, -2, -8192, -8193, -(1 << 31), -(1 << 31) + 1]
I64_BOUNDARY = [0, 1, 0xF0, 0xF1, 0xFF, 0x100, 0xFFFF, 1 << 16, (1 << 31) - 1, 1 << 31, (1 << 32) - 1, 1 << 32, (1 << 32) + 1,
                (1 << 32) + 8, 1 << 40, (1 << 61), (1 << 62), (1 << 62) - 1, (1 << 62) + 1, (1 << 62) + 4, (1 << 63),
                (1 << 63) - 1, (1 << 64) - 1, (1 << 64) - 2, (1 << 64) - 4, (1 << 64) - 8, (1 << 64) - 16]


def nanbox_values(r):
    """8 byte patterns that are not ordinary doubles: NaN-boxed words with every type tag and pointer-looking payloads"""
    t = r.randrange(16)
    payload = r.choice([0, 1, 8, 0x10, 0x41414141, 0x602000000010, 0x502000000010, 0x7ffff7a00000, 0x7fffffffe000,
                        0x555555554000, (1 << 47) - 1, r.getrandbits(47)])
    kind = r.randrange(9)
    if kind >= 6:
        # the same tags without the sign bit, quiet (7FF8) or signalling (7FF0): the type test of the
        # NaN-boxing ignores both bits, so these must be normalised by the loader as well
        base = [0x0FFF0, 0x0FFE0, 0x0FFF0][kind - 6]
        u = ((base | t) << 47) | (payload if kind != 8 else (payload & ~7))
        if (u >> 52) & 0x7FF != 0x7FF or (u & ((1 << 52) - 1)) == 0:
            u |= (0x7FF << 52) | 1
    elif kind == 0:
        u = ((0x1FFF0 | t) << 47) | payload
    elif kind == 1:
        u = (0xFFF8 << 48) | r.getrandbits(48)
    elif kind == 2:
        u = (0x7FF8 << 48) | r.getrandbits(48)
    elif kind == 3:
        u = (0xFFFF << 48) | payload
    elif kind == 4:
        u = r.choice([0x7FF0000000000000, 0xFFF0000000000000, 0x7FF8000000000000, 0xFFF8000000000000,
                      0x7FF0000000000001, 0xFFFFFFFFFFFFFFFF, 0x8000000000000000, 1])
    else:
        u = ((0x1FFF0 | t) << 47) | (payload & ~7)
    return struct.pack("<Q", u & 0xFFFFFFFFFFFFFFFF)


def instr_values(word, ctx, r):
    """hostile re-encodings of one bytecode word: one operand (or the opcode) moved to a boundary"""
    op = word & 0x7F
    out = []
    sc, nconst, blen, ndefs, nenv, pc = (ctx.get(k, 0) for k in ("sc", "nconst", "blen", "ndefs", "nenv", "pc"))
    typ = INSTR_TYPES[op] if op < len(INSTR_TYPES) else "0"
    slotv = [sc, sc - 1, sc + 1, 255, 254, 0, 128]

    def put(shift, width, v):
        mask = ((1 << width) - 1) << shift
        return (word & ~mask & 0xFFFFFFFF) | ((v << shift) & mask)

    if typ in ("S",):
        out += [put(8, 24, v) for v in slotv + [65535, 65536, (1 << 24) - 1, 1 << 23]]
    if typ in ("SI", "SU", "ST", "SS", "SSI", "SSU", "SSS", "SL", "SD", "SC", "SES"):
        out += [put(8, 8, v) for v in slotv]
    if typ == "SS":
        out += [put(16, 16, v) for v in slotv + [65535, 32768]]
    if typ in ("SSI", "SSU", "SSS"):
        out += [put(16, 8, v) for v in slotv]
    if typ == "SSS":
        out += [put(24, 8, v) for v in slotv]
    if typ in ("SSI", "SSU"):
        out += [put(24, 8, v) for v in (0, 1, 127, 128, 255)]
    if typ in ("SI", "SU", "ST"):
        out += [put(16, 16, v) for v in (0, 1, 32767, 32768, 65535)]
    if typ == "L":
        for dest in (blen, blen - 1, blen + 1, 0, -1, pc, pc + 1, -(1 << 23) + pc, (1 << 23) - 1 + pc, blen + 1000):
            out.append(put(8, 24, (dest - pc) & 0xFFFFFF))
    if typ == "SL":
        for dest in (blen, blen - 1, blen + 1, 0, -1, pc, pc + 1, pc - 32768, pc + 32767, blen + 100):
            out.append(put(16, 16, (dest - pc) & 0xFFFF))
    if typ == "SD":
        out += [put(16, 16, v) for v in (ndefs, ndefs - 1, ndefs + 1, 0, 65535, 32768)]
    if typ == "SC":
        out += [put(16, 16, v) for v in (nconst, nconst - 1, nconst + 1, 0, 65535, 32768)]
    if typ == "SES":
        out += [put(16, 8, v) for v in (nenv, nenv - 1, nenv + 1, 0, 255, 128)]
        out += [put(24, 8, v) for v in (0, 1, sc, sc - 1, 255, 128, 64)]
    # the opcode itself
    for v in (r.randrange(NOPS), NOPS, NOPS - 1, NOPS + 1, 127, 0, 28, 3, 4, 45, 47, 48, 53, 54, 1):
        out.append(put(0, 7, v))
    out.append(word ^ 0x80)            # breakpoint bit
    out.append(r.getrandbits(32))
    return [enc_u32(v & 0xFFFFFFFF) for v in out]


# Fields whose value becomes an allocation size (at load time, or when the loaded function is called).  Without an
# allocation cap in the sanitizer runtime a request of 2^31 elements *succeeds* lazily under ASan and costs seconds of
# shadow poisoning and gigabytes of RSS per case; jsim currently starts its children with a fixed environment, so the
# driver cannot pass max_allocation_size_mb itself.  Until jsim sets such a cap, counts above HUGE_LIMIT are left out
# (set C10_HUGE_VALUES=1 to put them back: they are what exposes the unchecked-length exits "janet out of memory").
HUGE_VALUES = os.environ.get("C10_HUGE_VALUES", "1") == "1"   # on: ASan caps a single allocation at 512 MB (jsim.c)
HUGE_LIMIT = 1 << 22
ALLOC_ROLES = {"def.constants_length", "def.bytecode_length", "def.environments_length", "def.defs_length",
               "def.symbolmap_length", "def.slotcount", "def.arity", "def.min_arity", "def.max_arity", "env.length",
               "env.offset", "fiber.stacktop", "fiber.stackstart", "fiber.frame", "peg.num_constants", "peg.bytecode_len",
               "chan.limit", "chan.count", "array.len", "tuple.len", "table.count", "struct.count", "buffer.len",
               "string.len", "symbol.len", "keyword.len", "registry.len", "frame.prevframe"}


def tame(role, vals, wrap_from=None):
    """drop the values that would become multi-gigabyte allocations (see HUGE_VALUES)"""
    if HUGE_VALUES or role not in ALLOC_ROLES:
        return vals
    out = []
    for x in vals:
        if x <= HUGE_LIMIT or (wrap_from is not None and x >= wrap_from):
            out.append(x)
    return out


def field_values(f, r, total_len):
    """candidate replacement encodings (bytes) for field f"""
    if f.enc == "int":
        v = f.val
        vals = []
        for k in ("nlookup", "nenvs", "ndefs", "remaining", "sc", "blen", "nconst", "nenv", "frame", "stackstart",
                  "stacktop", "stack", "index"):
            if k in f.ctx:
                c = f.ctx[k]
                vals += [c, c - 1, c + 1, c + 2, c - 4, c + 4, c + 10, c + 11, c * 2 + 1, c - 15, c - 16]
        vals += f.ctx.get("data", []) * 3
        vals += [v + 1, v - 1, 0, 1, v * 2, v // 2, -v, v + 4, v - 4, v + 128, 2, 3, 4, 5, 8, 16, 64, 255, 65536,
                 (1 << 31) - 1, -1, (1 << 31) - 11, (1 << 31) - 4, -(1 << 31)]
        if f.role in ("def.flags", "fiber.flags", "frame.flags"):
            vals += [v ^ (1 << b) for b in range(16, 32)] + [v | 0x10000, 0, -1, 0x7FFFFFFF]
            if f.role == "fiber.flags":   # every status, with and without the resume/child/env bits
                vals += [(v & ~0x3F0000) | (st << 16) for st in range(0, 20)]
        vals += list(INT_BOUNDARY) + [total_len, total_len - f.off, total_len + 1]
        if f.role.startswith("peg."):
            vals += [len(PEG_OPS), len(PEG_OPS) - 1] + list(range(0, len(PEG_OPS), 3)) + [0xFFFFFFFF, 0xFFFFFFFD, 0xFFFFFFFC]
        out = [enc_int(x) for x in tame(f.role, vals)]
        out.append(enc_int5(v))   # same value, long form
        return out
    if f.enc == "i64":
        v = f.val
        # (the values from 2^61 up wrap around in the size computation or exceed what any allocator accepts: fast)
        return [enc_i64(x) for x in tame(f.role, I64_BOUNDARY + [v + 1, v - 1, v * 2, v + (1 << 32), v + (1 << 62),
                                                                 v | (1 << 63), (1 << 64) - v if v else 5], 1 << 61)]
    if f.enc == "u32":
        if f.role == "def.bytecode":
            return instr_values(f.val, f.ctx, r)
        return [enc_u32(x) for x in (0, 0xFFFFFFFF, f.val ^ 1, f.val ^ 0x80000000, r.getrandbits(32))]
    if f.enc == "real":
        out = []
        for t in range(16):       # every type tag with a pointer-looking, a small and a zero payload
            for payload in (0x602000000010, 0x41414141, 0):
                out.append(struct.pack("<Q", (((0x1FFF0 | t) << 47) | payload) & 0xFFFFFFFFFFFFFFFF))
        return out + [nanbox_values(r) for _ in range(8)]
    if f.enc == "lead":
        return [bytes([b]) for b in LEAD_BYTES] + [bytes([199]), bytes([233]), bytes([0]), bytes([0x80])]
    if f.enc == "byte":
        return [bytes([b]) for b in (0, 1, 2, 0x7F, 0x80, 0xFF)]
    if f.enc == "bytes":
        n = f.size
        return [bytes([r.choice([0, 0xFF, 0x80, 0xC0, 0xD7, 0xD9, 0xDA])]) * n]
    return []


# weights: which fields are worth corrupting more often (cross-references between sections of an image first)
ROLE_WEIGHT = {
    "bytes": 0.15, "elem.int": 0.3, "key.int": 0.3, "val.int": 0.3, "sourcemap.line": 0.1, "sourcemap.column": 0.1,
    "def.bytecode": 1.0, "peg.rule": 3.0, "peg.litbytes": 0.2, "peg.setword": 0.2, "peg.num": 0.7, "def.clobitset": 0.5,
    "string.len": 0.7, "symbol.len": 0.7, "keyword.len": 0.7, "buffer.len": 1.0, "registry.len": 0.7,
    "tuple.flag": 0.3, "frame.slot.int": 0.2, "env.value.int": 0.2,
}
# fields that other parts of the image (or the interpreter, later) trust: layout of fiber stacks, environment
# geometry, reference numbers, counts in function headers
HOT1 = {"fiber.flags", "fiber.frame", "fiber.stackstart", "fiber.stacktop", "fiber.maxstack", "frame.flags", "frame.prevframe",
        "frame.pc", "env.offset", "env.length", "func.envcount", "envref.index", "defref.index", "peg.bytecode_len",
        "peg.num_constants", "chan.is_threaded", "chan.limit", "chan.count"}
HOT2 = {"def.flags", "def.slotcount", "def.arity", "def.min_arity", "def.max_arity", "def.constants_length",
        "def.bytecode_length", "def.environments_length", "def.defs_length", "def.symbolmap_length", "def.environment",
        "ref.index", "int64.value", "chan.closed", "rng.counter", "array.len", "tuple.len", "table.count", "struct.count",
        "peg.const", "peg.seqlen", "peg.litlen", "peg.num", "symbolmap.birth_pc", "symbolmap.death_pc", "symbolmap.slot"}


def hot_instr(f):
    """bytecode words whose operands point somewhere: jumps, constant / funcdef / environment references, and the
    last instruction of a function (the verifier's fall-off-the-end rule)"""
    if f.role != "def.bytecode":
        return False
    op = f.val & 0x7F
    typ = INSTR_TYPES[op] if op < len(INSTR_TYPES) else "0"
    # (cncl: the only three-slot instruction that acts on a fiber)
    return typ in ("L", "SL", "SD", "SC", "SES") or f.ctx.get("pc") == f.ctx.get("blen", 0) - 1 or op == OP_NAMES["cncl"]


def field_weight(f):
    if f.role in HOT1:
        return 20.0
    if f.role in HOT2 or hot_instr(f) or f.enc == "real":
        return 6.0
    if f.role in ROLE_WEIGHT:
        return ROLE_WEIGHT[f.role]
    if f.role.endswith(".lead"):
        return 0.5
    if f.role.endswith(".int"):
        return 0.4
    return 2.0


def is_hot(f):
    if f.role == "frameenv.site":
        return bool(f.ctx.get("others"))
    return f.role in HOT1 or f.role in HOT2 or hot_instr(f) or f.enc == "real" or f.role == "peg.rule"


def sweep_values(f, total_len):
    """deterministic, de-duplicated candidate list for one field (used by sweeps and by the thorough enumeration)"""
    import random as _random
    out = []
    seen = set()
    for v in field_values(f, _random.Random(f.off * 7919 + f.size), total_len):
        if v not in seen:
            seen.add(v)
            out.append(v)
    return out
