/* jsim: deterministic simulator around the Janet core.  See /verif/DESIGN.md §2. */
#ifndef SIM_H
#define SIM_H

#include <stdint.h>
#include <stddef.h>
#include <stdio.h>
#include <sys/types.h>

/* ---- configuration (one run) ---- */

enum {
    F_EINTR_R, F_EINTR_W, F_EAGAIN_R, F_EAGAIN_W, F_SHORT_R, F_SHORT_W,
    F_EPOLL_EINTR, F_EPOLL_DELAY, F_EPOLL_REORDER, F_EPOLL_SPLIT,
    F_CLOCK_JUMP, F_SWITCH, F_GC,
    F_KINDS
};
extern const char *sim_fault_names[F_KINDS];

enum { GC_DEFAULT = 0, GC_NEVER, GC_EVERY, GC_BERN, GC_BURST, GC_LIST };
enum { SCHED_RANDOM = 0, SCHED_PCT, SCHED_STICKY };

typedef struct {
    uint32_t kind;
    uint32_t obj;
    uint64_t n;
    int64_t param;
} SimExplicit;

typedef struct {
    uint64_t seed;
    int active;              /* wrappers inject/simulate only while set */
    int explicit_mode;       /* replay: only listed decisions fire */
    double p[F_KINDS];       /* per-kind probability (exploration mode) */
    int gc_mode;
    double gc_p;
    uint64_t gc_lo, gc_hi;   /* burst window */
    int sched_mode;
    int pct_depth;
    uint64_t max_yields;
    int64_t max_sim_ns;
    int64_t clock_phase_ns;
    int64_t tick_ns;         /* every clock read advances simulated time by this much (CPU time passes) */
    int pipe_size;           /* F_SETPIPE_SZ for new pipes (0 = leave) */
    int sock_buf;            /* SO_SNDBUF/SO_RCVBUF for new sockets (0 = leave) */
    int monitor;             /* C18: capability monitor active, operations are refused */
    int trace;               /* verbose !-events */
    SimExplicit *ex;
    size_t ex_count;
} SimConfig;

extern SimConfig sim_cfg;

/* ---- core ---- */
uint64_t sim_hash(uint64_t seed, uint64_t kind, uint64_t obj, uint64_t n);
uint8_t sim_tagb(uint64_t w, uint64_t off);
/* does fault `kind` fire for the n-th call on logical object obj? param_out receives
 * a deterministic 63-bit parameter (for sizes etc.) */
int sim_decide(int kind, uint32_t obj, uint64_t n, int64_t *param_out);
void sim_fault_fired(int kind, uint32_t obj, uint64_t n, int64_t param);
extern uint64_t sim_fault_count[F_KINDS];

void sim_probe(const char *name);
void sim_probe_dump(void);

/* history */
void sim_hist_open(const char *path);
void sim_hist(const char *kind, const char *fmt, ...) __attribute__((format(printf, 2, 3)));
void sim_hist_raw(const char *kind, const char *payload, size_t len);
void sim_hist_flush(void);
uint64_t sim_seq(void);
void sim_die(int code, const char *kind, const char *fmt, ...) __attribute__((format(printf, 3, 4), noreturn));

#define SIM_EXIT_DEADLOCK 70
#define SIM_EXIT_LIVELOCK 71
#define SIM_EXIT_UNSUPPORTED 72
#define SIM_EXIT_HARNESS 73
#define SIM_EXIT_SANITIZER 77

/* ---- clock ---- */
int64_t sim_now_ns(void);
void sim_clock_advance_to(int64_t ns);
void sim_clock_reset(void);

/* ---- scheduler ---- */
int sim_tid(void);                 /* logical id of calling thread */
void sim_sched_init(void);
void sim_yield(const char *why);   /* scheduling point */
/* park the calling thread until `epoch` changes or the clock reaches deadline (ns, -1 none);
 * returns when the thread is rescheduled. */
void sim_park_epoll(int64_t deadline_ns);
void sim_park_sleep(int64_t until_ns);
void sim_bump_epoch(void);
int sim_thread_count_live(void);
extern uint64_t sim_yield_count;
extern uint64_t sim_switch_count;
uint64_t sim_sched_trace_hash(void);

/* ---- fds ---- */
void sim_fd_reset(void);
int sim_fd_lid(int fd);
int sim_open_fd_count(void);
void sim_fd_note_open(int fd, const char *what);
void sim_fd_note_close(int fd);
int64_t sim_fd_next_timer_deadline(int tid);  /* earliest armed timerfd deadline registered by a thread's epoll, or -1 */

/* ---- children ---- */
void sim_child_reset(void);
int sim_child_live_count(void);
int sim_child_zombie_count(void);
int64_t sim_child_next_event_ns(void);

/* ---- monitor (C18) ---- */
void sim_mon_attempt(const char *cap, const char *fn, const char *arg);

/* real libc entry points (the link-time wrap applies to our own objects too) */
#include <time.h>
#include <pthread.h>
#include <sys/epoll.h>
#include <sys/socket.h>
int __real_clock_gettime(clockid_t, struct timespec *);
ssize_t __real_read(int, void *, size_t);
ssize_t __real_write(int, const void *, size_t);
int __real_close(int);
int __real_epoll_wait(int, struct epoll_event *, int, int);
int __real_epoll_ctl(int, int, int, struct epoll_event *);
int __real_epoll_create1(int);
int __real_pthread_mutex_lock(pthread_mutex_t *);
int __real_pthread_mutex_unlock(pthread_mutex_t *);
int __real_pthread_create(pthread_t *, const pthread_attr_t *, void *(*)(void *), void *);
int __real_pthread_join(pthread_t, void **);
pid_t __real_fork(void);
pid_t __real_waitpid(pid_t, int *, int);
int __real_pipe(int[2]);
int __real_pipe2(int[2], int);
int __real_dup(int);
int __real_dup2(int, int);
int __real_kill(pid_t, int);
int __real_nanosleep(const struct timespec *, struct timespec *);
char *__real_getenv(const char *);
int __real_open64(const char *, int, ...);
int __real_open(const char *, int, ...);
FILE *__real_fopen64(const char *, const char *);
FILE *__real_fopen(const char *, const char *);

#endif
