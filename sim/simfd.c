/* simfd: fault-injecting byte transfer, shadow epoll table with synthetic edges,
 * simulated timerfd, descriptor accounting by logical id. Real kernel objects are used
 * for pipes and unix sockets; their state machine is deterministic once one thread runs
 * at a time. */
#ifndef _GNU_SOURCE
#define _GNU_SOURCE
#endif
#include "sim.h"
#include <errno.h>
#include <fcntl.h>
#include <limits.h>
#include <poll.h>
#include <stdlib.h>
#include <string.h>
#include <unistd.h>
#include <sys/timerfd.h>
#include <sys/un.h>

#define MAX_FD 4096
enum { K_NONE = 0, K_PIPE_R, K_PIPE_W, K_SOCK, K_EPOLL, K_TIMER, K_SELFPIPE_R, K_SELFPIPE_W, K_OTHER };

typedef struct {
    int kind;
    int lid;
    int64_t timer_deadline;
    uint64_t nr, nw, nep;
    uint32_t owed;      /* synthetic edges owed to epoll (EPOLLIN/EPOLLOUT/...) */
    int dgram;
} SimFd;

static SimFd fdt[MAX_FD];
static int next_lid;

#define MAX_REG 4096
static struct {
    int used;
    int epfd, fd;
    uint32_t events;
    epoll_data_t data;
    int owner_tid;
} regs[MAX_REG];

extern void sim_park_cond(int (*cond)(void *), void *arg, int64_t deadline_ns);
extern int64_t sim_mono_to_sim(int64_t mono_ns);

void sim_fd_reset(void) {
    memset(fdt, 0, sizeof fdt);
    memset(regs, 0, sizeof regs);
    next_lid = 1;
}

static int tracked(int fd) {
    return fd >= 0 && fd < MAX_FD && fdt[fd].kind != K_NONE;
}

int sim_fd_lid(int fd) {
    return tracked(fd) ? fdt[fd].lid : 0;
}

int sim_fd_is_tracked(int fd) {
    return tracked(fd) && fdt[fd].kind != K_NONE;
}

int sim_open_fd_count(void) {
    int n = 0;
    for (int i = 0; i < MAX_FD; i++)
        if (fdt[i].kind != K_NONE) n++;
    return n;
}

static void note_open(int fd, int kind) {
    if (fd < 0 || fd >= MAX_FD) return;
    memset(&fdt[fd], 0, sizeof fdt[fd]);
    fdt[fd].kind = kind;
    fdt[fd].lid = next_lid++;
    fdt[fd].timer_deadline = -1;
}

void sim_fd_note_open(int fd, const char *what) {
    (void) what;
    note_open(fd, K_OTHER);
}

void sim_fd_mark_selfpipe(int rfd, int wfd) {
    if (tracked(rfd)) fdt[rfd].kind = K_SELFPIPE_R;
    if (tracked(wfd)) {
        fdt[wfd].kind = K_SELFPIPE_W;
        /* the pipe_size knob is for the workload's pipes. The loop's own pipe keeps the kernel's default size:
         * a one-page pipe reports "not writable" as soon as it holds one message, and the loop thread posting
         * a second message to itself would then park for ever, which no real run does */
        if (sim_cfg.pipe_size > 0) fcntl(wfd, F_SETPIPE_SZ, 65536);
    }
}

void sim_fd_note_close(int fd) {
    if (!tracked(fd)) return;
    fdt[fd].kind = K_NONE;
    for (int i = 0; i < MAX_REG; i++)
        if (regs[i].used && (regs[i].fd == fd || regs[i].epfd == fd)) regs[i].used = 0;
}

static int is_nonblock(int fd) {
    int fl = fcntl(fd, F_GETFL);
    return fl >= 0 && (fl & O_NONBLOCK);
}

typedef struct {
    int fd;
    short ev;
} PollArg;

static int poll_ready(void *p) {
    PollArg *a = p;
    struct pollfd pfd = {a->fd, a->ev, 0};
    int r = poll(&pfd, 1, 0);
    return r != 0; /* ready, error or hup */
}

/* a blocking descriptor: never block in the kernel, park in the scheduler instead */
static void wait_blocking(int fd, short ev) {
    PollArg a = {fd, ev};
    while (!poll_ready(&a)) sim_park_cond(poll_ready, &a, -1);
}

static int stream_like(int fd) {
    if (!tracked(fd)) return 0;
    int k = fdt[fd].kind;
    return k == K_PIPE_R || k == K_PIPE_W || k == K_SOCK || k == K_SELFPIPE_R || k == K_SELFPIPE_W;
}

/* ---- read side ---- */
static ssize_t do_read(int fd, void *buf, size_t n, int flags, int is_recv,
                       struct sockaddr *from, socklen_t *fromlen, int is_recvfrom) {
    extern ssize_t __real_recv(int, void *, size_t, int);
    extern ssize_t __real_recvfrom(int, void *, size_t, int, struct sockaddr *, socklen_t *);
    SimFd *f = &fdt[fd];
    int selfpipe = f->kind == K_SELFPIPE_R;
    uint32_t lid = (uint32_t) f->lid;
    uint64_t k = f->nr++;
    int64_t prm;
    sim_yield("read");
    if (!tracked(fd)) {
        errno = EBADF;
        return -1;
    }
    int nb = is_nonblock(fd) || (flags & MSG_DONTWAIT);
    /* a signal can only interrupt a call that sleeps: on Linux a non-blocking transfer never returns EINTR */
    if (!nb && sim_decide(F_EINTR_R, lid, k, &prm)) {
        sim_fault_fired(F_EINTR_R, lid, k, 0);
        errno = EINTR;
        return -1;
    }
    if (nb && sim_decide(F_EAGAIN_R, lid, k, &prm)) {
        sim_fault_fired(F_EAGAIN_R, lid, k, 0);
        f->owed |= EPOLLIN;
        sim_bump_epoch();
        errno = EAGAIN;
        return -1;
    }
    size_t want = n;
    int shortened = 0;
    if (!selfpipe && !f->dgram && n > 1 && sim_decide(F_SHORT_R, lid, k, &prm)) {
        want = sim_cfg.explicit_mode ? (size_t) prm : 1 + (size_t)(prm % (int64_t)(n - 1));
        if (want < 1) want = 1;
        if (want > n) want = n;
        if (want < n) {
            shortened = 1;
            sim_fault_fired(F_SHORT_R, lid, k, (int64_t) want);
        }
    }
    if (!nb) wait_blocking(fd, POLLIN);
    ssize_t r;
    if (is_recvfrom) r = __real_recvfrom(fd, buf, want, flags, from, fromlen);
    else if (is_recv) r = __real_recv(fd, buf, want, flags);
    else r = __real_read(fd, buf, want);
    if (r > 0) {
        sim_bump_epoch();
        if (shortened && (size_t) r == want && tracked(fd)) {
            /* bytes may remain: an edge-triggered waiter must be told again */
            f->owed |= EPOLLIN;
            sim_probe("short_read_injected");
        }
    }
    return r;
}

ssize_t __wrap_read(int fd, void *buf, size_t n) {
    if (!sim_cfg.active || !stream_like(fd)) return __real_read(fd, buf, n);
    return do_read(fd, buf, n, 0, 0, NULL, NULL, 0);
}

ssize_t __wrap_recv(int fd, void *buf, size_t n, int flags) {
    extern ssize_t __real_recv(int, void *, size_t, int);
    if (!sim_cfg.active || !stream_like(fd)) return __real_recv(fd, buf, n, flags);
    return do_read(fd, buf, n, flags, 1, NULL, NULL, 0);
}

ssize_t __wrap_recvfrom(int fd, void *buf, size_t n, int flags, struct sockaddr *from, socklen_t *fromlen) {
    extern ssize_t __real_recvfrom(int, void *, size_t, int, struct sockaddr *, socklen_t *);
    if (!sim_cfg.active || !stream_like(fd)) return __real_recvfrom(fd, buf, n, flags, from, fromlen);
    return do_read(fd, buf, n, flags, 1, from, fromlen, 1);
}

/* ---- write side ---- */
static ssize_t do_write(int fd, const void *buf, size_t n, int flags, int is_send,
                        const struct sockaddr *to, socklen_t tolen, int is_sendto) {
    extern ssize_t __real_send(int, const void *, size_t, int);
    extern ssize_t __real_sendto(int, const void *, size_t, int, const struct sockaddr *, socklen_t);
    SimFd *f = &fdt[fd];
    int selfpipe = f->kind == K_SELFPIPE_W;
    int is_pipe = f->kind == K_PIPE_W;
    uint32_t lid = (uint32_t) f->lid;
    uint64_t k = f->nw++;
    int64_t prm;
    sim_yield("write");
    if (!tracked(fd)) {
        errno = EBADF;
        return -1;
    }
    int nb = is_nonblock(fd) || (flags & MSG_DONTWAIT);
    if (!nb && sim_decide(F_EINTR_W, lid, k, &prm)) {
        sim_fault_fired(F_EINTR_W, lid, k, 0);
        errno = EINTR;
        return -1;
    }
    if (nb && sim_decide(F_EAGAIN_W, lid, k, &prm)) {
        sim_fault_fired(F_EAGAIN_W, lid, k, 0);
        f->owed |= EPOLLOUT;
        sim_bump_epoch();
        errno = EAGAIN;
        return -1;
    }
    size_t want = n;
    int shortened = 0;
    /* pipes: writes of at most PIPE_BUF bytes are atomic, the kernel never splits them */
    if (!selfpipe && !f->dgram && n > 1 && (!is_pipe || n > PIPE_BUF) && sim_decide(F_SHORT_W, lid, k, &prm)) {
        want = sim_cfg.explicit_mode ? (size_t) prm : 1 + (size_t)(prm % (int64_t)(n - 1));
        if (want < 1) want = 1;
        if (want > n) want = n;
        if (want < n) {
            shortened = 1;
            sim_fault_fired(F_SHORT_W, lid, k, (int64_t) want);
        }
    }
    if (!nb) wait_blocking(fd, POLLOUT);
    ssize_t r;
    if (is_sendto) r = __real_sendto(fd, buf, want, flags, to, tolen);
    else if (is_send) r = __real_send(fd, buf, want, flags);
    else r = __real_write(fd, buf, want);
    if (r > 0) {
        sim_bump_epoch();
        if (shortened && tracked(fd)) {
            /* indistinguishable from "buffer was full, peer drained": owe the EPOLLOUT edge */
            f->owed |= EPOLLOUT;
            sim_probe("short_write_injected");
        }
        if ((size_t) r < n && !shortened) sim_probe("natural_partial_write");
    } else if (r < 0 && (errno == EAGAIN || errno == EWOULDBLOCK)) {
        sim_probe("natural_eagain_w");
    }
    return r;
}

ssize_t __wrap_write(int fd, const void *buf, size_t n) {
    if (!sim_cfg.active || !stream_like(fd)) return __real_write(fd, buf, n);
    return do_write(fd, buf, n, 0, 0, NULL, 0, 0);
}

ssize_t __wrap_send(int fd, const void *buf, size_t n, int flags) {
    extern ssize_t __real_send(int, const void *, size_t, int);
    if (!sim_cfg.active || !stream_like(fd)) return __real_send(fd, buf, n, flags);
    return do_write(fd, buf, n, flags, 1, NULL, 0, 0);
}

ssize_t __wrap_sendto(int fd, const void *buf, size_t n, int flags, const struct sockaddr *to, socklen_t tolen) {
    extern ssize_t __real_sendto(int, const void *, size_t, int, const struct sockaddr *, socklen_t);
    if (sim_cfg.active && sim_cfg.monitor && to) {
        sim_mon_attempt("net-connect", "sendto", "");
        errno = EACCES;
        return -1;
    }
    if (!sim_cfg.active || !stream_like(fd)) return __real_sendto(fd, buf, n, flags, to, tolen);
    return do_write(fd, buf, n, flags, 1, to, tolen, 1);
}

/* ---- descriptor lifecycle ---- */
int __wrap_close(int fd) {
    if (!sim_cfg.active) return __real_close(fd);
    sim_yield("close");
    sim_fd_note_close(fd);
    int r = __real_close(fd);
    if (r == -1 && errno == EBADF) {
        /* the program closed a descriptor that is not open: a double close (had the number been reused in
         * the meantime, it would have closed somebody else's descriptor) */
        int e = errno;
        sim_hist("!badclose", "%d", fd);
        errno = e;
    }
    sim_bump_epoch();
    return r;
}

static void tune_pipe(int fds[2]) {
    if (sim_cfg.pipe_size > 0) fcntl(fds[1], F_SETPIPE_SZ, sim_cfg.pipe_size);
}

int __wrap_pipe(int fds[2]) {
    int r = __real_pipe(fds);
    if (r == 0 && sim_cfg.active) {
        note_open(fds[0], K_PIPE_R);
        note_open(fds[1], K_PIPE_W);
        tune_pipe(fds);
    }
    return r;
}

int __wrap_pipe2(int fds[2], int flags) {
    int r = __real_pipe2(fds, flags);
    if (r == 0 && sim_cfg.active) {
        note_open(fds[0], K_PIPE_R);
        note_open(fds[1], K_PIPE_W);
        tune_pipe(fds);
    }
    return r;
}

extern int __real_socket(int, int, int);
int __wrap_socket(int dom, int type, int proto) {
    if (sim_cfg.active && sim_cfg.monitor) {
        /* creating a socket is not itself a capability use; connect/bind/listen are */
    }
    int r = __real_socket(dom, type, proto);
    if (r >= 0 && sim_cfg.active) {
        note_open(r, K_SOCK);
        if (r < MAX_FD) fdt[r].dgram = (type & 0xf) == SOCK_DGRAM;
        if (sim_cfg.sock_buf > 0) {
            int v = sim_cfg.sock_buf;
            setsockopt(r, SOL_SOCKET, SO_SNDBUF, &v, sizeof v);
            setsockopt(r, SOL_SOCKET, SO_RCVBUF, &v, sizeof v);
        }
    }
    return r;
}

int __wrap_dup(int fd) {
    int r = __real_dup(fd);
    if (r >= 0 && sim_cfg.active && tracked(fd)) {
        note_open(r, fdt[fd].kind);
        if (r < MAX_FD) fdt[r].dgram = fdt[fd].dgram;
    }
    return r;
}

/* fcntl(F_DUPFD / F_DUPFD_CLOEXEC) is dup() by another name: the copy must be known to the seam, or reads and
 * writes on it would bypass it (no faults, no epoch bumps: a waiter in another thread would never be re-polled) */
#include <stdarg.h>
#include <stddef.h>
extern int __real_fcntl(int, int, ...);
extern int __real_fcntl64(int, int, ...);
static int fcntl_common(int which, int fd, int cmd, long arg) {
    int r = which ? __real_fcntl64(fd, cmd, arg) : __real_fcntl(fd, cmd, arg);
    if (r >= 0 && sim_cfg.active && (cmd == F_DUPFD || cmd == F_DUPFD_CLOEXEC) && tracked(fd) && r < MAX_FD) {
        note_open(r, fdt[fd].kind);
        fdt[r].dgram = fdt[fd].dgram;
    }
    return r;
}
int __wrap_fcntl(int fd, int cmd, ...) {
    va_list ap;
    va_start(ap, cmd);
    long arg = va_arg(ap, long);
    va_end(ap);
    return fcntl_common(0, fd, cmd, arg);
}
int __wrap_fcntl64(int fd, int cmd, ...) {
    va_list ap;
    va_start(ap, cmd);
    long arg = va_arg(ap, long);
    va_end(ap);
    return fcntl_common(1, fd, cmd, arg);
}

int __wrap_dup2(int fd, int nfd) {
    if (sim_cfg.active && tracked(nfd)) sim_fd_note_close(nfd);
    int r = __real_dup2(fd, nfd);
    if (r >= 0 && sim_cfg.active && tracked(fd) && r != fd) {
        note_open(r, fdt[fd].kind);
        if (r < MAX_FD) fdt[r].dgram = fdt[fd].dgram;
    }
    return r;
}

extern int __real_accept4(int, struct sockaddr *, socklen_t *, int);
extern int __real_accept(int, struct sockaddr *, socklen_t *);
int __wrap_accept4(int fd, struct sockaddr *a, socklen_t *l, int flags) {
    if (!sim_cfg.active) return __real_accept4(fd, a, l, flags);
    sim_yield("accept");
    SimFd *f = tracked(fd) ? &fdt[fd] : NULL;
    int64_t prm;
    if (f) {
        uint64_t k = f->nr++;
        if (!is_nonblock(fd) && sim_decide(F_EINTR_R, (uint32_t) f->lid, k, &prm)) {
            sim_fault_fired(F_EINTR_R, (uint32_t) f->lid, k, 0);
            errno = EINTR;
            return -1;
        }
        if (is_nonblock(fd) && sim_decide(F_EAGAIN_R, (uint32_t) f->lid, k, &prm)) {
            sim_fault_fired(F_EAGAIN_R, (uint32_t) f->lid, k, 0);
            f->owed |= EPOLLIN;
            sim_bump_epoch();
            errno = EAGAIN;
            return -1;
        }
    }
    int r = __real_accept4(fd, a, l, flags);
    if (r >= 0) {
        note_open(r, K_SOCK);
        sim_bump_epoch();
        /* more connections may be queued: an edge-triggered listener is told again */
        if (f) f->owed |= EPOLLIN;
    }
    return r;
}

int __wrap_accept(int fd, struct sockaddr *a, socklen_t *l) {
    return __wrap_accept4(fd, a, l, 0);
}

extern int __real_connect(int, const struct sockaddr *, socklen_t);
int __wrap_connect(int fd, const struct sockaddr *a, socklen_t l) {
    if (!sim_cfg.active) return __real_connect(fd, a, l);
    if (sim_cfg.monitor) {
        char buf[128] = "";
        if (a && a->sa_family == AF_UNIX) snprintf(buf, sizeof buf, "unix:%s", ((const struct sockaddr_un *) a)->sun_path);
        else snprintf(buf, sizeof buf, "family=%d", a ? a->sa_family : -1);
        sim_mon_attempt("net-connect", "connect", buf);
        errno = EACCES;
        return -1;
    }
    sim_yield("connect");
    int r = __real_connect(fd, a, l);
    sim_bump_epoch();
    return r;
}

extern int __real_bind(int, const struct sockaddr *, socklen_t);
int __wrap_bind(int fd, const struct sockaddr *a, socklen_t l) {
    if (sim_cfg.active && sim_cfg.monitor) {
        sim_mon_attempt("net-listen", "bind", "");
        /* binding a unix socket to a path (not an abstract name) creates a file-system entry */
        if (a && a->sa_family == AF_UNIX && l > (socklen_t) offsetof(struct sockaddr_un, sun_path) &&
                ((const struct sockaddr_un *) a)->sun_path[0] != '\0')
            sim_mon_attempt("fs-write", "bind", ((const struct sockaddr_un *) a)->sun_path);
        errno = EACCES;
        return -1;
    }
    return __real_bind(fd, a, l);
}

extern int __real_listen(int, int);
int __wrap_listen(int fd, int n) {
    if (sim_cfg.active && sim_cfg.monitor) {
        sim_mon_attempt("net-listen", "listen", "");
        errno = EACCES;
        return -1;
    }
    return __real_listen(fd, n);
}

extern int __real_shutdown(int, int);
int __wrap_shutdown(int fd, int how) {
    if (!sim_cfg.active) return __real_shutdown(fd, how);
    sim_yield("shutdown");
    int r = __real_shutdown(fd, how);
    sim_bump_epoch();
    return r;
}

/* ---- timerfd ---- */
extern int __real_timerfd_create(int, int);
int __wrap_timerfd_create(int clk, int flags) {
    int r = __real_timerfd_create(clk, flags);
    if (r >= 0 && sim_cfg.active) note_open(r, K_TIMER);
    return r;
}

extern int __real_timerfd_settime(int, int, const struct itimerspec *, struct itimerspec *);
int __wrap_timerfd_settime(int fd, int flags, const struct itimerspec *its, struct itimerspec *old) {
    if (!sim_cfg.active || !tracked(fd) || fdt[fd].kind != K_TIMER) return __real_timerfd_settime(fd, flags, its, old);
    /* the real timer is never armed: only the deadline is recorded */
    int64_t v = (int64_t) its->it_value.tv_sec * 1000000000LL + its->it_value.tv_nsec;
    if (v == 0) fdt[fd].timer_deadline = -1;
    else if (flags & TFD_TIMER_ABSTIME) fdt[fd].timer_deadline = sim_mono_to_sim(v);
    else fdt[fd].timer_deadline = sim_now_ns() + v;
    if (fdt[fd].timer_deadline < 0 && v != 0) fdt[fd].timer_deadline = 0;
    if (old) memset(old, 0, sizeof *old);
    return 0;
}

/* ---- epoll ---- */
int __wrap_epoll_create1(int flags) {
    int r = __real_epoll_create1(flags);
    if (r >= 0 && sim_cfg.active) note_open(r, K_EPOLL);
    return r;
}

int __wrap_epoll_ctl(int epfd, int op, int fd, struct epoll_event *ev) {
    int r = __real_epoll_ctl(epfd, op, fd, ev);
    if (!sim_cfg.active || r != 0) return r;
    int slot = -1, free_slot = -1;
    for (int i = 0; i < MAX_REG; i++) {
        if (regs[i].used && regs[i].epfd == epfd && regs[i].fd == fd) slot = i;
        if (!regs[i].used && free_slot < 0) free_slot = i;
    }
    if (op == EPOLL_CTL_DEL) {
        if (slot >= 0) regs[slot].used = 0;
        return r;
    }
    if (slot < 0) slot = free_slot;
    if (slot < 0) sim_die(SIM_EXIT_HARNESS, "!harness", "epoll registration table full");
    regs[slot].used = 1;
    regs[slot].epfd = epfd;
    regs[slot].fd = fd;
    regs[slot].events = ev->events;
    regs[slot].data = ev->data;
    regs[slot].owner_tid = sim_tid();
    return r;
}

static int64_t epfd_timer_deadline(int epfd) {
    int64_t best = -1;
    for (int i = 0; i < MAX_REG; i++) {
        if (!regs[i].used || regs[i].epfd != epfd) continue;
        int fd = regs[i].fd;
        if (tracked(fd) && fdt[fd].kind == K_TIMER && fdt[fd].timer_deadline >= 0) {
            if (best < 0 || fdt[fd].timer_deadline < best) best = fdt[fd].timer_deadline;
        }
    }
    return best;
}

static int find_reg(int epfd, epoll_data_t data) {
    for (int i = 0; i < MAX_REG; i++)
        if (regs[i].used && regs[i].epfd == epfd && regs[i].data.u64 == data.u64) return i;
    return -1;
}

/* gather what is ready right now: kernel readiness + owed synthetic edges + expired timers */
static int collect(int epfd, struct epoll_event *evs, int max) {
    int n = __real_epoll_wait(epfd, evs, max, 0);
    if (n < 0) n = 0;
    /* the kernel also reports the (never armed) timerfd? no: it is never readable */
    for (int i = 0; i < MAX_REG && n < max; i++) {
        if (!regs[i].used || regs[i].epfd != epfd) continue;
        int fd = regs[i].fd;
        if (!tracked(fd)) continue;
        uint32_t add = 0;
        if (fdt[fd].kind == K_TIMER) {
            if (fdt[fd].timer_deadline >= 0 && fdt[fd].timer_deadline <= sim_now_ns()) {
                fdt[fd].timer_deadline = -1;
                add = EPOLLIN;
            }
        } else if (fdt[fd].owed) {
            add = fdt[fd].owed & (regs[i].events | EPOLLHUP | EPOLLERR);
            fdt[fd].owed = 0;
        }
        if (!add) continue;
        int found = -1;
        for (int k = 0; k < n; k++)
            if (evs[k].data.u64 == regs[i].data.u64) found = k;
        if (found >= 0) evs[found].events |= add;
        else {
            evs[n].events = add;
            evs[n].data = regs[i].data;
            n++;
        }
    }
    return n;
}

int __wrap_epoll_wait(int epfd, struct epoll_event *evs, int max, int timeout) {
    if (!sim_cfg.active) return __real_epoll_wait(epfd, evs, max, timeout);
    sim_yield("epoll_wait");
    SimFd *ef = tracked(epfd) ? &fdt[epfd] : NULL;
    uint32_t lid = ef ? (uint32_t) ef->lid : 0;
    uint64_t k = ef ? ef->nep++ : 0;
    int64_t prm;
    if (sim_decide(F_EPOLL_EINTR, lid, k, &prm)) {
        sim_fault_fired(F_EPOLL_EINTR, lid, k, 0);
        errno = EINTR;
        return -1;
    }
    int64_t tmo_deadline = timeout > 0 ? sim_now_ns() + (int64_t) timeout * 1000000LL : -1;
    for (;;) {
        int n = collect(epfd, evs, max);
        if (n > 0) {
            /* delivery latency: some ready events are reported by a later call instead */
            if (n > 1 && sim_decide(F_EPOLL_DELAY, lid, k, &prm)) {
                int keep = sim_cfg.explicit_mode ? (int) prm : 1 + (int)(prm % (n - 1));
                if (keep < 1) keep = 1;
                if (keep < n) {
                    sim_fault_fired(F_EPOLL_DELAY, lid, k, keep);
                    for (int i = keep; i < n; i++) {
                        int r = find_reg(epfd, evs[i].data);
                        if (r >= 0 && tracked(regs[r].fd)) {
                            if (fdt[regs[r].fd].kind == K_TIMER) fdt[regs[r].fd].timer_deadline = sim_now_ns();
                            else fdt[regs[r].fd].owed |= evs[i].events;
                        }
                    }
                    n = keep;
                }
            }
            if (n > 1 && sim_decide(F_EPOLL_REORDER, lid, k, &prm)) {
                /* the kernel promises no order among ready descriptors */
                uint64_t h = (uint64_t) prm;
                sim_fault_fired(F_EPOLL_REORDER, lid, k, prm);
                for (int i = n - 1; i > 0; i--) {
                    h = sim_hash(h, 5, (uint64_t) i, 0);
                    int j = (int)(h % (uint64_t)(i + 1));
                    struct epoll_event t = evs[i];
                    evs[i] = evs[j];
                    evs[j] = t;
                }
            }
            return n;
        }
        if (timeout == 0) return 0;
        if (tmo_deadline >= 0 && sim_now_ns() >= tmo_deadline) return 0;
        int64_t dl = epfd_timer_deadline(epfd);
        if (tmo_deadline >= 0 && (dl < 0 || tmo_deadline < dl)) dl = tmo_deadline;
        sim_park_epoll(dl);
    }
}

int64_t sim_fd_next_timer_deadline(int tid) {
    (void) tid;
    return -1;
}
