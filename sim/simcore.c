/* simcore: decision function, fault accounting, probes, history log */
#ifndef _GNU_SOURCE
#define _GNU_SOURCE
#endif
#include "sim.h"
#include <stdarg.h>
#include <stdlib.h>
#include <string.h>
#include <unistd.h>
#include <fcntl.h>
#include <errno.h>
#include <sys/syscall.h>

SimConfig sim_cfg;
uint64_t sim_fault_count[F_KINDS];

const char *sim_fault_names[F_KINDS] = {
    "eintr_r", "eintr_w", "eagain_r", "eagain_w", "short_r", "short_w",
    "epoll_eintr", "epoll_delay", "epoll_reorder", "epoll_split",
    "clock_jump", "switch", "gc"
};

static uint64_t mix(uint64_t z) {
    z += 0x9e3779b97f4a7c15ULL;
    z = (z ^ (z >> 30)) * 0xbf58476d1ce4e5b9ULL;
    z = (z ^ (z >> 27)) * 0x94d049bb133111ebULL;
    return z ^ (z >> 31);
}

uint64_t sim_hash(uint64_t seed, uint64_t kind, uint64_t obj, uint64_t n) {
    uint64_t h = mix(seed);
    h = mix(h ^ (kind * 0x100000001b3ULL));
    h = mix(h ^ (obj + 0x51ed27));
    h = mix(h ^ n);
    return h;
}

/* tagged payload bytes: byte `off` of stream w is a function of (w, off) */
uint8_t sim_tagb(uint64_t w, uint64_t off) {
    uint8_t b = (uint8_t)(sim_hash(0x7A6, w, off >> 3, 0) >> ((off & 7) * 8));
    /* tag streams 100..999 are used by several writers on one stream: the top two bits name the
     * writer (w mod 10), so that bytes of different writers can never be confused */
    if (w >= 100 && w < 1000) b = (uint8_t)((((w % 10) & 3) << 6) | (b & 0x3f));
    return b;
}

int sim_decide(int kind, uint32_t obj, uint64_t n, int64_t *param_out) {
    if (!sim_cfg.active) return 0;
    if (sim_cfg.explicit_mode) {
        for (size_t i = 0; i < sim_cfg.ex_count; i++) {
            SimExplicit *e = &sim_cfg.ex[i];
            if (e->kind == (uint32_t) kind && e->obj == obj && e->n == n) {
                if (param_out) *param_out = e->param;
                return 1;
            }
        }
        return 0;
    }
    double p = sim_cfg.p[kind];
    if (p <= 0) return 0;
    uint64_t h = sim_hash(sim_cfg.seed, (uint64_t) kind, obj, n);
    double u = (double)(h >> 11) / 9007199254740992.0;
    if (u >= p) return 0;
    if (param_out) *param_out = (int64_t)(mix(h) >> 1);
    return 1;
}

/* ---- history ---- */
static int hist_fd = -1;
static char *hist_buf;
static size_t hist_len, hist_cap;
static uint64_t hist_seq;

void sim_hist_open(const char *path) {
    int fd = __real_open(path, O_WRONLY | O_CREAT | O_TRUNC | O_CLOEXEC, 0644);
    if (fd < 0) {
        fprintf(stderr, "jsim: cannot open history %s\n", path);
        _exit(SIM_EXIT_HARNESS);
    }
    /* keep it out of the way of the descriptors the run itself allocates */
    int hi = fcntl(fd, F_DUPFD_CLOEXEC, 900);
    if (hi >= 0) {
        __real_close(fd);
        fd = hi;
    }
    hist_fd = fd;
    hist_cap = 1 << 16;
    hist_buf = malloc(hist_cap);
    hist_len = 0;
    hist_seq = 0;
}

void sim_hist_flush(void) {
    size_t off = 0;
    while (off < hist_len && hist_fd >= 0) {
        /* raw system call: the sanitizers intercept libc's write() even from this uninstrumented
         * object and would see the buffer as shared state without synchronisation (the baton is
         * invisible to them by design) */
        ssize_t w = syscall(SYS_write, hist_fd, hist_buf + off, hist_len - off);
        if (w < 0) {
            if (errno == EINTR) continue;
            break;
        }
        off += (size_t) w;
    }
    hist_len = 0;
}

uint64_t sim_seq(void) {
    return hist_seq;
}

static void hist_append(const char *s, size_t n) {
    if (hist_fd < 0) return;
    if (hist_len + n > hist_cap) {
        sim_hist_flush();
        if (n > hist_cap) {
            hist_cap = n * 2;
            hist_buf = realloc(hist_buf, hist_cap);
        }
    }
    /* hand-rolled copy for the same reason (memcpy is intercepted) */
    volatile char *dst = hist_buf + hist_len;
    for (size_t i = 0; i < n; i++) dst[i] = s[i];
    hist_len += n;
}

void sim_hist_raw(const char *kind, const char *payload, size_t len) {
    char head[128];
    int k = snprintf(head, sizeof head, "%llu\t%lld\t%d\t%s\t", (unsigned long long) hist_seq++,
                     (long long) sim_now_ns(), sim_tid(), kind);
    hist_append(head, (size_t) k);
    hist_append(payload, len);
    hist_append("\n", 1);
}

void sim_hist(const char *kind, const char *fmt, ...) {
    char buf[1024];
    va_list ap;
    va_start(ap, fmt);
    int n = vsnprintf(buf, sizeof buf, fmt, ap);
    va_end(ap);
    if (n < 0) n = 0;
    if ((size_t) n >= sizeof buf) n = sizeof buf - 1;
    sim_hist_raw(kind, buf, (size_t) n);
}

void sim_fault_fired(int kind, uint32_t obj, uint64_t n, int64_t param) {
    sim_fault_count[kind]++;
    sim_hist("!fault", "%s %u %llu %lld", sim_fault_names[kind], obj, (unsigned long long) n, (long long) param);
}

/* ---- probes ---- */
#define MAX_PROBES 128
static struct {
    const char *name;
    uint64_t n;
} probes[MAX_PROBES];
static int nprobes;

void sim_probe(const char *name) {
    for (int i = 0; i < nprobes; i++) {
        if (probes[i].name == name || !strcmp(probes[i].name, name)) {
            probes[i].n++;
            return;
        }
    }
    if (nprobes < MAX_PROBES) {
        probes[nprobes].name = strdup(name);
        probes[nprobes].n = 1;
        nprobes++;
    }
}

void sim_probe_dump(void) {
    for (int i = 0; i < nprobes; i++)
        sim_hist("!probe", "%s %llu", probes[i].name, (unsigned long long) probes[i].n);
    for (int k = 0; k < F_KINDS; k++)
        if (sim_fault_count[k])
            sim_hist("!faults", "%s %llu", sim_fault_names[k], (unsigned long long) sim_fault_count[k]);
}

void sim_die(int code, const char *kind, const char *fmt, ...) {
    char buf[1024];
    va_list ap;
    va_start(ap, fmt);
    vsnprintf(buf, sizeof buf, fmt, ap);
    va_end(ap);
    sim_cfg.active = 0;
    sim_hist_raw(kind, buf, strlen(buf));
    sim_probe_dump();
    sim_hist("!end", "%d yields=%llu switches=%llu sched=%016llx", code, (unsigned long long) sim_yield_count,
             (unsigned long long) sim_switch_count, (unsigned long long) sim_sched_trace_hash());
    sim_hist_flush();
    _exit(code);
}
