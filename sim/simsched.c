/* simsched: serialising thread scheduler.  Real threads, exactly one holds the baton.
 * The baton is handed over through a per-thread word and raw futex system calls, so the
 * hand-over is invisible to ThreadSanitizer (this object is never instrumented).
 * Only the baton holder touches scheduler state, so no lock is needed. */
#ifndef _GNU_SOURCE
#define _GNU_SOURCE
#endif
#include "sim.h"
#include <stdlib.h>
#include <string.h>
#include <unistd.h>
#include <errno.h>
#include <limits.h>
#include <sys/syscall.h>
#include <linux/futex.h>

#define MAX_T 256

enum { T_FREE = 0, T_RUNNABLE, T_BLK_EPOLL, T_BLK_MUTEX, T_BLK_RW, T_BLK_JOIN, T_BLK_SLEEP, T_BLK_COND, T_DONE };
static const char *state_names[] = {"free", "runnable", "epoll", "mutex", "rwlock", "join", "sleep", "cond", "done"};

typedef struct {
    int state;
    volatile int go;
    pthread_t pt;
    uint64_t seen_epoch;
    int64_t deadline;
    void *waiting_on;
    int rw_mode;
    int (*cond)(void *);
    void *cond_arg;
    void *(*fn)(void *);
    void *arg;
    int64_t prio;
    int is_actor;
    int lid;          /* logical thread id (creation order), what histories show */
    int detached;
} SimThread;

static SimThread threads[MAX_T];
static int nthreads;
static __thread int my_tid;   /* slot index */
static int next_lid;
static uint64_t epoch;
uint64_t sim_yield_count;
uint64_t sim_switch_count;
static uint64_t trace_hash;
static int sched_on;

/* shadow mutex table */
#define MAX_M 256
static struct {
    void *addr;
    int owner;
    int count;
} mtab[MAX_M];
/* shadow rwlock table */
static struct {
    void *addr;
    int writer;   /* tid or -1 */
    int readers;
} rwtab[MAX_M];

static long futex(volatile int *addr, int op, int val) {
    return syscall(SYS_futex, addr, op, val, NULL, NULL, 0);
}

int sim_tid(void) {
    return threads[my_tid].lid;
}

uint64_t sim_sched_trace_hash(void) {
    return trace_hash;
}

void sim_bump_epoch(void) {
    epoch++;
}

void sim_sched_init(void) {
    memset(threads, 0, sizeof threads);
    memset(mtab, 0, sizeof mtab);
    memset(rwtab, 0, sizeof rwtab);
    for (int i = 0; i < MAX_M; i++) rwtab[i].writer = -1;
    nthreads = 1;
    my_tid = 0;
    next_lid = 1;
    threads[0].lid = 0;
    threads[0].state = T_RUNNABLE;
    threads[0].pt = pthread_self();
    threads[0].prio = (int64_t)(sim_hash(sim_cfg.seed, 9001, 0, 0) >> 2);
    epoch = 1;
    sim_yield_count = 0;
    sim_switch_count = 0;
    trace_hash = 0;
    sched_on = 1;
}

int sim_thread_count_live(void) {
    int n = 0;
    for (int i = 0; i < nthreads; i++)
        if (threads[i].state != T_DONE && threads[i].state != T_FREE && !threads[i].is_actor) n++;
    return n;
}

static int find_m(void *addr, int create) {
    int free_slot = -1;
    for (int i = 0; i < MAX_M; i++) {
        if (mtab[i].addr == addr) return i;
        if (mtab[i].addr == NULL && free_slot < 0) free_slot = i;
    }
    if (!create) return -1;
    if (free_slot < 0) sim_die(SIM_EXIT_HARNESS, "!harness", "mutex table full");
    mtab[free_slot].addr = addr;
    mtab[free_slot].owner = -1;
    mtab[free_slot].count = 0;
    return free_slot;
}

static int find_rw(void *addr, int create) {
    int free_slot = -1;
    for (int i = 0; i < MAX_M; i++) {
        if (rwtab[i].addr == addr) return i;
        if (rwtab[i].addr == NULL && free_slot < 0) free_slot = i;
    }
    if (!create) return -1;
    if (free_slot < 0) sim_die(SIM_EXIT_HARNESS, "!harness", "rwlock table full");
    rwtab[free_slot].addr = addr;
    rwtab[free_slot].writer = -1;
    rwtab[free_slot].readers = 0;
    return free_slot;
}

static int is_candidate(int i) {
    SimThread *t = &threads[i];
    switch (t->state) {
        case T_RUNNABLE:
            return 1;
        case T_BLK_EPOLL:
            return t->seen_epoch != epoch || (t->deadline >= 0 && t->deadline <= sim_now_ns());
        case T_BLK_SLEEP:
            return t->deadline <= sim_now_ns();
        case T_BLK_MUTEX: {
            int m = find_m(t->waiting_on, 0);
            return m < 0 || mtab[m].owner < 0;
        }
        case T_BLK_RW: {
            int m = find_rw(t->waiting_on, 0);
            if (m < 0) return 1;
            if (t->rw_mode) return rwtab[m].writer < 0 && rwtab[m].readers == 0;
            return rwtab[m].writer < 0;
        }
        case T_BLK_JOIN:
            return threads[(intptr_t) t->waiting_on].state == T_DONE;
        case T_BLK_COND:
            return (t->deadline >= 0 && t->deadline <= sim_now_ns()) || t->cond(t->cond_arg);
        default:
            return 0;
    }
}

static void dump_threads(char *buf, size_t n) {
    size_t off = 0;
    for (int i = 0; i < nthreads && off + 40 < n; i++)
        if (threads[i].state != T_FREE)
            off += (size_t) snprintf(buf + off, n - off, "%st%d=%s", off ? " " : "", threads[i].lid, state_names[threads[i].state]);
}

/* choose who runs next. me_runnable: the caller may continue. returns tid. */
static int pick(int me_runnable) {
    for (;;) {
        int cand[MAX_T], nc = 0;
        for (int i = 0; i < nthreads; i++)
            if (is_candidate(i)) cand[nc++] = i;
        if (nc == 0) {
            /* nothing can run: advance the clock to the earliest deadline */
            int64_t best = -1;
            for (int i = 0; i < nthreads; i++) {
                SimThread *t = &threads[i];
                if ((t->state == T_BLK_EPOLL || t->state == T_BLK_SLEEP || t->state == T_BLK_COND) && t->deadline >= 0) {
                    if (best < 0 || t->deadline < best) best = t->deadline;
                }
            }
            int64_t ce = sim_child_next_event_ns();
            if (ce >= 0 && (best < 0 || ce < best)) best = ce;
            if (best < 0) {
                char buf[512];
                dump_threads(buf, sizeof buf);
                sim_die(SIM_EXIT_DEADLOCK, "!deadlock", "%s", buf);
            }
            if (sim_cfg.max_sim_ns > 0 && best > sim_cfg.max_sim_ns)
                sim_die(SIM_EXIT_LIVELOCK, "!livelock", "simulated time cap reached (%lld ns)", (long long) best);
            sim_clock_advance_to(best);
            continue;
        }
        uint64_t n = sim_yield_count;
        int def;          /* default decision: stay if possible, else lowest tid */
        if (me_runnable) def = my_tid;
        else def = cand[0];
        int chosen = def;
        if (nc > 1 || (nc == 1 && cand[0] != def)) {
            if (sim_cfg.explicit_mode) {
                int64_t prm;
                if (sim_decide(F_SWITCH, 0, n, &prm)) {
                    for (int k = 0; k < nc; k++)
                        if (cand[k] == (int) prm) chosen = (int) prm;
                }
            } else if (sim_cfg.sched_mode == SCHED_PCT) {
                int64_t bestp = -1;
                for (int k = 0; k < nc; k++) {
                    if (threads[cand[k]].prio > bestp) {
                        bestp = threads[cand[k]].prio;
                        chosen = cand[k];
                    }
                }
            } else {
                int64_t prm;
                if (!me_runnable) {
                    uint64_t h = sim_hash(sim_cfg.seed, 9002, 0, n);
                    chosen = cand[h % (uint64_t) nc];
                } else if (sim_decide(F_SWITCH, 0, n, &prm)) {
                    /* preempt: pick another candidate */
                    int others[MAX_T], no = 0;
                    for (int k = 0; k < nc; k++)
                        if (cand[k] != my_tid) others[no++] = cand[k];
                    if (no > 0) chosen = others[(uint64_t) prm % (uint64_t) no];
                }
            }
        }
        if (chosen != def) {
            /* record as an explicit decision so that replay does not need the mode */
            if (!sim_cfg.explicit_mode || 1) {
                sim_fault_count[F_SWITCH]++;
                sim_hist("!fault", "switch 0 %llu %d", (unsigned long long) n, chosen);
            }
        }
        return chosen;
    }
}

static void wait_go(void) {
    SimThread *me = &threads[my_tid];
    while (!__atomic_load_n(&me->go, __ATOMIC_ACQUIRE))
        futex(&me->go, FUTEX_WAIT, 0);
    __atomic_store_n(&me->go, 0, __ATOMIC_RELAXED);
}

static void give_go(int to) {
    __atomic_store_n(&threads[to].go, 1, __ATOMIC_RELEASE);
    futex(&threads[to].go, FUTEX_WAKE, 1);
}

static void switch_to(int to) {
    if (to == my_tid) return;
    sim_switch_count++;
    trace_hash = sim_hash(trace_hash, 77, (uint64_t) to, sim_yield_count);
    give_go(to);
    wait_go();
}

static void pct_change_point(void) {
    /* PCT: at d seeded change points the running thread drops to the lowest priority */
    if (sim_cfg.sched_mode != SCHED_PCT || sim_cfg.explicit_mode) return;
    for (int k = 0; k < sim_cfg.pct_depth; k++) {
        uint64_t at = sim_hash(sim_cfg.seed, 9003, (uint64_t) k, 0) % 4000;
        if (at == sim_yield_count) threads[my_tid].prio = -1 - (int64_t) k;
    }
}

void sim_yield(const char *why) {
    (void) why;
    if (!sched_on || !sim_cfg.active) return;
    sim_yield_count++;
    if (sim_cfg.max_yields && sim_yield_count > sim_cfg.max_yields)
        sim_die(SIM_EXIT_LIVELOCK, "!livelock", "yield cap reached");
    if (nthreads == 1) return;
    pct_change_point();
    int to = pick(1);
    switch_to(to);
}

/* block the calling thread in the given state until it is chosen again */
static void block(int state) {
    SimThread *me = &threads[my_tid];
    sim_yield_count++;
    if (sim_cfg.max_yields && sim_yield_count > sim_cfg.max_yields)
        sim_die(SIM_EXIT_LIVELOCK, "!livelock", "yield cap reached");
    me->state = state;
    int to = pick(0);
    me->state = T_RUNNABLE; /* state of the chosen thread is reset by itself; if it is us, fine */
    if (to != my_tid) {
        me->state = state;
        switch_to(to);
        me->state = T_RUNNABLE;
    }
}

void sim_park_epoll(int64_t deadline_ns) {
    SimThread *me = &threads[my_tid];
    me->seen_epoch = epoch;
    me->deadline = deadline_ns;
    block(T_BLK_EPOLL);
}

void sim_park_sleep(int64_t until_ns) {
    threads[my_tid].deadline = until_ns;
    block(T_BLK_SLEEP);
}

void sim_park_cond(int (*cond)(void *), void *arg, int64_t deadline_ns) {
    SimThread *me = &threads[my_tid];
    me->cond = cond;
    me->cond_arg = arg;
    me->deadline = deadline_ns;
    block(T_BLK_COND);
}

/* ---- threads ---- */

static void *trampoline(void *p) {
    int tid = (int)(intptr_t) p;
    my_tid = tid;
    wait_go();
    SimThread *me = &threads[tid];
    sim_hist("!thread", "start %d", me->lid);
    me->fn(me->arg);
    /* thread is finished: hand the baton on without waiting for it again */
    sim_hist("!thread", "exit %d", me->lid);
    me->state = me->detached ? T_FREE : T_DONE;
    epoch++;
    sim_yield_count++;
    int to = pick(0);
    sim_switch_count++;
    trace_hash = sim_hash(trace_hash, 78, (uint64_t) to, sim_yield_count);
    int detached = me->detached;
    give_go(to);
    if (detached) {
        /* A detached thread never returns into libc's thread-exit path: that path frees memory
         * concurrently with whoever holds the baton now, which would make later addresses (and with
         * them Janet's pointer hashes) depend on real timing. The OS thread stays parked until the
         * run's process exits. */
        static volatile int never;
        for (;;) futex(&never, FUTEX_WAIT, 0);
    }
    return NULL;
}

int sim_spawn_thread(pthread_t *out, const pthread_attr_t *attr, void *(*fn)(void *), void *arg, int is_actor) {
    int tid = -1;
    for (int i = 1; i < nthreads; i++) {
        if (threads[i].state == T_FREE) {
            tid = i;
            break;
        }
    }
    if (tid < 0) {
        if (nthreads >= MAX_T) sim_die(SIM_EXIT_HARNESS, "!harness", "too many live threads");
        tid = nthreads++;
    }
    SimThread *t = &threads[tid];
    memset(t, 0, sizeof *t);
    t->lid = next_lid++;
    if (attr) {
        int ds = 0;
        if (pthread_attr_getdetachstate(attr, &ds) == 0 && ds == PTHREAD_CREATE_DETACHED) t->detached = 1;
    }
    t->state = T_RUNNABLE;
    t->fn = fn;
    t->arg = arg;
    t->is_actor = is_actor;
    t->prio = (int64_t)(sim_hash(sim_cfg.seed, 9001, (uint64_t) tid, 0) >> 2);
    pthread_t pt;
    int err = __real_pthread_create(&pt, attr, trampoline, (void *)(intptr_t) tid);
    if (err) {
        t->state = T_FREE;
        return err;
    }
    t->pt = pt;
    if (out) *out = pt;
    epoch++;
    sim_hist("!thread", "create %d", t->lid);
    return 0;
}

int __wrap_pthread_create(pthread_t *out, const pthread_attr_t *attr, void *(*fn)(void *), void *arg) {
    if (!sched_on || !sim_cfg.active) return __real_pthread_create(out, attr, fn, arg);
    int err = sim_spawn_thread(out, attr, fn, arg, 0);
    if (!err) sim_yield("create");
    return err;
}

int __wrap_pthread_join(pthread_t pt, void **ret) {
    if (!sched_on || !sim_cfg.active) return __real_pthread_join(pt, ret);
    int target = -1;
    for (int i = 0; i < nthreads; i++)
        if (threads[i].state != T_FREE && pthread_equal(threads[i].pt, pt)) target = i;
    if (target < 0) return __real_pthread_join(pt, ret);
    sim_yield("join");
    while (threads[target].state != T_DONE) {
        threads[my_tid].waiting_on = (void *)(intptr_t) target;
        block(T_BLK_JOIN);
    }
    threads[target].state = T_FREE;
    return __real_pthread_join(pt, ret);
}

int __wrap_pthread_cancel(pthread_t pt) {
    (void) pt;
    if (!sched_on || !sim_cfg.active) return 0;
    sim_die(SIM_EXIT_UNSUPPORTED, "!unsupported", "pthread_cancel (interrupting deadlines are out of scope)");
}

int __wrap_pthread_mutex_lock(pthread_mutex_t *m) {
    if (!sched_on || !sim_cfg.active) return __real_pthread_mutex_lock(m);
    sim_yield("lock");
    int i = find_m(m, 1);
    while (mtab[i].owner >= 0 && mtab[i].owner != my_tid) {
        threads[my_tid].waiting_on = m;
        block(T_BLK_MUTEX);
        i = find_m(m, 1);
    }
    mtab[i].owner = my_tid;
    mtab[i].count++;
    int r = __real_pthread_mutex_lock(m);
    return r;
}

int __wrap_pthread_mutex_unlock(pthread_mutex_t *m) {
    if (!sched_on || !sim_cfg.active) return __real_pthread_mutex_unlock(m);
    int r = __real_pthread_mutex_unlock(m);
    int i = find_m(m, 0);
    if (i >= 0 && mtab[i].owner == my_tid) {
        if (--mtab[i].count <= 0) {
            mtab[i].addr = NULL;
            mtab[i].owner = -1;
            epoch++;
        }
    }
    sim_yield("unlock");
    return r;
}

/* does the calling thread own this mutex? (lock-discipline assertion, hook H2) */
int sim_mutex_owned_by_me(void *m) {
    int i = find_m(m, 0);
    return i >= 0 && mtab[i].owner == my_tid;
}

extern int __real_pthread_rwlock_rdlock(pthread_rwlock_t *);
extern int __real_pthread_rwlock_wrlock(pthread_rwlock_t *);
extern int __real_pthread_rwlock_unlock(pthread_rwlock_t *);

int __wrap_pthread_rwlock_rdlock(pthread_rwlock_t *l) {
    if (!sched_on || !sim_cfg.active) return __real_pthread_rwlock_rdlock(l);
    sim_yield("rdlock");
    int i = find_rw(l, 1);
    while (rwtab[i].writer >= 0) {
        threads[my_tid].waiting_on = l;
        threads[my_tid].rw_mode = 0;
        block(T_BLK_RW);
        i = find_rw(l, 1);
    }
    rwtab[i].readers++;
    return __real_pthread_rwlock_rdlock(l);
}

int __wrap_pthread_rwlock_wrlock(pthread_rwlock_t *l) {
    if (!sched_on || !sim_cfg.active) return __real_pthread_rwlock_wrlock(l);
    sim_yield("wrlock");
    int i = find_rw(l, 1);
    while (rwtab[i].writer >= 0 || rwtab[i].readers > 0) {
        threads[my_tid].waiting_on = l;
        threads[my_tid].rw_mode = 1;
        block(T_BLK_RW);
        i = find_rw(l, 1);
    }
    rwtab[i].writer = my_tid;
    return __real_pthread_rwlock_wrlock(l);
}

int __wrap_pthread_rwlock_unlock(pthread_rwlock_t *l) {
    if (!sched_on || !sim_cfg.active) return __real_pthread_rwlock_unlock(l);
    int r = __real_pthread_rwlock_unlock(l);
    int i = find_rw(l, 0);
    if (i >= 0) {
        if (rwtab[i].writer == my_tid) rwtab[i].writer = -1;
        else if (rwtab[i].readers > 0) rwtab[i].readers--;
        if (rwtab[i].writer < 0 && rwtab[i].readers == 0) rwtab[i].addr = NULL;
        epoch++;
    }
    sim_yield("rwunlock");
    return r;
}
