/* simchild: in-process child-process actors behind posix_spawn/waitpid/kill.
 * No real process is created (stub). The recorded file actions decide which real pipe
 * ends the actor gets as its descriptors 0/1/2; the actor is a simulator thread running a
 * tiny scripted program chosen by argv:
 *     sim-child <op>...      ops:  r<n>  read n bytes from stdin (stop at EOF)
 *                                  R     read stdin until EOF
 *                                  w<n>  write n tagged bytes to stdout      e<n> same to stderr
 *                                  C     cat: copy stdin to stdout until EOF
 *                                  s<ms> sleep (simulated)      c<fd> close descriptor fd
 *                                  x<code> exit with code       k<sig> die by signal
 * Bytes written by an actor are a function of (pid index, stream, offset) so every byte
 * read by the program under test is attributable. */
#ifndef _GNU_SOURCE
#define _GNU_SOURCE
#endif
#include "sim.h"
#include <errno.h>
#include <fcntl.h>
#include <poll.h>
#include <signal.h>
#include <spawn.h>
#include <stdlib.h>
#include <string.h>
#include <unistd.h>
#include <sys/wait.h>

extern int sim_spawn_thread(pthread_t *out, const pthread_attr_t *attr, void *(*fn)(void *), void *arg, int is_actor);
extern void sim_park_cond(int (*cond)(void *), void *arg, int64_t deadline_ns);

#define MAX_CHILD 8192
#define PID_BASE 100000
#define MAX_OPS 32
#define MAX_INHERIT 32
#define INHERIT_BASE 8000
extern int sim_fd_is_tracked(int fd);

typedef struct {
    int used;
    int fds[3];
    int exited;        /* actor finished */
    int status;        /* wait status */
    int reaped;
    int kill_sig;      /* pending kill */
    int nops;
    char ops[MAX_OPS][24];
    uint64_t in_bytes, in_sum;
    uint64_t out_off[3];
    /* descriptors the child inherited because they were not close-on-exec when it was spawned: held open
     * (duplicates above INHERIT_BASE, invisible to the descriptor accounting) until the child exits */
    int ninherited;
    int inherited[MAX_INHERIT];
} Child;

static Child children[MAX_CHILD];
static int nchildren;

/* file-action side table */
#define MAX_FA 16
#define MAX_ACT 16
static struct {
    const void *key;
    int n;
    struct {
        int kind; /* 0 dup2, 1 close */
        int a, b;
    } act[MAX_ACT];
} fas[MAX_FA];

void sim_child_reset(void) {
    memset(children, 0, sizeof children);
    memset(fas, 0, sizeof fas);
    nchildren = 0;
}

int sim_child_live_count(void) {
    int n = 0;
    for (int i = 0; i < nchildren; i++)
        if (children[i].used && !children[i].exited) n++;
    return n;
}

int sim_child_zombie_count(void) {
    int n = 0;
    for (int i = 0; i < nchildren; i++)
        if (children[i].used && children[i].exited && !children[i].reaped) n++;
    return n;
}

int64_t sim_child_next_event_ns(void) {
    return -1; /* actor sleeps are scheduler sleeps */
}

static int fa_find(const void *key, int create) {
    int free_slot = -1;
    for (int i = 0; i < MAX_FA; i++) {
        if (fas[i].key == key) return i;
        if (!fas[i].key && free_slot < 0) free_slot = i;
    }
    if (!create || free_slot < 0) return -1;
    fas[free_slot].key = key;
    fas[free_slot].n = 0;
    return free_slot;
}

extern int __real_posix_spawn_file_actions_init(posix_spawn_file_actions_t *);
extern int __real_posix_spawn_file_actions_destroy(posix_spawn_file_actions_t *);
extern int __real_posix_spawn_file_actions_adddup2(posix_spawn_file_actions_t *, int, int);
extern int __real_posix_spawn_file_actions_addclose(posix_spawn_file_actions_t *, int);
extern int __real_posix_spawn_file_actions_addchdir_np(posix_spawn_file_actions_t *, const char *);

int __wrap_posix_spawn_file_actions_init(posix_spawn_file_actions_t *fa) {
    if (sim_cfg.active) {
        int i = fa_find(fa, 1);
        if (i >= 0) fas[i].n = 0;
    }
    return __real_posix_spawn_file_actions_init(fa);
}
int __wrap_posix_spawn_file_actions_destroy(posix_spawn_file_actions_t *fa) {
    if (sim_cfg.active) {
        int i = fa_find(fa, 0);
        if (i >= 0) fas[i].key = NULL;
    }
    return __real_posix_spawn_file_actions_destroy(fa);
}
int __wrap_posix_spawn_file_actions_adddup2(posix_spawn_file_actions_t *fa, int a, int b) {
    if (sim_cfg.active) {
        int i = fa_find(fa, 1);
        if (i >= 0 && fas[i].n < MAX_ACT) {
            fas[i].act[fas[i].n].kind = 0;
            fas[i].act[fas[i].n].a = a;
            fas[i].act[fas[i].n].b = b;
            fas[i].n++;
        }
    }
    return __real_posix_spawn_file_actions_adddup2(fa, a, b);
}
int __wrap_posix_spawn_file_actions_addclose(posix_spawn_file_actions_t *fa, int a) {
    if (sim_cfg.active) {
        int i = fa_find(fa, 1);
        if (i >= 0 && fas[i].n < MAX_ACT) {
            fas[i].act[fas[i].n].kind = 1;
            fas[i].act[fas[i].n].a = a;
            fas[i].n++;
        }
    }
    return __real_posix_spawn_file_actions_addclose(fa, a);
}
int __wrap_posix_spawn_file_actions_addchdir_np(posix_spawn_file_actions_t *fa, const char *p) {
    return __real_posix_spawn_file_actions_addchdir_np(fa, p);
}

/* ---- actor ---- */
typedef struct {
    Child *c;
    int fd;
    short ev;
} ActorWait;

static int actor_ready(void *p) {
    ActorWait *w = p;
    if (w->c->kill_sig) return 1;
    struct pollfd pfd = {w->fd, w->ev, 0};
    return poll(&pfd, 1, 0) != 0;
}

static void actor_close_all(Child *c) {
    for (int i = 0; i < c->ninherited; i++) __real_close(c->inherited[i]);
    c->ninherited = 0;
    for (int i = 0; i < 3; i++) {
        if (c->fds[i] >= 0) {
            sim_fd_note_close(c->fds[i]);
            __real_close(c->fds[i]);
            c->fds[i] = -1;
        }
    }
    sim_bump_epoch();
}

/* actor output is stream w = 1000 + 4*idx + fd of the tagged byte space used by sim/fill */
static unsigned char tag_byte(int idx, int stream, uint64_t off) {
    return sim_tagb(1000 + 4 * (uint64_t) idx + (uint64_t) stream, off);
}

/* returns 0 at EOF/error, -1 if killed */
static ssize_t actor_read(Child *c, char *buf, size_t n) {
    int fd = c->fds[0];
    if (fd < 0) return 0;
    for (;;) {
        if (c->kill_sig) return -1;
        ActorWait w = {c, fd, POLLIN};
        if (!actor_ready(&w)) {
            sim_park_cond(actor_ready, &w, -1);
            continue;
        }
        if (c->kill_sig) return -1;
        ssize_t r = __real_read(fd, buf, n);
        if (r < 0 && (errno == EAGAIN || errno == EINTR)) continue;
        if (r > 0) {
            for (ssize_t i = 0; i < r; i++) c->in_sum = c->in_sum * 1099511628211ULL + (unsigned char) buf[i];
            c->in_bytes += (uint64_t) r;
            sim_bump_epoch();
        }
        return r < 0 ? 0 : r;
    }
}

/* returns 0 ok, 1 on EPIPE/error, -1 killed */
static int actor_write(Child *c, int stream, const char *buf, size_t n) {
    int fd = c->fds[stream];
    if (fd < 0) return 1;
    size_t off = 0;
    while (off < n) {
        if (c->kill_sig) return -1;
        ActorWait w = {c, fd, POLLOUT};
        if (!actor_ready(&w)) {
            sim_park_cond(actor_ready, &w, -1);
            continue;
        }
        if (c->kill_sig) return -1;
        /* write in bounded pieces so that a blocking pipe end cannot block in the kernel */
        struct pollfd pfd = {fd, POLLOUT, 0};
        poll(&pfd, 1, 0);
        if (pfd.revents & (POLLERR | POLLHUP)) return 1;
        size_t piece = n - off;
        if (piece > 512) piece = 512;
        int fl = fcntl(fd, F_GETFL);
        fcntl(fd, F_SETFL, fl | O_NONBLOCK);
        ssize_t r = __real_write(fd, buf + off, piece);
        int e = errno;
        fcntl(fd, F_SETFL, fl);
        if (r < 0) {
            if (e == EAGAIN || e == EINTR) {
                sim_yield("actor-eagain");
                continue;
            }
            return 1;
        }
        off += (size_t) r;
        sim_bump_epoch();
        sim_yield("actor-write");
    }
    return 0;
}

static void *actor_main(void *arg) {
    Child *c = arg;
    int idx = (int)(c - children);
    int code = 0, sig = 0;
    char buf[4096];
    /* SIGPIPE must not take the whole simulator down */
    for (int i = 0; i < c->nops && !sig; i++) {
        const char *op = c->ops[i];
        long v = strtol(op + 1, NULL, 10);
        if (c->kill_sig) break;
        switch (op[0]) {
            case 'r': {
                long left = v;
                while (left > 0) {
                    ssize_t r = actor_read(c, buf, left > (long) sizeof buf ? sizeof buf : (size_t) left);
                    if (r <= 0) break;
                    left -= r;
                }
                break;
            }
            case 'R':
                while (actor_read(c, buf, sizeof buf) > 0) {}
                break;
            case 'C':
                for (;;) {
                    ssize_t r = actor_read(c, buf, sizeof buf);
                    if (r <= 0) break;
                    if (actor_write(c, 1, buf, (size_t) r)) break;
                }
                break;
            case 'w':
            case 'e': {
                int stream = op[0] == 'w' ? 1 : 2;
                long left = v;
                while (left > 0) {
                    size_t n = left > (long) sizeof buf ? sizeof buf : (size_t) left;
                    for (size_t k = 0; k < n; k++) buf[k] = (char) tag_byte(idx, stream, c->out_off[stream] + k);
                    if (actor_write(c, stream, buf, n)) {
                        /* EPIPE: a real child would die of SIGPIPE */
                        if (!c->kill_sig) sig = SIGPIPE;
                        break;
                    }
                    c->out_off[stream] += n;
                    left -= (long) n;
                }
                break;
            }
            case 's':
                if (!c->kill_sig) {
                    /* sleep, but wake early when killed */
                    ActorWait w = {c, -1, 0};
                    int64_t until = sim_now_ns() + v * 1000000LL;
                    while (!c->kill_sig && sim_now_ns() < until) sim_park_cond(actor_ready, &w, until);
                }
                break;
            case 'c':
                if (v >= 0 && v < 3 && c->fds[v] >= 0) {
                    sim_fd_note_close(c->fds[v]);
                    __real_close(c->fds[v]);
                    c->fds[v] = -1;
                    sim_bump_epoch();
                }
                break;
            case 'x':
                code = (int) v;
                i = c->nops;
                break;
            case 'k':
                sig = (int) v;
                break;
            default:
                break;
        }
    }
    if (c->kill_sig && !sig) sig = c->kill_sig;
    actor_close_all(c);
    c->status = sig ? (sig & 0x7f) : ((code & 0xff) << 8);
    c->exited = 1;
    sim_hist("!child", "exit %d status=%d in_bytes=%llu in_sum=%llu out=%llu err=%llu", idx, c->status,
             (unsigned long long) c->in_bytes, (unsigned long long) c->in_sum,
             (unsigned long long) c->out_off[1], (unsigned long long) c->out_off[2]);
    sim_bump_epoch();
    return NULL;
}

static int spawn_common(pid_t *pid, const char *path, const posix_spawn_file_actions_t *fa, char *const argv[]) {
    if (sim_cfg.monitor) {
        sim_mon_attempt("subprocess", "posix_spawn", path);
        return EACCES;
    }
    sim_yield("spawn");
    const char *base = strrchr(path, '/');
    base = base ? base + 1 : path;
    if (strcmp(base, "sim-child") != 0) {
        sim_hist("!child", "enoent %s", path);
        return ENOENT;
    }
    if (nchildren >= MAX_CHILD) return EAGAIN;
    Child *c = &children[nchildren];
    memset(c, 0, sizeof *c);
    c->used = 1;
    /* descriptor table of the child: starts "inheriting" nothing we care about */
    int tab[3] = {-1, -1, -1};
    int src_of[3] = {-1, -1, -1};
    int fi = fa ? fa_find(fa, 0) : -1;
    if (fi >= 0) {
        for (int k = 0; k < fas[fi].n; k++) {
            if (fas[fi].act[k].kind == 0) {
                int a = fas[fi].act[k].a, b = fas[fi].act[k].b;
                if (b >= 0 && b < 3) {
                    /* dup2(a, b) inside the child; a may itself be 0..2 already redirected */
                    if (a >= 0 && a < 3 && src_of[a] >= 0) src_of[b] = src_of[a];
                    else src_of[b] = a;
                }
            }
        }
    }
    for (int b = 0; b < 3; b++) {
        if (src_of[b] > 2) {
            tab[b] = __real_dup(src_of[b]);
            if (tab[b] >= 0) {
                fcntl(tab[b], F_SETFD, FD_CLOEXEC);
                sim_fd_note_open(tab[b], "child-end");
            }
        }
    }
    for (int b = 0; b < 3; b++) c->fds[b] = tab[b];
    /* what exec would leave open in a real child: every descriptor of the process that is not close-on-exec
     * and that the file actions do not close. The actor never uses them; holding them open is the point
     * (a pipe's or socket's peer does not see end-of-stream while any copy is open). */
    for (int fd = 3; fd < 4096 && c->ninherited < MAX_INHERIT; fd++) {
        if (!sim_fd_is_tracked(fd)) continue;
        int fl = fcntl(fd, F_GETFD);
        if (fl < 0 || (fl & FD_CLOEXEC)) continue;
        int closed_by_action = 0;
        if (fi >= 0)
            for (int k = 0; k < fas[fi].n; k++)
                if (fas[fi].act[k].kind == 1 && fas[fi].act[k].a == fd) closed_by_action = 1;
        if (closed_by_action) continue;
        int d = fcntl(fd, F_DUPFD_CLOEXEC, INHERIT_BASE);
        if (d >= 0) {
            c->inherited[c->ninherited++] = d;
        }
    }
    int n = 0;
    for (int i = 1; argv[i] && n < MAX_OPS; i++) {
        strncpy(c->ops[n], argv[i], sizeof c->ops[n] - 1);
        n++;
    }
    c->nops = n;
    int idx = nchildren++;
    *pid = PID_BASE + idx;
    sim_hist("!child", "spawn %d nops=%d in=%d out=%d err=%d", idx, n, tab[0] >= 0, tab[1] >= 0, tab[2] >= 0);
    if (c->ninherited) sim_hist("!child", "inherit %d %d", idx, c->ninherited);
    pthread_attr_t at;
    pthread_attr_init(&at);
    pthread_attr_setdetachstate(&at, PTHREAD_CREATE_DETACHED);
    int err = sim_spawn_thread(NULL, &at, actor_main, c, 1);
    pthread_attr_destroy(&at);
    if (err) return err;
    return 0;
}

extern int __real_posix_spawn(pid_t *, const char *, const posix_spawn_file_actions_t *, const posix_spawnattr_t *,
                              char *const[], char *const[]);
extern int __real_posix_spawnp(pid_t *, const char *, const posix_spawn_file_actions_t *, const posix_spawnattr_t *,
                               char *const[], char *const[]);

int __wrap_posix_spawn(pid_t *pid, const char *path, const posix_spawn_file_actions_t *fa,
                       const posix_spawnattr_t *attr, char *const argv[], char *const envp[]) {
    if (!sim_cfg.active) return __real_posix_spawn(pid, path, fa, attr, argv, envp);
    return spawn_common(pid, path, fa, argv);
}

int __wrap_posix_spawnp(pid_t *pid, const char *path, const posix_spawn_file_actions_t *fa,
                        const posix_spawnattr_t *attr, char *const argv[], char *const envp[]) {
    if (!sim_cfg.active) return __real_posix_spawnp(pid, path, fa, attr, argv, envp);
    return spawn_common(pid, path, fa, argv);
}

static int child_done(void *p) {
    return ((Child *) p)->exited;
}

pid_t __wrap_waitpid(pid_t pid, int *status, int options) {
    if (!sim_cfg.active) return __real_waitpid(pid, status, options);
    if (pid < PID_BASE || pid >= PID_BASE + nchildren) {
        errno = ECHILD;
        return -1;
    }
    Child *c = &children[pid - PID_BASE];
    sim_yield("waitpid");
    if (c->reaped) {
        errno = ECHILD;
        return -1;
    }
    if (!c->exited) {
        if (options & WNOHANG) return 0;
        while (!c->exited) sim_park_cond(child_done, c, -1);
    }
    c->reaped = 1;
    if (status) *status = c->status;
    sim_hist("!child", "reaped %d", (int)(pid - PID_BASE));
    return pid;
}

int __wrap_kill(pid_t pid, int sig) {
    if (!sim_cfg.active) return __real_kill(pid, sig);
    if (sim_cfg.monitor) {
        /* signalling a process the program already owns is recorded under its own name: the
         * :subprocess capability is about creating processes (no core function checks it here) */
        sim_mon_attempt("proc-signal", "kill", "");
        errno = EACCES;
        return -1;
    }
    if (pid < PID_BASE || pid >= PID_BASE + nchildren) {
        sim_hist("!child", "kill-foreign %d %d", (int) pid, sig);
        errno = ESRCH;
        return -1;
    }
    Child *c = &children[pid - PID_BASE];
    if (c->reaped) {
        errno = ESRCH;
        return -1;
    }
    if (sig != 0 && !c->exited && !c->kill_sig) {
        c->kill_sig = sig;
        sim_hist("!child", "kill %d %d", (int)(pid - PID_BASE), sig);
        sim_bump_epoch();
    }
    sim_yield("kill");
    return 0;
}

pid_t __wrap_fork(void) {
    if (!sim_cfg.active) return __real_fork();
    if (sim_cfg.monitor) {
        sim_mon_attempt("subprocess", "fork", "");
        errno = EACCES;
        return -1;
    }
    sim_die(SIM_EXIT_UNSUPPORTED, "!unsupported", "fork");
}

extern int __real_execv(const char *, char *const[]);
extern int __real_execvp(const char *, char *const[]);
int __wrap_execv(const char *p, char *const argv[]) {
    if (!sim_cfg.active) return __real_execv(p, argv);
    sim_mon_attempt("subprocess", "execv", p);
    errno = EACCES;
    return -1;
}
int __wrap_execvp(const char *p, char *const argv[]) {
    if (!sim_cfg.active) return __real_execvp(p, argv);
    sim_mon_attempt("subprocess", "execvp", p);
    errno = EACCES;
    return -1;
}
extern int __real_system(const char *);
int __wrap_system(const char *cmd) {
    if (!sim_cfg.active) return __real_system(cmd);
    sim_mon_attempt("subprocess", "system", cmd ? cmd : "");
    errno = EACCES;
    return -1;
}
