/* simos: capability monitor (C18).  Every libc entry point that performs an operation of a
 * capability kind records the attempt together with the calling thread's current sandbox
 * flags and, while the monitor is on, refuses to perform it (EACCES), so every core
 * function can be called with hostile arguments without touching the machine. With the
 * monitor off the calls pass through. */
#include "features.h"
#include <janet.h>
#include "state.h"
#include "sim.h"
#include <errno.h>
#include <fcntl.h>
#include <stdarg.h>
#include <string.h>
#include <dirent.h>
#include <signal.h>
#include <netdb.h>
#include <sys/stat.h>
#include <sys/inotify.h>
#include <utime.h>

static uint64_t attempt_counts;

void sim_mon_attempt(const char *cap, const char *fn, const char *arg) {
    char a[200];
    size_t j = 0;
    for (size_t i = 0; arg && arg[i] && j < sizeof a - 1; i++) {
        unsigned char c = (unsigned char) arg[i];
        a[j++] = (c < 32 || c > 126 || c == '\t') ? '?' : (char) c;
    }
    a[j] = 0;
    attempt_counts++;
    sim_hist("!attempt", "%s %s %u %s", cap, fn, (unsigned) janet_vm.sandbox_flags, a);
}

#define MON (sim_cfg.active && sim_cfg.monitor)
#define REFUSE(cap, fn, arg, ret) do { if (MON) { sim_mon_attempt(cap, fn, arg); errno = EACCES; return ret; } } while (0)

/* paths the runtime itself may touch while the monitor is on (nothing at present) */

static const char *open_cap(int flags) {
    if ((flags & O_ACCMODE) != O_RDONLY || (flags & (O_CREAT | O_TRUNC))) return "fs-write";
    return "fs-read";
}

int __wrap_open64(const char *path, int flags, ...) {
    mode_t mode = 0;
    if (flags & (O_CREAT | O_TMPFILE)) {
        va_list ap;
        va_start(ap, flags);
        mode = va_arg(ap, mode_t);
        va_end(ap);
    }
    if (MON) {
        /* read+write opens need both capabilities: report both kinds */
        if ((flags & O_ACCMODE) == O_RDWR) sim_mon_attempt("fs-read", "open", path);
        sim_mon_attempt(open_cap(flags), "open", path);
        errno = EACCES;
        return -1;
    }
    int fd = __real_open64(path, flags, mode);
    if (fd >= 0 && sim_cfg.active) sim_fd_note_open(fd, path);
    return fd;
}

int __wrap_open(const char *path, int flags, ...) {
    mode_t mode = 0;
    if (flags & (O_CREAT | O_TMPFILE)) {
        va_list ap;
        va_start(ap, flags);
        mode = va_arg(ap, mode_t);
        va_end(ap);
    }
    return __wrap_open64(path, flags, mode);
}

static FILE *fopen_common(const char *path, const char *mode, int is64) {
    if (MON) {
        int w = strpbrk(mode, "wa+") != NULL;
        /* "w+" truncates first: nothing that existed before can be read through it */
        int r = strchr(mode, 'r') != NULL || (strchr(mode, '+') != NULL && mode[0] != 'w');
        if (r) sim_mon_attempt("fs-read", "fopen", path);
        if (w) sim_mon_attempt("fs-write", "fopen", path);
        errno = EACCES;
        return NULL;
    }
    FILE *f = is64 ? __real_fopen64(path, mode) : __real_fopen(path, mode);
    if (f && sim_cfg.active) sim_fd_note_open(fileno(f), path);
    return f;
}

FILE *__wrap_fopen64(const char *path, const char *mode) {
    return fopen_common(path, mode, 1);
}
FILE *__wrap_fopen(const char *path, const char *mode) {
    return fopen_common(path, mode, 0);
}

extern FILE *__real_tmpfile64(void);
extern FILE *__real_tmpfile(void);
FILE *__wrap_tmpfile64(void) {
    REFUSE("fs-temp", "tmpfile", "", NULL);
    FILE *f = __real_tmpfile64();
    if (f && sim_cfg.active) sim_fd_note_open(fileno(f), "tmpfile");
    return f;
}
FILE *__wrap_tmpfile(void) {
    return __wrap_tmpfile64();
}

extern DIR *__real_opendir(const char *);
DIR *__wrap_opendir(const char *p) {
    REFUSE("fs-read", "opendir", p, NULL);
    return __real_opendir(p);
}

extern int __real_stat64(const char *, struct stat64 *);
extern int __real_lstat64(const char *, struct stat64 *);
extern int __real_stat(const char *, struct stat *);
extern int __real_lstat(const char *, struct stat *);
int __wrap_stat64(const char *p, struct stat64 *st) {
    REFUSE("fs-read", "stat", p, -1);
    return __real_stat64(p, st);
}
int __wrap_lstat64(const char *p, struct stat64 *st) {
    REFUSE("fs-read", "lstat", p, -1);
    return __real_lstat64(p, st);
}
int __wrap_stat(const char *p, struct stat *st) {
    REFUSE("fs-read", "stat", p, -1);
    return __real_stat(p, st);
}
int __wrap_lstat(const char *p, struct stat *st) {
    REFUSE("fs-read", "lstat", p, -1);
    return __real_lstat(p, st);
}

extern ssize_t __real_readlink(const char *, char *, size_t);
ssize_t __wrap_readlink(const char *p, char *b, size_t n) {
    REFUSE("fs-read", "readlink", p, -1);
    return __real_readlink(p, b, n);
}
extern char *__real_realpath(const char *, char *);
char *__wrap_realpath(const char *p, char *out) {
    REFUSE("fs-read", "realpath", p, NULL);
    return __real_realpath(p, out);
}
extern int __real_remove(const char *);
int __wrap_remove(const char *p) {
    REFUSE("fs-write", "remove", p, -1);
    return __real_remove(p);
}
extern int __real_rename(const char *, const char *);
int __wrap_rename(const char *a, const char *b) {
    REFUSE("fs-write", "rename", a, -1);
    return __real_rename(a, b);
}
extern int __real_mkdir(const char *, mode_t);
int __wrap_mkdir(const char *p, mode_t m) {
    REFUSE("fs-write", "mkdir", p, -1);
    return __real_mkdir(p, m);
}
extern int __real_rmdir(const char *);
int __wrap_rmdir(const char *p) {
    REFUSE("fs-write", "rmdir", p, -1);
    return __real_rmdir(p);
}
extern int __real_chmod(const char *, mode_t);
int __wrap_chmod(const char *p, mode_t m) {
    REFUSE("fs-write", "chmod", p, -1);
    return __real_chmod(p, m);
}
extern int __real_chdir(const char *);
int __wrap_chdir(const char *p) {
    REFUSE("fs-read", "chdir", p, -1);
    return __real_chdir(p);
}
extern int __real_link(const char *, const char *);
int __wrap_link(const char *a, const char *b) {
    REFUSE("fs-write", "link", a, -1);
    return __real_link(a, b);
}
extern int __real_symlink(const char *, const char *);
int __wrap_symlink(const char *a, const char *b) {
    REFUSE("fs-write", "symlink", a, -1);
    return __real_symlink(a, b);
}
extern int __real_utime(const char *, const struct utimbuf *);
int __wrap_utime(const char *p, const struct utimbuf *t) {
    REFUSE("fs-write", "utime", p, -1);
    return __real_utime(p, t);
}
extern mode_t __real_umask(mode_t);
mode_t __wrap_umask(mode_t m) {
    if (MON) {
        sim_mon_attempt("umask", "umask", "");
        return 022;
    }
    return __real_umask(m);
}
extern int __real_inotify_init1(int);
int __wrap_inotify_init1(int fl) {
    int r = __real_inotify_init1(fl);
    if (r >= 0 && sim_cfg.active) sim_fd_note_open(r, "inotify");
    return r;
}
extern int __real_inotify_add_watch(int, const char *, uint32_t);
int __wrap_inotify_add_watch(int fd, const char *p, uint32_t mask) {
    REFUSE("fs-read", "inotify_add_watch", p, -1);
    return __real_inotify_add_watch(fd, p, mask);
}

/* environment */
char *__wrap_getenv(const char *name) {
    if (MON) {
        sim_mon_attempt("env", "getenv", name);
        return NULL;
    }
    return __real_getenv(name);
}
extern int __real_setenv(const char *, const char *, int);
int __wrap_setenv(const char *n, const char *v, int o) {
    REFUSE("env", "setenv", n, -1);
    return __real_setenv(n, v, o);
}
extern int __real_unsetenv(const char *);
int __wrap_unsetenv(const char *n) {
    REFUSE("env", "unsetenv", n, -1);
    return __real_unsetenv(n);
}

/* modules */
extern void *__real_dlopen(const char *, int);
void *__wrap_dlopen(const char *p, int fl) {
    if (MON) {
        sim_mon_attempt("modules", "dlopen", p ? p : "(self)");
        /* fails, and leaves dlerror() set as callers expect */
        (void) __real_dlopen("/nonexistent-sim-marker/refused-by-monitor.so", fl);
        return NULL;
    }
    return __real_dlopen(p, fl);
}
/* dlsym is not wrapped: the sanitizer runtimes call it before they are initialised; a
 * symbol can only be looked up in a handle that dlopen (monitored) returned. */

/* names */
extern int __real_getaddrinfo(const char *, const char *, const struct addrinfo *, struct addrinfo **);
int __wrap_getaddrinfo(const char *node, const char *svc, const struct addrinfo *hints, struct addrinfo **res) {
    if (MON) {
        sim_mon_attempt("net", "getaddrinfo", node ? node : "");
        return EAI_FAIL;
    }
    return __real_getaddrinfo(node, svc, hints, res);
}

/* signals */
extern int __real_sigaction(int, const struct sigaction *, struct sigaction *);
int __wrap_sigaction(int sig, const struct sigaction *act, struct sigaction *old) {
    if (MON && act != NULL) {
        sim_mon_attempt("signal", "sigaction", "");
        errno = EACCES;
        return -1;
    }
    return __real_sigaction(sig, act, old);
}
