/* simclock: one discrete-event clock (ns) behind clock_gettime/time/nanosleep/sleep.
 * CPU work takes zero simulated time; the scheduler jumps the clock when nothing can run. */
#ifndef _GNU_SOURCE
#define _GNU_SOURCE
#endif
#include "sim.h"
#include <errno.h>
#include <unistd.h>

#define MONO_BASE_NS  (1000LL * 1000000000LL)          /* monotonic clock starts at 1000 s */
#define REAL_BASE_NS  (1700000000LL * 1000000000LL)    /* wall clock starts in Nov 2023 */

static int64_t now_ns;
static uint64_t jump_n;

int64_t sim_now_ns(void) {
    return now_ns;
}

void sim_clock_reset(void) {
    now_ns = 0;
    jump_n = 0;
}

void sim_clock_advance_to(int64_t ns) {
    if (ns > now_ns) {
        int64_t prm;
        /* fault: the wake-up is late (timer slack, slow node): overshoot by up to 5 ms */
        if (sim_decide(F_CLOCK_JUMP, 0, jump_n++, &prm)) {
            int64_t extra = sim_cfg.explicit_mode ? prm : prm % 5000000;
            sim_fault_fired(F_CLOCK_JUMP, 0, jump_n - 1, extra);
            ns += extra;
        }
        now_ns = ns;
        sim_bump_epoch();
    }
}

int64_t sim_mono_to_sim(int64_t mono_ns) {
    return mono_ns - MONO_BASE_NS - sim_cfg.clock_phase_ns;
}

int __wrap_clock_gettime(clockid_t clk, struct timespec *ts) {
    if (!sim_cfg.active) return __real_clock_gettime(clk, ts);
    int64_t t;
    if (sim_cfg.tick_ns > 0) {
        now_ns += sim_cfg.tick_ns;
        sim_bump_epoch();
    }
    if (clk == CLOCK_REALTIME || clk == CLOCK_REALTIME_COARSE) t = REAL_BASE_NS + now_ns + sim_cfg.clock_phase_ns;
    else t = MONO_BASE_NS + now_ns + sim_cfg.clock_phase_ns;
    ts->tv_sec = t / 1000000000LL;
    ts->tv_nsec = t % 1000000000LL;
    return 0;
}

extern time_t __real_time(time_t *);
time_t __wrap_time(time_t *out) {
    if (!sim_cfg.active) return __real_time(out);
    time_t t = (time_t)((REAL_BASE_NS + now_ns) / 1000000000LL);
    if (out) *out = t;
    return t;
}

int __wrap_nanosleep(const struct timespec *req, struct timespec *rem) {
    if (!sim_cfg.active) return __real_nanosleep(req, rem);
    int64_t d = (int64_t) req->tv_sec * 1000000000LL + req->tv_nsec;
    sim_park_sleep(now_ns + d);
    if (rem) {
        rem->tv_sec = 0;
        rem->tv_nsec = 0;
    }
    return 0;
}

extern unsigned int __real_sleep(unsigned int);
unsigned int __wrap_sleep(unsigned int s) {
    if (!sim_cfg.active) return __real_sleep(s);
    if (s == 0) {
        sim_yield("sleep0");
        return 0;
    }
    sim_park_sleep(now_ns + (int64_t) s * 1000000000LL);
    return 0;
}
