/* jsim: harness main. Runs one plan (a Janet program + simulator knobs) per forked child
 * of a pristine single-threaded zygote, with ASLR disabled, and emits the history. */
#include "features.h"
#include <janet.h>
#include "state.h"
#include "gc.h"
#include "sim.h"
#include <errno.h>
#include <fcntl.h>
#include <malloc.h>
#include <signal.h>
#include <stdlib.h>
#include <string.h>
#include <unistd.h>
#include <sys/personality.h>
#include <sys/prctl.h>
#include <sys/wait.h>
#include <sys/resource.h>

extern void sim_fd_mark_selfpipe(int rfd, int wfd);
extern int sim_mutex_owned_by_me(void *m);

/* sanitizer defaults: classify by exit status, no leak checking (VM teardown is exit) */
__attribute__((used, visibility("default"))) const char *__asan_default_options(void) {
    return "exitcode=77:detect_leaks=0:abort_on_error=0:allocator_may_return_null=1:detect_stack_use_after_return=0:"
           "handle_abort=1:max_malloc_fill_size=0:max_allocation_size_mb=512";
}
__attribute__((used, visibility("default"))) const char *__ubsan_default_options(void) {
    return "halt_on_error=1:exitcode=77:print_stacktrace=1";
}
__attribute__((used, visibility("default"))) const char *__tsan_default_options(void) {
    return "exitcode=77:halt_on_error=0:report_signal_unsafe=0:second_deadlock_stack=1";
}

/* ------------------------------------------------------------------ */
/* hooks into the Janet core (guard JANET_VERIF_SIM)                    */

/* JanetVerifHooks / janet_verif_hooks are declared in state.h under the guard */

static __thread uint64_t gc_safepoint_n;
static uint64_t gc_forced;

static int hook_gc_safepoint(void) {
    uint64_t n = gc_safepoint_n++;
    int64_t prm;
    switch (sim_cfg.gc_mode) {
        default:
        case GC_DEFAULT:
            return janet_vm.next_collection >= janet_vm.gc_interval;
        case GC_NEVER:
            return 0;
        case GC_EVERY:
            gc_forced++;
            return 1;
        case GC_BERN: {
            uint64_t h = sim_hash(sim_cfg.seed, 7001, (uint64_t) sim_tid(), n);
            double u = (double)(h >> 11) / 9007199254740992.0;
            if (u < sim_cfg.gc_p) {
                gc_forced++;
                return 1;
            }
            return 0;
        }
        case GC_BURST:
            if (n >= sim_cfg.gc_lo && n < sim_cfg.gc_hi) {
                gc_forced++;
                return 1;
            }
            return 0;
        case GC_LIST:
            if (sim_decide(F_GC, (uint32_t) sim_tid(), n, &prm)) {
                gc_forced++;
                return 1;
            }
            return 0;
    }
}

/* H2: scheduling point inside code that touches cross-thread state */
enum { VP_CHAN_LOCKED = 1, VP_POST_EVENT, VP_SELFPIPE_READ, VP_ABS_INCREF, VP_ABS_DECREF, VP_SWEEP_THREADED,
       VP_CHAN_UNLOCKED };
static void hook_point(int kind, void *obj) {
    if (!sim_cfg.active) return;
    if (kind == VP_CHAN_LOCKED && obj) {
        /* lock discipline: the channel mutex must be held by the running thread */
        if (!sim_mutex_owned_by_me(obj)) {
            sim_hist("!lock-discipline", "channel state touched without its lock");
            sim_probe("lock_discipline_violation");
        }
    }
    sim_yield("point");
}

/* ------------------------------------------------------------------ */
/* allocation accounting (Janet's own malloc/free calls only)          */
static int64_t live_allocs, live_bytes;
extern void *__real_malloc(size_t);
extern void *__real_calloc(size_t, size_t);
extern void *__real_realloc(void *, size_t);
extern void __real_free(void *);
void *__wrap_malloc(size_t n) {
    void *p = __real_malloc(n);
    if (p) {
        __atomic_add_fetch(&live_allocs, 1, __ATOMIC_RELAXED);
        __atomic_add_fetch(&live_bytes, (int64_t) malloc_usable_size(p), __ATOMIC_RELAXED);
    }
    return p;
}
void *__wrap_calloc(size_t a, size_t b) {
    void *p = __real_calloc(a, b);
    if (p) {
        __atomic_add_fetch(&live_allocs, 1, __ATOMIC_RELAXED);
        __atomic_add_fetch(&live_bytes, (int64_t) malloc_usable_size(p), __ATOMIC_RELAXED);
    }
    return p;
}
void *__wrap_realloc(void *old, size_t n) {
    int64_t before = old ? (int64_t) malloc_usable_size(old) : 0;
    void *p = __real_realloc(old, n);
    if (p) {
        if (!old) __atomic_add_fetch(&live_allocs, 1, __ATOMIC_RELAXED);
        __atomic_add_fetch(&live_bytes, (int64_t) malloc_usable_size(p) - before, __ATOMIC_RELAXED);
    } else if (old && n == 0) {
        __atomic_add_fetch(&live_allocs, -1, __ATOMIC_RELAXED);
        __atomic_add_fetch(&live_bytes, -before, __ATOMIC_RELAXED);
    }
    return p;
}
void __wrap_free(void *p) {
    if (p) {
        __atomic_add_fetch(&live_allocs, -1, __ATOMIC_RELAXED);
        __atomic_add_fetch(&live_bytes, -(int64_t) malloc_usable_size(p), __ATOMIC_RELAXED);
    }
    __real_free(p);
}

/* ------------------------------------------------------------------ */
/* canonical value printer (own code, independent of pp.c)             */

typedef struct {
    char *s;
    size_t len, cap;
    const void **seen;
    int nseen, capseen;
} Canon;

static void cput(Canon *c, const char *s, size_t n) {
    if (c->len + n + 1 > c->cap) {
        c->cap = (c->len + n + 1) * 2;
        c->s = realloc(c->s, c->cap);
    }
    memcpy(c->s + c->len, s, n);
    c->len += n;
    c->s[c->len] = 0;
}
static void cputs(Canon *c, const char *s) {
    cput(c, s, strlen(s));
}
static void cbytes(Canon *c, const uint8_t *b, int32_t n) {
    char tmp[8];
    for (int32_t i = 0; i < n; i++) {
        uint8_t ch = b[i];
        if (ch == '"' || ch == '\\') {
            tmp[0] = '\\';
            tmp[1] = (char) ch;
            cput(c, tmp, 2);
        } else if (ch >= 32 && ch < 127) {
            cput(c, (const char *) &ch, 1);
        } else {
            snprintf(tmp, sizeof tmp, "\\x%02X", ch);
            cput(c, tmp, 4);
        }
    }
}
static int cseen(Canon *c, const void *p) {
    for (int i = 0; i < c->nseen; i++)
        if (c->seen[i] == p) return i;
    if (c->nseen == c->capseen) {
        c->capseen = c->capseen ? c->capseen * 2 : 32;
        c->seen = realloc(c->seen, sizeof(void *) * (size_t) c->capseen);
    }
    c->seen[c->nseen++] = p;
    return -1;
}

static void canon(Canon *c, Janet x, int depth);

typedef struct {
    char *key;
    int32_t slot;
} DictItem;

static int cmp_item(const void *a, const void *b) {
    const DictItem *x = a, *y = b;
    int r = strcmp(x->key, y->key);
    if (r) return r;
    return (x->slot > y->slot) - (x->slot < y->slot);
}

/* entries in the order of the canonical text of their keys (rendered stand-alone) */
static void canon_dict(Canon *c, const JanetKV *kvs, int32_t cap, int depth) {
    int32_t n = 0;
    for (int32_t i = 0; i < cap; i++)
        if (!janet_checktype(kvs[i].key, JANET_NIL)) n++;
    DictItem *items = malloc(sizeof(DictItem) * (size_t)(n ? n : 1));
    int32_t k = 0;
    for (int32_t i = 0; i < cap; i++) {
        if (janet_checktype(kvs[i].key, JANET_NIL)) continue;
        Canon sub = {0};
        canon(&sub, kvs[i].key, depth + 1);
        items[k].key = sub.s ? sub.s : strdup("");
        items[k].slot = i;
        free(sub.seen);
        k++;
    }
    qsort(items, (size_t) n, sizeof(DictItem), cmp_item);
    for (int32_t s = 0; s < n; s++) {
        if (s) cputs(c, " ");
        canon(c, kvs[items[s].slot].key, depth + 1);
        cputs(c, " ");
        canon(c, kvs[items[s].slot].value, depth + 1);
        free(items[s].key);
    }
    free(items);
}

static void canon(Canon *c, Janet x, int depth) {
    char tmp[64];
    if (depth > 150) {
        cputs(c, "<deep>");
        return;
    }
    switch (janet_type(x)) {
        case JANET_NIL:
            cputs(c, "nil");
            break;
        case JANET_BOOLEAN:
            cputs(c, janet_unwrap_boolean(x) ? "true" : "false");
            break;
        case JANET_NUMBER: {
            double d = janet_unwrap_number(x);
            if (d > -1e15 && d < 1e15 && d == (double)(int64_t) d && !(d == 0 && 1 / d < 0))
                snprintf(tmp, sizeof tmp, "%lld", (long long) d);
            else
                snprintf(tmp, sizeof tmp, "%.17g", d);
            cputs(c, tmp);
            break;
        }
        case JANET_STRING:
            cputs(c, "\"");
            cbytes(c, janet_unwrap_string(x), janet_string_length(janet_unwrap_string(x)));
            cputs(c, "\"");
            break;
        case JANET_SYMBOL:
            cputs(c, "'");
            cbytes(c, janet_unwrap_symbol(x), janet_string_length(janet_unwrap_symbol(x)));
            break;
        case JANET_KEYWORD:
            cputs(c, ":");
            cbytes(c, janet_unwrap_keyword(x), janet_string_length(janet_unwrap_keyword(x)));
            break;
        case JANET_BUFFER: {
            JanetBuffer *b = janet_unwrap_buffer(x);
            int k = cseen(c, b);
            if (k >= 0) {
                snprintf(tmp, sizeof tmp, "#%d#", k);
                cputs(c, tmp);
                break;
            }
            snprintf(tmp, sizeof tmp, "#%d=@\"", c->nseen - 1);
            cputs(c, tmp);
            cbytes(c, b->data, b->count);
            cputs(c, "\"");
            break;
        }
        case JANET_TUPLE: {
            const Janet *t = janet_unwrap_tuple(x);
            int br = janet_tuple_flag(t) & JANET_TUPLE_FLAG_BRACKETCTOR;
            cputs(c, br ? "[" : "(");
            for (int32_t i = 0; i < janet_tuple_length(t); i++) {
                if (i) cputs(c, " ");
                canon(c, t[i], depth + 1);
            }
            cputs(c, br ? "]" : ")");
            break;
        }
        case JANET_ARRAY: {
            JanetArray *a = janet_unwrap_array(x);
            int k = cseen(c, a);
            if (k >= 0) {
                snprintf(tmp, sizeof tmp, "#%d#", k);
                cputs(c, tmp);
                break;
            }
            snprintf(tmp, sizeof tmp, "#%d=@[", c->nseen - 1);
            cputs(c, tmp);
            for (int32_t i = 0; i < a->count; i++) {
                if (i) cputs(c, " ");
                canon(c, a->data[i], depth + 1);
            }
            cputs(c, "]");
            break;
        }
        case JANET_STRUCT: {
            const JanetKV *st = janet_unwrap_struct(x);
            cputs(c, "{");
            canon_dict(c, st, janet_struct_capacity(st), depth);
            cputs(c, "}");
            if (janet_struct_proto(st)) {
                cputs(c, "^");
                canon(c, janet_wrap_struct(janet_struct_proto(st)), depth + 1);
            }
            break;
        }
        case JANET_TABLE: {
            JanetTable *t = janet_unwrap_table(x);
            int k = cseen(c, t);
            if (k >= 0) {
                snprintf(tmp, sizeof tmp, "#%d#", k);
                cputs(c, tmp);
                break;
            }
            snprintf(tmp, sizeof tmp, "#%d=@{", c->nseen - 1);
            cputs(c, tmp);
            canon_dict(c, t->data, t->capacity, depth);
            cputs(c, "}");
            if (t->proto) {
                cputs(c, "^");
                canon(c, janet_wrap_table(t->proto), depth + 1);
            }
            break;
        }
        case JANET_FUNCTION: {
            JanetFunction *f = janet_unwrap_function(x);
            cputs(c, "<function");
            if (f->def->name) {
                cputs(c, " ");
                cbytes(c, f->def->name, janet_string_length(f->def->name));
            }
            cputs(c, ">");
            break;
        }
        case JANET_CFUNCTION:
            cputs(c, "<cfunction>");
            break;
        case JANET_FIBER:
            cputs(c, "<fiber ");
            cputs(c, janet_status_names[janet_fiber_status(janet_unwrap_fiber(x))]);
            cputs(c, ">");
            break;
        case JANET_ABSTRACT: {
            void *p = janet_unwrap_abstract(x);
            const JanetAbstractType *at = janet_abstract_type(p);
            if (!strcmp(at->name, "core/s64")) {
                snprintf(tmp, sizeof tmp, "<s64 %lld>", (long long) * (int64_t *) p);
                cputs(c, tmp);
            } else if (!strcmp(at->name, "core/u64")) {
                snprintf(tmp, sizeof tmp, "<u64 %llu>", (unsigned long long) * (uint64_t *) p);
                cputs(c, tmp);
            } else {
                cputs(c, "<");
                cputs(c, at->name);
                cputs(c, ">");
            }
            break;
        }
        case JANET_POINTER:
            cputs(c, "<pointer>");
            break;
        default:
            cputs(c, "<?>");
            break;
    }
}

static char *canon_args(int32_t argc, Janet *argv, size_t *len_out) {
    Canon c = {0};
    for (int32_t i = 0; i < argc; i++) {
        if (i) cputs(&c, " ");
        Canon one = {0};
        canon(&one, argv[i], 0);
        /* no tabs/newlines can appear: bytes are escaped */
        cputs(&c, one.s ? one.s : "");
        free(one.s);
        free(one.seen);
    }
    if (!c.s) cputs(&c, "");
    *len_out = c.len;
    return c.s;
}

/* ------------------------------------------------------------------ */
/* cfunctions for plans                                                 */

static Janet cfun_sim_ev(int32_t argc, Janet *argv) {
    janet_arity(argc, 1, -1);
    const char *kind;
    if (janet_checktype(argv[0], JANET_KEYWORD)) kind = (const char *) janet_unwrap_keyword(argv[0]);
    else kind = (const char *) janet_getstring(argv, 0);
    size_t len;
    char *s = canon_args(argc - 1, argv + 1, &len);
    sim_hist_raw(kind, s, len);
    free(s);
    return janet_wrap_nil();
}

static Janet cfun_sim_canon(int32_t argc, Janet *argv) {
    janet_fixarity(argc, 1);
    size_t len;
    char *s = canon_args(1, argv, &len);
    Janet r = janet_stringv((const uint8_t *) s, (int32_t) len);
    free(s);
    return r;
}

static Janet cfun_sim_now(int32_t argc, Janet *argv) {
    (void) argv;
    janet_fixarity(argc, 0);
    return janet_wrap_number((double) sim_now_ns());
}

static Janet cfun_sim_seq(int32_t argc, Janet *argv) {
    (void) argv;
    janet_fixarity(argc, 0);
    return janet_wrap_number((double) sim_seq());
}

static Janet cfun_sim_probe(int32_t argc, Janet *argv) {
    janet_fixarity(argc, 1);
    sim_probe((const char *) janet_getkeyword(argv, 0));
    return janet_wrap_nil();
}

static void parse_gc_mode(const char *m, double p, uint64_t lo, uint64_t hi) {
    if (!strcmp(m, "never")) sim_cfg.gc_mode = GC_NEVER;
    else if (!strcmp(m, "every")) sim_cfg.gc_mode = GC_EVERY;
    else if (!strcmp(m, "bern")) sim_cfg.gc_mode = GC_BERN;
    else if (!strcmp(m, "burst")) sim_cfg.gc_mode = GC_BURST;
    else if (!strcmp(m, "list")) sim_cfg.gc_mode = GC_LIST;
    else sim_cfg.gc_mode = GC_DEFAULT;
    sim_cfg.gc_p = p;
    sim_cfg.gc_lo = lo;
    sim_cfg.gc_hi = hi;
}

/* the GC schedule configured by the plan; (sim/gc :on) activates it, (sim/gc :off) suspends
 * it (default interval) so that set-up code is not slowed down */
static int cfg_gc_mode;
static Janet cfun_sim_gc(int32_t argc, Janet *argv) {
    janet_fixarity(argc, 1);
    const char *k = (const char *) janet_getkeyword(argv, 0);
    if (!strcmp(k, "on")) {
        sim_cfg.gc_mode = cfg_gc_mode;
        gc_safepoint_n = 0;
    } else if (!strcmp(k, "off")) sim_cfg.gc_mode = GC_DEFAULT;
    else if (!strcmp(k, "count")) return janet_wrap_number((double) gc_forced);
    return janet_wrap_nil();
}

static double cfg_p[F_KINDS];
static Janet cfun_sim_faults(int32_t argc, Janet *argv) {
    janet_fixarity(argc, 1);
    int on = janet_truthy(argv[0]);
    for (int i = 0; i < F_KINDS; i++)
        if (i != F_SWITCH) sim_cfg.p[i] = on ? cfg_p[i] : 0;
    return janet_wrap_nil();
}

static Janet cfun_sim_monitor(int32_t argc, Janet *argv) {
    janet_fixarity(argc, 1);
    sim_cfg.monitor = janet_truthy(argv[0]);
    return janet_wrap_nil();
}

static Janet cfun_sim_stats(int32_t argc, Janet *argv) {
    (void) argv;
    janet_fixarity(argc, 0);
    JanetKV *st = janet_struct_begin(16);
#define PUT(name, v) janet_struct_put(st, janet_ckeywordv(name), janet_wrap_number((double)(v)))
    PUT("roots", janet_vm.root_count);
    PUT("blocks", janet_vm.block_count);
    PUT("listeners", janet_atomic_load(&janet_vm.listener_count));
    PUT("timers", janet_vm.tq_count);
    PUT("runq", (janet_vm.spawn.tail - janet_vm.spawn.head + janet_vm.spawn.capacity) % (janet_vm.spawn.capacity ? janet_vm.spawn.capacity : 1));
    PUT("fds", sim_open_fd_count());
    PUT("children", sim_child_live_count());
    PUT("zombies", sim_child_zombie_count());
    PUT("threads", sim_thread_count_live());
    PUT("allocs", __atomic_load_n(&live_allocs, __ATOMIC_RELAXED));
    PUT("threaded-abstracts", janet_vm.threaded_abstracts.count);
    PUT("active-tasks", janet_vm.active_tasks.count);
    PUT("sandbox", janet_vm.sandbox_flags);
#undef PUT
    return janet_wrap_struct(janet_struct_end(st));
}

/* tagged payload bytes: byte i of stream w is a function of (w, i) */
#define tagb sim_tagb
static Janet cfun_sim_fill(int32_t argc, Janet *argv) {
    janet_fixarity(argc, 3);
    uint64_t w = (uint64_t) janet_getinteger64(argv, 0);
    uint64_t off = (uint64_t) janet_getinteger64(argv, 1);
    int32_t n = janet_getinteger(argv, 2);
    JanetBuffer *b = janet_buffer(n);
    for (int32_t i = 0; i < n; i++) janet_buffer_push_u8(b, tagb(w, off + (uint64_t) i));
    return janet_wrap_buffer(b);
}
/* (sim/match w off bytes) -> number of leading bytes of `bytes` equal to stream w at off */
static Janet cfun_sim_match(int32_t argc, Janet *argv) {
    janet_fixarity(argc, 3);
    uint64_t w = (uint64_t) janet_getinteger64(argv, 0);
    uint64_t off = (uint64_t) janet_getinteger64(argv, 1);
    JanetByteView v = janet_getbytes(argv, 2);
    int32_t i = 0;
    while (i < v.len && v.bytes[i] == tagb(w, off + (uint64_t) i)) i++;
    return janet_wrap_integer(i);
}
/* (sim/locate w bytes lo hi) -> first offset in [lo,hi] at which `bytes` equals stream w, or -1 */
static Janet cfun_sim_locate(int32_t argc, Janet *argv) {
    janet_fixarity(argc, 4);
    uint64_t w = (uint64_t) janet_getinteger64(argv, 0);
    JanetByteView v = janet_getbytes(argv, 1);
    int64_t lo = janet_getinteger64(argv, 2), hi = janet_getinteger64(argv, 3);
    for (int64_t off = lo; off <= hi; off++) {
        int32_t i = 0;
        while (i < v.len && v.bytes[i] == tagb(w, (uint64_t) off + (uint64_t) i)) i++;
        if (i == v.len) return janet_wrap_number((double) off);
    }
    return janet_wrap_integer(-1);
}
static Janet cfun_sim_hash(int32_t argc, Janet *argv) {
    janet_fixarity(argc, 1);
    JanetByteView v = janet_getbytes(argv, 0);
    uint64_t h = 1469598103934665603ULL;
    for (int32_t i = 0; i < v.len; i++) h = (h ^ v.bytes[i]) * 1099511628211ULL;
    char tmp[32];
    snprintf(tmp, sizeof tmp, "%016llx", (unsigned long long) h);
    return janet_cstringv(tmp);
}

/* store that survives VM teardown (C09: the image is the only durable state) */
#define MAX_STORE 16
static struct {
    char key[32];
    uint8_t *data;
    int32_t len;
} store[MAX_STORE];
static Janet cfun_sim_persist(int32_t argc, Janet *argv) {
    janet_fixarity(argc, 2);
    const char *k = (const char *) janet_getkeyword(argv, 0);
    JanetByteView v = janet_getbytes(argv, 1);
    for (int i = 0; i < MAX_STORE; i++) {
        if (!store[i].key[0] || !strcmp(store[i].key, k)) {
            snprintf(store[i].key, sizeof store[i].key, "%s", k);
            __real_free(store[i].data);
            store[i].data = __real_malloc((size_t) v.len + 1);
            memcpy(store[i].data, v.bytes, (size_t) v.len);
            store[i].len = v.len;
            return janet_wrap_nil();
        }
    }
    janet_panic("store full");
}
static Janet cfun_sim_restore(int32_t argc, Janet *argv) {
    janet_fixarity(argc, 1);
    const char *k = (const char *) janet_getkeyword(argv, 0);
    for (int i = 0; i < MAX_STORE; i++)
        if (!strcmp(store[i].key, k)) return janet_stringv(store[i].data, store[i].len);
    return janet_wrap_nil();
}

/* run a thunk with the collector forced at every safepoint etc. is done via sim/gc */

static int cur_phase;
static Janet cfun_sim_phase(int32_t argc, Janet *argv) {
    (void) argv;
    janet_fixarity(argc, 0);
    return janet_wrap_integer(cur_phase);
}

static const JanetReg sim_cfuns[] = {
    {"sim/phase", cfun_sim_phase, "(sim/phase) index of the current phase"},
    {"sim/ev", cfun_sim_ev, "(sim/ev kind & args) append an event to the history"},
    {"sim/canon", cfun_sim_canon, "(sim/canon x) canonical serialisation"},
    {"sim/now", cfun_sim_now, "(sim/now) simulated ns"},
    {"sim/seq", cfun_sim_seq, "(sim/seq) next history sequence number"},
    {"sim/probe", cfun_sim_probe, "(sim/probe :name)"},
    {"sim/gc", cfun_sim_gc, "(sim/gc :on|:off|:count)"},
    {"sim/faults", cfun_sim_faults, "(sim/faults on?)"},
    {"sim/monitor", cfun_sim_monitor, "(sim/monitor on?)"},
    {"sim/stats", cfun_sim_stats, "(sim/stats)"},
    {"sim/fill", cfun_sim_fill, "(sim/fill w off n)"},
    {"sim/match", cfun_sim_match, "(sim/match w off bytes)"},
    {"sim/hash", cfun_sim_hash, "(sim/hash bytes)"},
    {"sim/locate", cfun_sim_locate, "(sim/locate w bytes lo hi)"},
    {"sim/persist", cfun_sim_persist, "(sim/persist :key bytes)"},
    {"sim/restore", cfun_sim_restore, "(sim/restore :key)"},
    {NULL, NULL, NULL}
};

/* ------------------------------------------------------------------ */
/* janet_init / janet_deinit seam: every VM (also those of ev/thread)   */

extern int __real_janet_init(void);
extern void __real_janet_deinit(void);
static int vm_live;

int __wrap_janet_init(void) {
    int r = __real_janet_init();
    if (sim_cfg.active) {
        sim_fd_mark_selfpipe(janet_vm.selfpipe[0], janet_vm.selfpipe[1]);
        __atomic_add_fetch(&vm_live, 1, __ATOMIC_RELAXED);
        gc_safepoint_n = 0;
    }
    return r;
}

void __wrap_janet_deinit(void) {
    __real_janet_deinit();
    if (sim_cfg.active) __atomic_add_fetch(&vm_live, -1, __ATOMIC_RELAXED);
}

/* ------------------------------------------------------------------ */
/* request parsing                                                      */

typedef struct {
    char *text;          /* whole file */
    char *phases[8];
    int nphases;
} Request;

static int fault_kind_by_name(const char *n) {
    for (int i = 0; i < F_KINDS; i++)
        if (!strcmp(sim_fault_names[i], n)) return i;
    return -1;
}

static void parse_request(const char *path, Request *rq) {
    int fd = __real_open(path, O_RDONLY);
    if (fd < 0) {
        fprintf(stderr, "jsim: cannot open %s\n", path);
        _exit(SIM_EXIT_HARNESS);
    }
    size_t cap = 1 << 16, len = 0;
    char *buf = malloc(cap);
    for (;;) {
        if (len + 4096 > cap) {
            cap *= 2;
            buf = realloc(buf, cap);
        }
        ssize_t r = __real_read(fd, buf + len, cap - len - 1);
        if (r <= 0) break;
        len += (size_t) r;
    }
    __real_close(fd);
    buf[len] = 0;
    rq->text = buf;
    rq->nphases = 0;
    memset(&sim_cfg, 0, sizeof sim_cfg);
    sim_cfg.max_yields = 2000000;
    sim_cfg.max_sim_ns = 1000000LL * 1000000000LL;
    char gcm[16] = "default";
    double gcp = 0;
    uint64_t gclo = 0, gchi = 0;
    size_t excap = 0;
    char *p = buf;
    while (*p) {
        char *eol = strchr(p, '\n');
        if (!eol) eol = p + strlen(p);
        if (!strncmp(p, "---", 3)) {
            /* phases follow, separated by lines starting with --- */
            char *q = eol + (*eol ? 1 : 0);
            while (*q && rq->nphases < 8) {
                rq->phases[rq->nphases++] = q;
                char *sep = strstr(q, "\n---");
                if (!sep) break;
                *sep = 0;
                q = strchr(sep + 1, '\n');
                if (!q) break;
                q++;
            }
            break;
        }
        char save = *eol;
        *eol = 0;
        char key[64], val[192];
        if (sscanf(p, "%63s %191[^\n]", key, val) >= 1) {
            if (!strcmp(key, "seed")) sim_cfg.seed = strtoull(val, NULL, 10);
            else if (!strcmp(key, "p")) {
                char nm[32];
                double pr;
                if (sscanf(val, "%31s %lf", nm, &pr) == 2) {
                    int k = fault_kind_by_name(nm);
                    if (k >= 0) sim_cfg.p[k] = pr;
                }
            } else if (!strcmp(key, "gc")) {
                sscanf(val, "%15s %lf %llu %llu", gcm, &gcp, (unsigned long long *) &gclo, (unsigned long long *) &gchi);
            } else if (!strcmp(key, "sched")) {
                if (!strncmp(val, "pct", 3)) {
                    sim_cfg.sched_mode = SCHED_PCT;
                    sim_cfg.pct_depth = atoi(val + 3);
                } else sim_cfg.sched_mode = SCHED_RANDOM;
            } else if (!strcmp(key, "max_yields")) sim_cfg.max_yields = strtoull(val, NULL, 10);
            else if (!strcmp(key, "max_sim_s")) sim_cfg.max_sim_ns = strtoll(val, NULL, 10) * 1000000000LL;
            else if (!strcmp(key, "clock_phase_ns")) sim_cfg.clock_phase_ns = strtoll(val, NULL, 10);
            else if (!strcmp(key, "tick_ns")) sim_cfg.tick_ns = strtoll(val, NULL, 10);
            else if (!strcmp(key, "pipe_size")) sim_cfg.pipe_size = atoi(val);
            else if (!strcmp(key, "sock_buf")) sim_cfg.sock_buf = atoi(val);
            else if (!strcmp(key, "monitor")) sim_cfg.monitor = atoi(val);
            else if (!strcmp(key, "explicit")) sim_cfg.explicit_mode = atoi(val);
            else if (!strcmp(key, "fault")) {
                char nm[32];
                unsigned obj;
                unsigned long long n;
                long long prm;
                if (sscanf(val, "%31s %u %llu %lld", nm, &obj, &n, &prm) == 4) {
                    int k = fault_kind_by_name(nm);
                    if (k >= 0) {
                        if (sim_cfg.ex_count == excap) {
                            excap = excap ? excap * 2 : 64;
                            sim_cfg.ex = realloc(sim_cfg.ex, excap * sizeof(SimExplicit));
                        }
                        SimExplicit *e = &sim_cfg.ex[sim_cfg.ex_count++];
                        e->kind = (uint32_t) k;
                        e->obj = obj;
                        e->n = n;
                        e->param = prm;
                    }
                }
            }
        }
        *eol = save;
        p = eol + (*eol ? 1 : 0);
    }
    parse_gc_mode(gcm, gcp, gclo, gchi);
    cfg_gc_mode = sim_cfg.gc_mode;
    /* the configured schedule is suspended until the plan calls (sim/gc :on) */
    sim_cfg.gc_mode = GC_DEFAULT;
    memcpy(cfg_p, sim_cfg.p, sizeof cfg_p);
}

/* ------------------------------------------------------------------ */

static void emit_stats(const char *when) {
    sim_hist("!stats", "%s t=%lld roots=%u blocks=%zu listeners=%d timers=%zu fds=%d children=%d zombies=%d threads=%d "
             "allocs=%lld vms=%d gcs=%llu",
             when, (long long) sim_now_ns(), (unsigned) janet_vm.root_count, janet_vm.block_count,
             (int) janet_atomic_load(&janet_vm.listener_count), janet_vm.tq_count, sim_open_fd_count(),
             sim_child_live_count(), sim_child_zombie_count(), sim_thread_count_live(),
             (long long) __atomic_load_n(&live_allocs, __ATOMIC_RELAXED), vm_live, (unsigned long long) gc_forced);
}

static int run_phase(const char *src, int idx) {
    janet_init();
    JanetTable *env = janet_core_env(NULL);
    janet_cfuns(env, NULL, sim_cfuns);
    cur_phase = idx;
    sim_hist("!phase", "%d", idx);
    Janet out;
    int status = janet_dostring(env, src, "plan", &out);
    /* janet_dostring runs the loop itself when JANET_EV is on; run it again to be sure */
    janet_loop();
    sim_hist("!loop-exit", "%d status=%d", idx, status);
    emit_stats("end");
    janet_deinit();
    return status;
}

/* the history must survive every way the run can end: exit() from JANET_EXIT / os/exit, abort(),
 * fatal signals and sanitizer deaths */
extern void __sanitizer_set_death_callback(void (*cb)(void)) __attribute__((weak));
static void flush_on_death(void) {
    sim_hist_flush();
}
static void fatal_signal(int sig) {
    sim_cfg.active = 0;
    sim_hist("!signal", "%d", sig);
    sim_hist_flush();
    signal(sig, SIG_DFL);
    raise(sig);
}

static int run_request(const char *reqpath, const char *outpath) {
    Request rq;
    parse_request(reqpath, &rq);
    sim_hist_open(outpath);
    atexit(flush_on_death);
    if (__sanitizer_set_death_callback) __sanitizer_set_death_callback(flush_on_death);
    else {
        signal(SIGSEGV, fatal_signal);
        signal(SIGBUS, fatal_signal);
    }
    signal(SIGABRT, fatal_signal);
    sim_clock_reset();
    sim_fd_reset();
    sim_child_reset();
    sim_sched_init();
    janet_verif_hooks.gc_safepoint = hook_gc_safepoint;
    janet_verif_hooks.point = hook_point;
    signal(SIGPIPE, SIG_IGN);
    setenv("TZ", "UTC", 1);
    /* the collector schedule starts suspended unless the plan never calls (sim/gc :on):
     * plans that want a hostile schedule only around their workload call it explicitly;
     * knob `gc` alone applies to the whole run. */
    sim_cfg.active = 1;
    int status = 0;
    for (int i = 0; i < rq.nphases; i++) status |= run_phase(rq.phases[i], i);
    sim_cfg.active = 0;
    sim_hist("!stats", "final allocs=%lld vms=%d",
             (long long) __atomic_load_n(&live_allocs, __ATOMIC_RELAXED), vm_live);
    sim_probe_dump();
    sim_hist("!end", "0 yields=%llu switches=%llu sched=%016llx status=%d", (unsigned long long) sim_yield_count,
             (unsigned long long) sim_switch_count, (unsigned long long) sim_sched_trace_hash(), status);
    sim_hist_flush();
    return 0;
}

/* ------------------------------------------------------------------ */
/* fork server                                                          */

static void server(void) {
    char line[4096];
    setvbuf(stdout, NULL, _IOLBF, 0);
    printf("READY\n");
    fflush(stdout);
    while (fgets(line, sizeof line, stdin)) {
        char req[1024], out[1024];
        int timeout_ms = 60000;
        if (sscanf(line, "RUN %1023s %1023s %d", req, out, &timeout_ms) < 2) {
            if (!strncmp(line, "QUIT", 4)) break;
            printf("ERR bad request\n");
            fflush(stdout);
            continue;
        }
        struct timespec t0, t1;
        __real_clock_gettime(CLOCK_MONOTONIC, &t0);
        pid_t pid = __real_fork();
        if (pid == 0) {
            prctl(PR_SET_PDEATHSIG, SIGKILL);
            /* child: stdout/stderr of the plan go to <out>.log */
            char logp[1100];
            snprintf(logp, sizeof logp, "%s.log", out);
            int lfd = __real_open(logp, O_WRONLY | O_CREAT | O_TRUNC, 0644);
            int nfd = __real_open("/dev/null", O_RDONLY);
            if (nfd >= 0) {
                __real_dup2(nfd, 0);
                __real_close(nfd);
            }
            if (lfd >= 0) {
                __real_dup2(lfd, 1);
                __real_dup2(lfd, 2);
                __real_close(lfd);
            }
            run_request(req, out);
            fflush(NULL);
            _exit(0);
        }
        int status = 0, timed_out = 0;
        for (;;) {
            pid_t r = __real_waitpid(pid, &status, WNOHANG);
            if (r == pid) break;
            __real_clock_gettime(CLOCK_MONOTONIC, &t1);
            long ms = (t1.tv_sec - t0.tv_sec) * 1000 + (t1.tv_nsec - t0.tv_nsec) / 1000000;
            if (ms > timeout_ms) {
                __real_kill(pid, SIGKILL);
                __real_waitpid(pid, &status, 0);
                timed_out = 1;
                break;
            }
            struct timespec nap = {0, ms < 20 ? 200000 : 2000000};
            __real_nanosleep(&nap, NULL);
        }
        __real_clock_gettime(CLOCK_MONOTONIC, &t1);
        long us = (t1.tv_sec - t0.tv_sec) * 1000000 + (t1.tv_nsec - t0.tv_nsec) / 1000;
        if (timed_out) printf("DONE timeout 0 %ld\n", us);
        else if (WIFEXITED(status)) printf("DONE exit %d %ld\n", WEXITSTATUS(status), us);
        else printf("DONE signal %d %ld\n", WTERMSIG(status), us);
        fflush(stdout);
    }
}

int main(int argc, char **argv) {
    /* identical addresses for identical (binary, plan): ASLR off, then re-exec once */
    if (!getenv("JSIM_NO_REEXEC")) {
        int pers = personality(0xffffffff);
        if (pers != -1) personality(pers | ADDR_NO_RANDOMIZE);
        setenv("JSIM_NO_REEXEC", "1", 1);
        /* no per-thread malloc caches: they are flushed on a thread's exit path, which runs outside the
         * scheduler's control and would make later addresses depend on real timing */
        setenv("GLIBC_TUNABLES", "glibc.malloc.tcache_count=0", 1);
        /* a fixed, minimal environment: heap layout must not depend on the caller's variables */
        char *envp[] = {"JSIM_NO_REEXEC=1", "GLIBC_TUNABLES=glibc.malloc.tcache_count=0", "TZ=UTC", "LC_ALL=C",
                        "PATH=/usr/bin:/bin", NULL};
        execve("/proc/self/exe", argv, envp);
    }
    setenv("TZ", "UTC", 1);
    setenv("LC_ALL", "C", 1);
    /* one malloc arena: with per-thread arenas the addresses handed to a thread depend on which
     * arena happens to be uncontended, i.e. on the real timing of other threads' exit paths */
    mallopt(M_ARENA_MAX, 1);
    /* ... and no mmap-backed chunks: their addresses depend on when exiting threads unmap their stacks */
    mallopt(M_MMAP_THRESHOLD, 32 * 1024 * 1024);
    mallopt(M_TRIM_THRESHOLD, 1 << 30);
    if (argc >= 2 && !strcmp(argv[1], "--server")) {
        prctl(PR_SET_PDEATHSIG, SIGKILL);
        server();
        return 0;
    }
    if (argc >= 4 && !strcmp(argv[1], "--run")) {
        run_request(argv[2], argv[3]);
        fflush(NULL);
        _exit(0);
    }
    fprintf(stderr, "usage: jsim --server | --run <request> <history-out>\n");
    return 2;
}
