#!/bin/bash
# usage: mutcheck.sh <prop> <budget> <name> <python-edit-script-file>   (edits files under $WT)
# applies a mutation to a scratch worktree of /repo, runs the check against it, restores.
set -u
PROP=$1; BUDGET=$2; NAME=$3; EDIT=$4
WT=/tmp/wt-mut-$$
git -C /repo worktree add -q --detach $WT HEAD || exit 3
( cd $WT && WT=$WT python3 $EDIT ) || { echo "EDIT FAILED"; git -C /repo worktree remove --force $WT; exit 3; }
( cd $WT && git diff --stat | tail -1 )
cd /verif
VERIF_REPO=$WT timeout 1200 ./verif check $PROP --budget $BUDGET --workers ${WORKERS:-8} > /tmp/mut-$NAME.out 2>&1
echo "mutation=$NAME exit=$? $(grep -c '^VIOLATION' /tmp/mut-$NAME.out) violations"
grep '^VIOLATION\|^HARNESS' /tmp/mut-$NAME.out | cut -c1-260 | head -5
tail -1 /tmp/mut-$NAME.out
git -C /repo worktree remove --force $WT
