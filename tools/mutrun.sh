#!/bin/bash
# usage: mutrun.sh <budget> name...   - run each named mutation of tools/mutations/mutations.json against its property's check
BUDGET=$1; shift
for NAME in "$@"; do
  PROP=$(python3 -c "import json;print(json.load(open('/verif/tools/mutations/mutations.json'))['$NAME']['prop'])")
  WT=/tmp/wt-mut-$NAME
  git -C /repo worktree add -q --detach $WT HEAD || continue
  if ( cd $WT && python3 /verif/tools/mutations/apply.py $NAME ); then
    ( cd /verif && VERIF_REPO=$WT timeout 1500 ./verif check $PROP ${TIER:+--tier $TIER} --budget $BUDGET --workers ${WORKERS:-6} > /tmp/mut-$NAME.out 2>&1 )
    echo "MUT $NAME prop=$PROP exit=$? violations=$(grep -c '^VIOLATION' /tmp/mut-$NAME.out) :: $(grep '^VIOLATION' /tmp/mut-$NAME.out | sed 's/.*signature=//' | cut -c1-90 | head -3 | tr '\n' '|')"
  else
    echo "MUT $NAME: edit failed"
  fi
  git -C /repo worktree remove --force $WT
done
