#!/usr/bin/env python3
"""Validate one independently seeded change and run the property's check against it.
usage: seedcheck.py <PROP> <k> [budget]   (input: /tmp/seed-out/<PROP>/<k>/{patch.diff,demo.janet,notes.md})
Steps (all in a scratch worktree of /repo, removed afterwards):
  1. the patch applies to HEAD; 2. it builds (meson) and the pinned test suite passes with it;
  3. the demonstration fails with the change and passes without it; 4. ./verif check <PROP> against the changed tree.
Writes /verif/seeded/<PROP>-<k>/{patch.diff,demo.*,notes.md,meta.json}."""
import json, os, shutil, subprocess, sys, time

prop, k = sys.argv[1], sys.argv[2]
budget = sys.argv[3] if len(sys.argv) > 3 else "45"
src = "%s/%s/%s" % (os.environ.get("SEED_ROOT", "/tmp/seed-out"), prop, k)
dst = "/verif/seeded/%s-%s" % (prop, os.environ.get("SEED_DST_K", k))
wt = "/tmp/wt-seed-%s-%s" % (prop, k)
meta = {"property": prop, "source": "independent sub-agent given only the property text", "ran": []}


def sh(cmd, **kw):
    r = subprocess.run(cmd, shell=True, stdout=subprocess.PIPE, stderr=subprocess.STDOUT, text=True, **kw)
    meta["ran"].append({"cmd": cmd, "exit": r.returncode})
    return r.returncode, r.stdout


os.makedirs(dst, exist_ok=True)
for f in os.listdir(src):
    if os.path.isfile(os.path.join(src, f)):
        shutil.copy(os.path.join(src, f), dst)
sh("git -C /repo worktree remove --force %s" % wt)
sh("git -C /repo worktree add -q --detach %s HEAD" % wt)
try:
    rc, out = sh("cd %s && (git apply %s/patch.diff || git apply --3way %s/patch.diff)" % (wt, src, src))
    meta["applies"] = rc == 0
    if rc != 0:
        meta["apply_output"] = out[-600:]
        raise SystemExit
    rc, out = sh("cd %s && meson setup _b >/dev/null 2>&1 && ninja -C _b 2>&1 | tail -2" % wt)
    meta["builds"] = rc == 0 and os.path.exists(wt + "/_b/janet")
    rc, out = sh("cd %s && unshare -rn sh -c 'ip link set lo up; meson test -C _b' 2>&1 | grep -E '^Ok|^Fail'" % wt)
    meta["suite_with_change"] = " ".join(out.split())
    meta["suite_passes_with_change"] = "Fail: 0" in " ".join(out.split()) and "Ok: 31" in " ".join(out.split())
    demo = [f for f in os.listdir(src) if f.startswith("demo")]
    meta["demo_files"] = demo
    if "demo.janet" in demo:
        rc1, out1 = sh("cd %s && timeout 60 %s/_b/janet demo.janet" % (src, wt))
        rc0, out0 = sh("cd %s && timeout 60 /repo/_build/janet demo.janet" % src)
        meta["demo_with_change"] = {"exit": rc1, "tail": out1[-300:]}
        meta["demo_without_change"] = {"exit": rc0, "tail": out0[-300:]}
        meta["demo_confirms"] = rc1 != 0 and rc0 == 0
    t0 = time.time()
    rc, out = sh("cd /verif && VERIF_REPO=%s timeout 1500 ./verif check %s --budget %s --workers ${WORKERS:-8} 2>&1 | grep -v '^\\[build\\]'" % (wt, prop, budget))
    lines = out.splitlines()
    meta["check"] = {"cmd": "VERIF_REPO=<tree with the change> ./verif check %s --budget %s" % (prop, budget), "wall_s": round(time.time() - t0),
                     "violations": [l[:400] for l in lines if l.startswith("VIOLATION")][:8],
                     "known_findings": [l[:200] for l in lines if l.startswith("KNOWN-FINDING")][:8],
                     "harness": [l[:300] for l in lines if l.startswith("HARNESS") or l.startswith("UNCONFIRMED")][:5],
                     "summary": lines[-1][:300] if lines else ""}
    meta["detected"] = bool(meta["check"]["violations"])
finally:
    sh("git -C /repo worktree remove --force %s" % wt)
    notes = os.path.join(src, "notes.md")
    if os.path.exists(notes):
        meta["needs_to_manifest"] = open(notes).read()[:1500]
    # evidence files and replays written by this run belong to the changed tree: restore the committed ones
    sh("cd /verif && git checkout -- evidence 2>/dev/null")
    with open(os.path.join(dst, "meta.json"), "w") as f:
        json.dump(meta, f, indent=1)
    print("SEED %s-%s applies=%s builds=%s suite=%s demo=%s DETECTED=%s :: %s" % (
        prop, k, meta.get("applies"), meta.get("builds"), meta.get("suite_passes_with_change"), meta.get("demo_confirms"),
        meta.get("detected"), "; ".join(v.split("signature=")[-1][:100] for v in meta.get("check", {}).get("violations", [])[:3])))
